"""C16 — serializer (serializer.py serialize / sanitize_old / placeholder /
prune_placeholders; Entity.wrap, FluentEntity.wrap, AndroidEntity.wrap).

Suites
  SERIALIZE        triples (reference records, old localization with obsolete keys
                   and junk, new-data map with values / None removals / unknown
                   keys) per format through serialize(name, list(ref.walk()),
                   list(old.walk()), new_data); the model is fed the implementation's
                   own parse of reference and old file (kinds, keys, texts, object
                   identities, spans of the reference entities) and must produce the
                   bytes serialize produces.
  SERIALIZE-wild   the same with mutated texts (junk, duplicate keys, missing final
                   newline, shared entry objects): bytes only, no oracle.
  WRAP             Entity.wrap on every entity of generated and mutated files (also
                   valueless .inc defines, whose val_span is (-1,-1)) against the
                   model's slice arithmetic; SLICE: s[a:b] for all small a, b.
Oracle (implementation only): the output is re-parsed with the real parser: no
junk; its entities are exactly the reference keys that have a new value or an old
value not marked for removal, in reference order, with the new raw value if given
and the old one otherwise; no placeholder text, no reference (English) value, no
obsolete key, no removed key, no junk text of the old file; serializing the
re-parsed output again with no new data gives the same entities.
"""
import json

from harness import common
from harness.common import Model, s2l
from harness.props import c15
from harness.props.c15 import (FNAME, FORMATS, K_ENTITY, K_JUNK, K_PLACEHOLDER, ckind, centry,
                               Ids, walk_bytes, gen_items, render, render_value, key_name,
                               render_comment, render_entity,
                               entity_facts, normalise)

FACTS = ("tables", "parser", "c02", "c15")

RULE = ("seeded triples per format: reference = rendered record list (values marked EN_), old "
        "localization = a subset of the reference keys re-valued, in reference or shuffled order, "
        "plus obsolete keys, own comments and junk lines; new data = raw values obtained by "
        "parsing a generated file of the format, None removals and unknown keys; a case is "
        "distinct by (format, reference text, old text, new data)")

from harness.props.c15 import JUNK_MARK, JUNK_LINE, mutate, key_str, comment_val  # noqa: E402

FORMATS16 = FORMATS              # incl. po: its keys are (msgid, msgctxt) tuples, see key_str


def serialize_impl(name, ref, old, new_data, po=False):
    from compare_locales.serializer import serialize, SerializationNotSupportedError
    if po:
        # key_str rendering back to the (msgid, msgctxt) tuples PoEntity.key uses
        new_data = {(k.partition("\x04")[0], k.partition("\x04")[2] if "\x04" in k else None): v
                    for k, v in new_data.items()}
    try:
        out = serialize(name, ref, old, new_data)
    except SerializationNotSupportedError:
        return [1, 11], None
    except Exception as e:  # noqa: any other exception is reported, not propagated
        from harness.common import TAGS
        return [1, TAGS.get(type(e).__name__, 99)], None
    text = out.decode("utf-8")
    return [0, s2l(text)], text


# ------------------------------------------------------------- wrap facts ---
def wrapinfo(e, raws):
    """what Model/Serializer.v wrapinfo_of_sx reads for reference entity e"""
    from compare_locales.parser.fluent import FluentEntity
    from compare_locales.parser.android import AndroidEntity
    if isinstance(e, FluentEntity):
        from fluent.syntax.serializer import serialize_comment
        c = e.entry.comment
        return [1, s2l(serialize_comment(c) if c is not None else "")]
    if isinstance(e, AndroidEntity):
        # oracle: minidom clone / toxml on exactly the raw values of this case
        table = []
        for r in raws:
            try:
                table.append([s2l(r), s2l(e.wrap(r).all)])
            except Exception:  # noqa: the implementation's own failure is reported by the oracle
                pass
        return [2, table]
    pre = getattr(e, "pre_comment", None)
    vs = e.val_span
    return [0, [e.span[0], e.span[1]], [] if vs is None else [[vs[0], vs[1]]],
            [] if pre is None else [[pre.span[0], pre.span[1]]]]


def model_request(name, ref, old, new_data, f=0):
    ids = Ids()
    raws = [v for v in new_data.values() if v is not None]
    rents = [centry(e, ids) for e in ref]
    wraps = [[ids.of(e), wrapinfo(e, raws)] for e in ref if ckind(e) == K_ENTITY]
    oents = [centry(e, ids) for e in old]
    contents = ""
    for e in ref:
        ctx = getattr(e, "ctx", None)
        if ctx is not None:
            contents = ctx.contents
            break
    nd = [[s2l(k), [] if v is None else [s2l(v)]] for k, v in new_data.items()]
    if f == 0:
        return (0, [s2l(name), s2l(contents), rents, wraps, oents, nd])
    return (3, [s2l(contents), rents, wraps, oents, nd])


# ----------------------------------------------------------------- generator ---
CDATA_LAYOUTS = [("", ""), ("", ""), ("\n    ", "\n  "), (" ", " "), ("\n", "")]


def android_cdata(text, items, layout):
    """the Android file [text] rendered from [items] with the strings of [layout]
    (key -> (white-space before, after)) written as CDATA sections:
    <string name="k">{before}<![CDATA[value]]>{after}</string>.  The value of such a string
    is the content of the CDATA section, as it stands."""
    vals = {it[1]: it[2] for it in items if it[0] == "ent"}
    for k, (lead, trail) in layout.items():
        v = vals.get(k)
        if not v or "]]>" in v:
            continue
        text = text.replace(render_entity("android", k, v),
                            '<string name="%s">%s<![CDATA[%s]]>%s</string>' % (k, lead, v, trail), 1)
    return text


def cdata_layout(rng, items, p):
    return {it[1]: rng.choice(CDATA_LAYOUTS) for it in items
            if it[0] == "ent" and it[2] and rng.random() < p}


def raw_values(fmt, recs, cdata=None):
    """record values -> raw values as a tool obtains them: parse a file of the format
    ([cdata]: Android strings written as CDATA sections in that file)"""
    items = [("ent", k, v, None) for k, v in recs]
    if fmt == "ini":
        items = [("sec", "Strings")] + items
    text = render(fmt, items)
    if fmt == "android" and cdata:
        text = android_cdata(text, items, cdata)
    out = {}
    for e in walk_bytes(FNAME[fmt], text.encode("utf-8")):
        if ckind(e) == K_ENTITY:
            out[key_str(e.key)] = e.unwrap()
    # (a parser that does not give these keys back is found by the oracle, not here)
    return out


SPECIAL_FORMATS = ("dtd", "properties", "ini", "inc", "po")     # the users of Entity.wrap


def special_value(fmt, rng, it):
    """a reference record whose value is empty, or re-occurs in the key, in the attached
    comment or in the closing syntax of the entity (where the value sits is known from
    the record, never from searching the text)"""
    key, com = it[1].partition("\x04")[0], it[3]
    r = rng.random()
    if r < 0.35:
        v = ""
    elif r < 0.6:
        a = rng.randrange(len(key))
        v = key[a:rng.randint(a + 1, len(key))].strip() or key
    elif r < 0.8:
        com = com or "note"
        v = com if rng.random() < 0.5 else com[:2].strip() or com
    else:
        v = {"dtd": ">", "android": "string", "ftl": "x", "po": "msgstr"}.get(fmt, key[-1])
    if fmt == "po":
        v = 'msgstr "%s"' % v
    if fmt == "ftl" and not v:
        v = "{\"\"}"            # a Fluent message needs a value
    return ("ent", it[1], v, com)


def gen_triple(rng, fmt=None):
    fmt = fmt or rng.choice(FORMATS16)
    nkeys = rng.randint(1, 8)
    blanks = rng.random() < 0.6
    ref_items = normalise(fmt, gen_items(fmt, rng, nkeys, lang="EN_", blanks=blanks))
    if fmt == "inc" and rng.random() < 0.15:
        # `#define KEY` without a value is a valid define
        ref_items = [("ent", it[1], None, it[3]) if it[0] == "ent" and rng.random() < 0.4 else it
                     for it in ref_items]
    if fmt == "android" and rng.random() < 0.3:
        # empty reference strings: <string name="k"></string> ("") and <string name="k"/> (None)
        ref_items = [("ent", it[1], rng.choice(["", None]), it[3]) if it[0] == "ent"
                     and rng.random() < 0.5 else it for it in ref_items]
    if fmt in SPECIAL_FORMATS and rng.random() < 0.3:
        ref_items = [special_value(fmt, rng, it) if it[0] == "ent" and it[2] is not None
                     and rng.random() < 0.5 else it for it in ref_items]
    ref_keys = [it[1] for it in ref_items if it[0] == "ent"]
    # old localization: reference structure, subset of keys, own values / comments
    old_items = []
    for it in ref_items:
        if it[0] == "ent":
            if rng.random() < 0.6:
                com = it[3] if rng.random() < 0.6 else (None if rng.random() < 0.6 else "l10n note")
                old_items.append(("ent", it[1], render_value(fmt, rng, "L"), com))
        elif it[0] in ("sec", "pi", "lic"):
            old_items.append(it)
        elif it[0] == "attr":
            if rng.random() < 0.7:
                old_items.append(it if rng.random() < 0.5 else ("attr", it[1], it[2] + "-l10n"))
        elif rng.random() < 0.6:
            old_items.append(it)
    if fmt == "android" and rng.random() < 0.4:
        # the old file's root element has an attribute the reference root lacks
        have = {it[1] for it in ref_items if it[0] == "attr"}
        free = [a for a in c15.ATTR_POOL if a[0] not in have]
        if free:
            old_items.insert(0, ("attr",) + rng.choice(free))
    if rng.random() < 0.3:
        head = [it for it in old_items if it[0] in ("sec", "pi", "lic", "attr")
                and it[1] != "unfilter emptyLines"]
        body = [it for it in old_items if it not in head and it != ("pi", "unfilter emptyLines")]
        rng.shuffle(body)
        old_items = head + body
    obsolete = []
    for j in range(rng.randint(0, 2)):
        k = "obs%d" % j if fmt not in ("inc",) else "OBS_%d" % j
        if fmt == "ftl":
            k = "obs-%d" % j
        if fmt == "dtd":
            k = "obs.%d" % j
        obsolete.append(k)
        pos = rng.randint(c15.insert_floor(fmt, old_items), len(old_items))
        com = "obsolete note" if rng.random() < 0.4 else None
        old_items.insert(pos, ("ent", k, render_value(fmt, rng, "L"), com))
    old_items = normalise(fmt, old_items)
    njunk = 0
    if rng.random() < 0.3:
        # a junk line of the old file, between records (never in front of the header items)
        lo = c15.insert_floor(fmt, old_items)
        hi = len(old_items) - (2 if old_items[-1:] == [("pi", "unfilter emptyLines")] else 0)
        if lo <= hi:
            old_items.insert(rng.randint(lo, hi), ("junk", JUNK_LINE[fmt]))
            njunk = 1
    old_text = render(fmt, old_items)
    apos_ref = set()
    if fmt == "dtd" and rng.random() < 0.5:
        # apostrophe-quoted values, in the reference (Entity.wrap keeps the quotes) and the old file
        apos_ref = c15.dtd_apos_keys(rng, ref_items, 0.5)
        old_text = c15.dtd_apos(rng, old_text, old_items, 0.5)
    cdata_ref = {}
    if fmt == "android" and rng.random() < 0.4:
        # strings whose content is a CDATA section, plain or surrounded by white-space: in the
        # reference (Entity.wrap writes the new value into the section) and in the old file
        cdata_ref = cdata_layout(rng, ref_items, 0.5)
        old_text = android_cdata(old_text, old_items, cdata_layout(rng, old_items, 0.4))
    if rng.random() < 0.08:
        old_text, old_items = "", []
    # new data
    new_recs, new_none = [], []
    pool = list(ref_keys) + obsolete + ["unknown1", "unknown2"]
    rng.shuffle(pool)
    for k in pool[:rng.randint(0, min(4, len(pool)))]:
        if rng.random() < 0.3:
            new_none.append(k)
        elif rng.random() < (0.25 if fmt == "dtd" else 0.08) and fmt not in ("ftl", "po"):
            new_recs.append((k, ""))             # an empty string is a value, not a removal
        else:
            new_recs.append((k, render_value(fmt, rng, "N")))
    known = [(k, v) for k, v in new_recs if not k.startswith("unknown")]
    # (Android: some of the new values are read from CDATA strings of the parsed file)
    raws = raw_values(fmt, known, cdata_layout(rng, [("ent", k, v, None) for k, v in known], 0.4)
                      if fmt == "android" and rng.random() < 0.5 else None) if known else {}
    new_data = {}
    for k in pool:
        if k in new_none:
            new_data[k] = None
        for kk, v in new_recs:
            if kk == k:
                new_data[k] = raws.get(k, "whatever " + v)
    return {"fmt": fmt, "ref_items": ref_items, "old_items": old_items,
            "ref": android_cdata(render(fmt, ref_items), ref_items, cdata_ref) if cdata_ref
            else c15.dtd_apos_apply(render(fmt, ref_items), ref_items, apos_ref),
            "apos_ref": sorted(apos_ref), "old": old_text, "new_data": new_data,
            "new_recs": dict(new_recs), "obsolete": obsolete, "junk": njunk,
            "cdata_ref": {k: list(v) for k, v in cdata_ref.items()}}


# -------------------------------------------------------------------- oracle ---
def describe(case):
    return {"fmt": case["fmt"], "ref": case["ref"], "old": case["old"], "new_data": case["new_data"],
            "records": {k: case[k] for k in ("ref_items", "old_items", "new_recs", "obsolete", "junk")
                        if k in case}}


def entity_list(fmt, entries):
    """(key, raw value) of the entities"""
    return [(key_str(e.key), entity_facts(fmt, e)[0]) for e in entries if ckind(e) == K_ENTITY]


def classify(case, sig, junk=()):
    """recognised families of genuine defects (reported under their own signature)"""
    fmt = case["fmt"]
    if fmt == "inc" and junk and all(j.strip("\n") == "" for j in junk):
        # a blank line where .inc allows none (at the top, or outside `#filter emptyLines`)
        return "inc-serialize-blank-line-junk"
    if fmt == "inc":
        valueless = any(it[0] == "ent" and it[2] is None for it in case["ref_items"])
        if valueless and any(k in case["new_recs"] for k in
                             [it[1] for it in case["ref_items"] if it[0] == "ent" and it[2] is None]):
            return "inc-wrap-valueless-define"
    return sig


ANDROID_CDATA_EMPTY = "android-wrapped-cdata-empty-value-reads-back-whitespace"
DTD_APOS = "dtd-apostrophe-value-in-apostrophe-quoted-entity"


def classify_dtd_apos(chk, case, ref):
    """listed finding: junk in the output of a DTD triple in which an apostrophe-quoted
    reference entity gets a new value that contains an apostrophe (Entity.wrap keeps the
    reference's quotes and escapes nothing).  Recognised only when there is such a key and the
    same triple with the apostrophes taken out of exactly those values passes the whole oracle."""
    if case["fmt"] != "dtd":
        return None
    keys = [k for k in case.get("apos_ref", ()) if "'" in (case["new_recs"].get(k) or "")
            and case["new_data"].get(k) is not None]
    if not keys:
        return None
    case2 = dict(case)
    case2["new_recs"] = dict(case["new_recs"])
    case2["new_data"] = dict(case["new_data"])
    for k in keys:
        case2["new_recs"][k] = case["new_recs"][k].replace("'", "")
        case2["new_data"][k] = case["new_data"][k].replace("'", "")
    name = FNAME["dtd"]
    _, text2 = serialize_impl(name, ref, walk_bytes(name, case["old"].encode("utf-8")),
                              case2["new_data"])
    if text2 is None:
        return None
    sub = common.Check(chk.prop, chk.tier, chk.seed)
    sub.known = []
    oracle_serialize(sub, case2, ref, text2)
    return None if sub.failures else DTD_APOS


def classify_cdata_empty(case, got, want):
    """listed finding: the reference string is a CDATA section surrounded by white-space, the
    requested value is the empty string; AndroidEntity.wrap writes an empty CDATA section,
    which minidom drops on re-parse, so the value read back is exactly the surrounding
    white-space.  Recognised only when every entity whose value differs is of that kind."""
    layout = case.get("cdata_ref") or {}
    if case["fmt"] != "android" or len(got) != len(want):
        return None
    hit = False
    for (gk, gv), (wk, wv) in zip(got, want):
        if gk != wk:
            return None
        if gv == wv:
            continue
        lead, trail = layout.get(wk, ("", ""))
        if wv == "" and lead + trail != "" and gv == lead + trail:
            hit = True
        else:
            return None
    return ANDROID_CDATA_EMPTY if hit else None


def oracle_serialize(chk, case, ref, out_text):
    fmt = case["fmt"]
    name = FNAME[fmt]
    desc = describe(case)
    new_data = case["new_data"]
    ref_keys = [it[1] for it in case["ref_items"] if it[0] == "ent"]
    old_vals = {it[1]: (it[2], it[3]) for it in case["old_items"] if it[0] == "ent"}
    ref_coms = {it[1]: it[3] for it in case["ref_items"] if it[0] == "ent"}

    want = []
    for k in ref_keys:
        if new_data.get(k) is not None:
            want.append((k, case["new_recs"][k]))
        elif k not in new_data and k in old_vals:
            want.append((k, old_vals[k][0]))
    entries = walk_bytes(name, out_text.encode("utf-8"))
    junk = [e.all for e in entries if ckind(e) == K_JUNK]
    if junk:
        chk.fail(classify_dtd_apos(chk, case, ref) or classify(case, "serialize-reparse-junk", junk),
                 desc, {"output": out_text, "junk": junk})
        return
    got = entity_list(fmt, entries)
    if [g[0] for g in got] != [w[0] for w in want]:
        chk.fail(classify(case, "serialize-entities"), desc,
                 {"output": out_text, "keys": [g[0] for g in got], "expected": [w[0] for w in want]})
        return
    if got != want:
        chk.fail(classify_cdata_empty(case, got, want) or classify(case, "serialize-values"), desc,
                 {"output": out_text, "entities": got, "expected": want})
        return
    if fmt in SPECIAL_FORMATS:
        # wrap keeps the reference entity's syntax and attached comment around the new value:
        # the record rendered with the new value is in the output, text for text
        for k in ref_keys:
            if new_data.get(k) is not None and not classify(case, "").startswith("inc-wrap"):
                c = ref_coms[k]
                ent = render_entity(fmt, k, case["new_recs"][k])
                if k in case.get("apos_ref", ()):
                    ent = "<!ENTITY %s '%s'>" % (k, case["new_recs"][k])
                piece = (render_comment(fmt, c) + "\n" if c is not None else "") + ent
                if piece not in out_text:
                    chk.fail("serialize-wrapped-text", desc,
                             {"output": out_text, "key": k, "expected_piece": piece})
                    return
    bad = [m for m in ["placeholder", "EN_", JUNK_MARK] + case["obsolete"] if m in out_text]
    for k, v in new_data.items():
        if v is None and k in ref_keys and any(g[0] == k for g in got):
            bad.append(k)
    if bad:
        chk.fail(classify(case, "serialize-leak"), desc, {"output": out_text, "found": bad})
        return
    # idempotence at entity level through the real parser
    res2, again = serialize_impl(name, ref, entries, {}, po=fmt == "po")
    if again is None:
        chk.fail("serialize-idempotent", desc, {"output": out_text, "second": res2})
        return
    e2 = walk_bytes(name, again.encode("utf-8"))
    if any(ckind(e) == K_JUNK for e in e2) or entity_list(fmt, e2) != got:
        chk.fail(classify(case, "serialize-idempotent"), desc,
                 {"output": out_text, "second": again})


WITNESSES = [
    # (signature, format, reference, old, new_data)
    ("inc-wrap-valueless-define", "inc",
     "#define foo\n#define bar BAR\n#define baz BAZ\n", "", {"foo": "x"}),
    ("inc-serialize-blank-line-junk", "inc", "#define A a\n#define B b\n", "", {"B": "x"}),
    ("ftl-unwrap-includes-comment", "ftl", "# note for k\nk = English\n", "",
     {"k": "# note for k\nk = Deutsch"}),
    ("serialize-ws-fold-joins-lines", "properties", "a = A\nb = B\n", "a = la  ", {"b": "nb"}),
    ("serialize-ws-fold-ini-comment-leaves-line-start", "ini",
     "a=A\n;c\n\nb=B\n", "a=la\n\n  b=lb\n", {}),
    ("android-wrapped-cdata-empty-value-reads-back-whitespace", "android",
     '<?xml version="1.0" encoding="utf-8"?>\n<resources>\n'
     '  <string name="key_3"> <![CDATA[EN_x]]> </string>\n</resources>\n', "", {"key_3": ""}),
    ("dtd-apostrophe-value-in-apostrophe-quoted-entity", "dtd",
     "<!ENTITY key.2 'EN_new: text'>\n", "", {"key.2": "Nit's"}),
    ("serialize-ws-fold-after-junk-joins-lines", "ftl",
     "one = One\ntwo = Two\nfour = Four\n", "one = Eins\n# c\n   junk\nfour = Vier\n",
     {"two": "two = Zwei"}),
]


def run_witnesses(chk, only=None):
    for sig, fmt, ref_t, old_t, new_data in WITNESSES:
        if only is not None and (ref_t, old_t) != only:
            continue
        name = FNAME[fmt]
        ref = walk_bytes(name, ref_t.encode("utf-8"))
        old = walk_bytes(name, old_t.encode("utf-8"))
        _, text = serialize_impl(name, ref, old, new_data)
        if sig == "inc-serialize-blank-line-junk" and text is not None:
            junk = [e.all for e in walk_bytes(name, text.encode("utf-8")) if ckind(e) == K_JUNK]
            if junk:
                chk.fail(sig, {"fmt": fmt, "ref": ref_t, "old": old_t, "new_data": new_data},
                         {"output": text, "junk": junk,
                          "why": "the placeholder of the untranslated first define is pruned, its "
                                 "newline stays: the output starts with a blank line, which "
                                 "DefinesParser (no `#filter emptyLines`) re-parses as Junk"})
        if sig == "serialize-ws-fold-ini-comment-leaves-line-start" and text is not None:
            junk = [e.all for e in walk_bytes(name, text.encode("utf-8")) if ckind(e) == K_JUNK]
            if junk:
                chk.fail(sig, {"fmt": fmt, "ref": ref_t, "old": old_t, "new_data": new_data},
                         {"output": text, "junk": junk,
                          "why": "prune keeps the LONGER whitespace: the old file's blank line + "
                                 "key indentation beats the reference's line break in front of "
                                 "the comment, which then does not start a line and is Junk"})
        if sig == "serialize-ws-fold-after-junk-joins-lines" and text is not None:
            keys = [key_str(e.key) for e in walk_bytes(name, text.encode("utf-8"))
                    if ckind(e) == K_ENTITY]
            if keys != ["one", "two", "four"]:
                chk.fail(sig, {"fmt": fmt, "ref": ref_t, "old": old_t, "new_data": new_data},
                         {"output": text, "keys": keys,
                          "why": "the indentation of the old file's junk line is a Whitespace "
                                 "entry of its own; with the Junk entry dropped it meets the line "
                                 "break before it and wins the folding by length: '# c' and "
                                 "'two = Zwei' end up on one line, the message is lost"})
        if sig == "android-wrapped-cdata-empty-value-reads-back-whitespace" and text is not None:
            vals = [e.raw_val for e in walk_bytes(name, text.encode("utf-8")) if ckind(e) == K_ENTITY]
            if vals != [""]:
                chk.fail(sig, {"fmt": fmt, "ref": ref_t, "old": old_t, "new_data": new_data},
                         {"output": text, "values": vals,
                          "why": "AndroidEntity.wrap writes the empty value into the CDATA section; "
                                 "minidom drops an empty CDATA section when the output is parsed, "
                                 "the white-space around it is then the string's whole content"})
        if sig == "dtd-apostrophe-value-in-apostrophe-quoted-entity" and text is not None:
            junk = [e.all for e in walk_bytes(name, text.encode("utf-8")) if ckind(e) == K_JUNK]
            if junk:
                chk.fail(sig, {"fmt": fmt, "ref": ref_t, "old": old_t, "new_data": new_data},
                         {"output": text, "junk": junk,
                          "why": "Entity.wrap keeps the reference entity's apostrophes around a "
                                 "value that itself contains an apostrophe; nothing is escaped"})
        if sig == "ftl-unwrap-includes-comment" and text is not None:
            ents = [e for e in walk_bytes(name, text.encode("utf-8")) if ckind(e) == K_ENTITY]
            if [e.unwrap() for e in ents] != [new_data["k"]]:
                chk.fail(sig, {"fmt": fmt, "ref": ref_t, "old": old_t, "new_data": new_data},
                         {"output": text, "entity_written": [e.unwrap() for e in ents],
                          "why": "unwrap() of a commented entry includes the comment, wrap() "
                                 "prepends the reference comment again"})
        if sig == "serialize-ws-fold-joins-lines" and text is not None:
            got = [(e.key, e.raw_val) for e in walk_bytes(name, text.encode("utf-8"))
                   if ckind(e) == K_ENTITY]
            if got != [("a", "la"), ("b", "nb")]:
                chk.fail(sig, {"fmt": fmt, "ref": ref_t, "old": old_t, "new_data": new_data},
                         {"output": text, "entities": got,
                          "why": "prune keeps the longer whitespace '  ' of the old file's end "
                                 "instead of the line break"})
        if sig == "inc-wrap-valueless-define" and text is not None and "BAR" in text:
            chk.fail(sig, {"fmt": fmt, "ref": ref_t, "old": old_t, "new_data": new_data},
                     {"output": text,
                      "why": "the reference entity `#define foo` has val_span (-1,-1) (unmatched "
                             "group): Entity.wrap slices contents[start:-1] + raw + contents[-1:end], "
                             "the rest of the reference file is copied into the localization"})


def run_ftl_unwrap(chk, model):
    """FTL-UNWRAP: new raw values are entity.unwrap() of COMMENTED Fluent entries of a
    localized file (what a tool gets from parsing).  Oracle: the entry written for the key is,
    text for text, the reference comment followed by the message rendered from the record.
    Listed finding `ftl-unwrap-includes-comment`: attributed only when the given raw value
    starts with a comment line (unwrap() included it) and the written entry is exactly
    <reference comment> + <raw value as given> (the comment carried in the value, twice when
    the reference has one); anything else stays a violation."""
    rng = chk.rng
    name = FNAME["ftl"]
    cases, impl, reqs = [], [], []
    for _ in range(chk.n(150, 1500)):
        case = gen_triple(rng, "ftl")
        ref_coms = {it[1]: it[3] for it in case["ref_items"] if it[0] == "ent"}
        keys = [k for k, v in case["new_data"].items() if v is not None and k in ref_coms]
        if not keys:
            continue
        # the localized file the tool parsed: the new values, commented
        l10n_items = [("ent", k, case["new_recs"][k],
                       ref_coms[k] if rng.random() < 0.6 else rng.choice(["l10n note", None]))
                      for k in keys]
        l10n = {e.key: e for e in walk_bytes(name, render("ftl", l10n_items).encode("utf-8"))
                if ckind(e) == K_ENTITY}
        case["new_data"] = dict(case["new_data"], **{k: l10n[k].unwrap() for k in keys})
        ref = walk_bytes(name, case["ref"].encode("utf-8"))
        old = walk_bytes(name, case["old"].encode("utf-8"))
        res, text = serialize_impl(name, ref, old, case["new_data"])
        chk.count(("ftlu", case["ref"], case["old"], sorted(case["new_data"].items(), key=str)))
        desc = describe(case)
        cases.append(desc)
        impl.append(res)
        reqs.append(model_request(name, ref, old, case["new_data"]))
        if text is None:
            chk.fail("serialize-raises", desc, res)
            continue
        oracle_serialize(chk, case, ref, text)
        out = {e.key: e for e in walk_bytes(name, text.encode("utf-8")) if ckind(e) == K_ENTITY}
        for k in keys:
            raw = case["new_data"][k]
            got = out[k].all if k in out else None
            rc = ref_coms[k]
            head = render_comment("ftl", rc) + "\n" if rc is not None else ""
            if got == head + render_entity("ftl", k, case["new_recs"][k]):
                continue
            doubled = raw.startswith("#") and got == head + raw
            chk.fail("ftl-unwrap-includes-comment" if doubled else "serialize-values", desc,
                     {"output": text, "key": k, "raw_value_given": raw, "entity_written": got})
            break
    if model:
        chk.correspond("FTL-UNWRAP", cases, impl, model.call(reqs))


def run_ws_fold(chk, model):
    """WS-FOLD: the old localization has no final newline and ends in blanks / tabs
    (.properties, .dtd).  Ordinary oracle.  Listed finding `serialize-ws-fold-joins-lines`:
    a failure is attributed to it only when, recomputed from the input, the old text ends in
    a run of blanks/tabs without newline AND the output equals the output for the
    newline-terminated old file with exactly one run of newlines replaced by that blank run
    (the line break lost against the longer whitespace); anything else stays a violation."""
    import re
    rng = chk.rng
    cases, impl, reqs = [], [], []
    for _ in range(chk.n(200, 2000)):
        fmt = rng.choice(["properties", "properties", "dtd"])   # (.ini: trailing blanks are value)
        case = gen_triple(rng, fmt)
        last = [it for it in case["old_items"] if it[0] != "blank"][-1:]
        if not case["old"].strip() or not last or last[0][0] != "ent":
            # only files whose last line is an entity: after a comment the blanks would be
            # comment text, a different family (reported, not part of this stream)
            continue
        tail = "".join(rng.choice(" \t") for _ in range(rng.randint(1, 4)))
        clean_old = case["old"]
        case["old"] = case["old"].rstrip("\n") + tail
        name = FNAME[fmt]
        ref = walk_bytes(name, case["ref"].encode("utf-8"))
        old = walk_bytes(name, case["old"].encode("utf-8"))
        res, text = serialize_impl(name, ref, old, case["new_data"])
        chk.count(("wsf", fmt, case["ref"], case["old"], sorted(case["new_data"].items(), key=str)))
        desc = describe(case)
        cases.append(desc)
        impl.append(res)
        reqs.append(model_request(name, ref, old, case["new_data"]))
        if text is None:
            chk.fail("serialize-raises", desc, res)
            continue
        sub = common.Check(chk.prop, chk.tier, chk.seed)
        sub.known = []
        oracle_serialize(sub, case, ref, text)
        joined = False
        if sub.failures and not case["old"].endswith("\n"):
            # the same triple with the newline-terminated old file: the output with the blank
            # run of the old file's end is that output with ONE run of newlines replaced by it
            _, clean = serialize_impl(name, ref, walk_bytes(name, clean_old.encode("utf-8")),
                                      case["new_data"])
            if clean is not None:
                joined = any(clean[:m.start()] + tail + clean[m.end():] == text
                             for m in re.finditer(r"\n+", clean))
        for f in sub.failures:
            generic = f["signature"] in ("serialize-reparse-junk", "serialize-entities",
                                         "serialize-values", "serialize-idempotent",
                                         "serialize-wrapped-text")
            chk.fail("serialize-ws-fold-joins-lines" if joined and generic else f["signature"],
                     f["case"], dict(f["detail"], old_tail=tail) if isinstance(f["detail"], dict)
                     else f["detail"])
    if model:
        chk.correspond("WS-FOLD", cases, impl, model.call(reqs))


INI_LINE_START = "serialize-ws-fold-ini-comment-leaves-line-start"
FTL_JUNK_INDENT = "serialize-ws-fold-after-junk-joins-lines"


def run_ftl_junk_indent(chk, model):
    """FTL-JUNK-INDENT: Fluent triples whose old localization has one INDENTED junk line
    (after a standalone comment).
    FluentParser yields the indentation as a Whitespace entry of its own (after the
    Whitespace entry of the line break before it); serialize drops the Junk entry, the two
    whitespace entries become adjacent and prune keeps the LONGER one: with three blanks
    against one line break the line break is lost and the next entry is glued onto the
    previous line (a comment line swallows a message).  Ordinary oracle.  Listed finding
    `serialize-ws-fold-after-junk-joins-lines`: a generic failure is attributed to it only
    when the output equals the output for the same triple with the junk line NOT indented
    with exactly one run of newlines replaced by the indentation; anything else stays a
    violation."""
    import re
    rng = chk.rng
    cases, impl, reqs = [], [], []
    name = FNAME["ftl"]
    for _ in range(chk.n(300, 3000)):
        case = gen_triple(rng, "ftl")
        line = JUNK_LINE["ftl"]
        if not case["old"]:
            continue
        # the junk line directly after a standalone comment of the old file (after a message an
        # indented line would be a continuation line of its value, not junk)
        items = [it for it in case["old_items"] if it[0] != "junk"]
        pos = rng.randint(c15.insert_floor("ftl", items), len(items))
        indent = rng.choice(["   ", "  ", " ", "    ", "\t\t", "     "])
        com = ("com", rng.choice(c15.COMMENTS))
        case["old_items"] = items[:pos] + [com, ("junk", indent + line)] + items[pos:]
        case["junk"] = 1
        case["old"] = render("ftl", case["old_items"])
        clean_old = render("ftl", items[:pos] + [com, ("junk", line)] + items[pos:])
        ref = walk_bytes(name, case["ref"].encode("utf-8"))
        old = walk_bytes(name, case["old"].encode("utf-8"))
        res, text = serialize_impl(name, ref, old, case["new_data"])
        chk.count(("fji", case["ref"], case["old"], sorted(case["new_data"].items(), key=str)))
        desc = describe(case)
        cases.append(desc)
        impl.append(res)
        reqs.append(model_request(name, ref, old, case["new_data"]))
        if text is None:
            chk.fail("serialize-raises", desc, res)
            continue
        sub = common.Check(chk.prop, chk.tier, chk.seed)
        sub.known = []
        oracle_serialize(sub, case, ref, text)
        joined = False
        if sub.failures:
            _, clean = serialize_impl(name, ref, walk_bytes(name, clean_old.encode("utf-8")),
                                      case["new_data"])
            if clean is not None:
                joined = any(clean[:m.start()] + indent + clean[m.end():] == text
                             for m in re.finditer(r"\n+", clean))
        for f in sub.failures:
            generic = f["signature"] in ("serialize-reparse-junk", "serialize-entities",
                                         "serialize-values", "serialize-idempotent",
                                         "serialize-wrapped-text", "serialize-leak")
            chk.fail(FTL_JUNK_INDENT if joined and generic else f["signature"],
                     f["case"], dict(f["detail"], junk_indent=indent)
                     if isinstance(f["detail"], dict) else f["detail"])
    if model:
        chk.correspond("FTL-JUNK-INDENT", cases, impl, model.call(reqs))


def ini_line_start_repair(name, entries):
    """the text with the blanks in front of every junk entry that starts with a comment
    character taken away (and those in front of further comment lines inside the junk
    text); None when a junk entry is of another kind"""
    import re
    pieces, prev = [], None
    for e in entries:
        if ckind(e) == K_JUNK:
            if prev is None or ckind(prev) != c15.K_WHITE or e.all[:1] not in (";", "#"):
                return None
            w = pieces[-1]
            stripped = w.rstrip(" \t")
            if stripped == w or not stripped.endswith("\n"):
                return None
            pieces[-1] = stripped
            pieces.append(re.sub(r"(?m)^[ \t]+(?=[;#])", "", e.all))
        else:
            pieces.append(e.all)
        prev = e
    return "".join(pieces)


def run_ini_indent(chk, model):
    """INI-INDENT: .ini triples (old file junk-free) whose entities without attached comment
    are indented at random, in the reference and in the old file independently.  Ordinary
    oracle.  Listed finding `serialize-ws-fold-ini-comment-leaves-line-start` (the C15 finding
    merge-ws-fold-ini-comment-leaves-line-start seen through serialize = merge of reference
    and old file): a `serialize-reparse-junk` failure is attributed to it only when every
    junk entry starts with a comment character directly after a whitespace entry that ends in
    blanks after a line break, and the output with those blanks taken away passes the oracle
    (entities, values, no leak); a `serialize-idempotent` failure only when the second output
    has junk of exactly that kind and, repaired, the first output's entities; anything else
    stays a violation."""
    rng = chk.rng
    cases, impl, reqs = [], [], []
    name = FNAME["ini"]
    for _ in range(chk.n(400, 4000)):
        case = gen_triple(rng, "ini")
        if case["junk"]:
            continue
        for side, items in (("ref", case["ref_items"]), ("old", case["old_items"])):
            if case[side]:
                indents = {it[1]: rng.choice(["  ", "\t", "    ", " "]) for it in items
                           if it[0] == "ent" and rng.random() < 0.35}
                case[side] = render("ini", items, 0, indents)
        ref = walk_bytes(name, case["ref"].encode("utf-8"))
        old = walk_bytes(name, case["old"].encode("utf-8"))
        res, text = serialize_impl(name, ref, old, case["new_data"])
        chk.count(("ini", case["ref"], case["old"], sorted(case["new_data"].items(), key=str)))
        desc = describe(case)
        cases.append(desc)
        impl.append(res)
        reqs.append(model_request(name, ref, old, case["new_data"]))
        if text is None:
            chk.fail("serialize-raises", desc, res)
            continue
        sub = common.Check(chk.prop, chk.tier, chk.seed)
        sub.known = []
        oracle_serialize(sub, case, ref, text)
        for f in sub.failures:
            sig = f["signature"]
            if sig == "serialize-reparse-junk":
                repaired = ini_line_start_repair(name, walk_bytes(name, text.encode("utf-8")))
                if repaired is not None:
                    sub2 = common.Check(chk.prop, chk.tier, chk.seed)
                    sub2.known = []
                    oracle_serialize(sub2, case, ref, repaired)
                    # (the oracle's last step serializes once more and meets the defect again)
                    if all(g["signature"] == "serialize-idempotent" for g in sub2.failures):
                        sig = INI_LINE_START
            elif sig == "serialize-idempotent" and isinstance(f["detail"], dict) \
                    and isinstance(f["detail"].get("second"), str):
                # the first output is fine, serializing it again shows the defect
                again = walk_bytes(name, f["detail"]["second"].encode("utf-8"))
                repaired = ini_line_start_repair(name, again) \
                    if any(ckind(e) == K_JUNK for e in again) else None
                if repaired is not None:
                    e2 = walk_bytes(name, repaired.encode("utf-8"))
                    first = walk_bytes(name, text.encode("utf-8"))
                    if not any(ckind(e) == K_JUNK for e in e2) and \
                            entity_list("ini", e2) == entity_list("ini", first):
                        sig = INI_LINE_START
            chk.fail(sig, f["case"], f["detail"])
    if model:
        chk.correspond("INI-INDENT", cases, impl, model.call(reqs))


def run(chk, runner_ok):
    rng = chk.rng
    model = Model("C16") if runner_ok else None
    run_witnesses(chk)
    # ---- SERIALIZE ------------------------------------------------------------------
    n = chk.n(2000, 30000)
    cases, impl, reqs, ereqs = [], [], [], []
    for i in range(n):
        case = gen_triple(rng, FORMATS16[i % len(FORMATS16)] if i < 700 else None)
        fmt = case["fmt"]
        name = FNAME[fmt]
        ref = walk_bytes(name, case["ref"].encode("utf-8"))
        old = walk_bytes(name, case["old"].encode("utf-8"))
        res, text = serialize_impl(name, ref, old, case["new_data"], po=fmt == "po")
        chk.count(("ser", fmt, case["ref"], case["old"], sorted(case["new_data"].items(), key=str)))
        chk.hist("format", fmt)
        chk.hist("new_data_size", len(case["new_data"]))
        chk.hist("old_junk", case["junk"])
        if text is None:
            chk.fail("serialize-raises", describe(case), res)
        else:
            oracle_serialize(chk, case, ref, text)
        cases.append(describe(case))
        impl.append(res)
        reqs.append(model_request(name, ref, old, case["new_data"]))
        if i < 3:
            chk.sample(dict(describe(case), suite="SERIALIZE", output=text))
    if model:
        chk.correspond("SERIALIZE", cases, impl, model.call(reqs))
    # ---- SERIALIZE-wild: mutated texts, shared objects; bytes only -------------
    n = chk.n(800, 8000)
    cases, impl, reqs = [], [], []
    for i in range(n):
        case = gen_triple(rng)
        fmt = case["fmt"]
        name = FNAME[fmt]
        rt = mutate(rng, case["ref"], fmt) if rng.random() < 0.6 else case["ref"]
        ot = mutate(rng, case["old"], fmt) if rng.random() < 0.8 else case["old"]
        ref = walk_bytes(name, rt.encode("utf-8"))
        r = rng.random()
        if r < 0.1:
            old = ref                      # the same objects as reference and old localization
        elif r < 0.15:
            old = ref[: len(ref) // 2] + walk_bytes(name, ot.encode("utf-8"))
        else:
            old = walk_bytes(name, ot.encode("utf-8"))
        nd = dict(case["new_data"])
        res, text = serialize_impl(name if rng.random() < 0.97 else "foo.txt", ref, old, nd,
                                   po=fmt == "po")
        used_name = name if res != [1, 11] else "foo.txt"
        chk.count(("serw", fmt, rt, ot, sorted(nd.items(), key=str), r < 0.15))
        cases.append({"fmt": fmt, "ref": rt, "old": ot, "new_data": nd, "shared": r < 0.15})
        impl.append(res)
        reqs.append(model_request(used_name, ref, old, nd))
    if model:
        chk.correspond("SERIALIZE-wild", cases, impl, model.call(reqs))
    # ---- streams of the two listed findings (and only these families) ---------------
    run_ftl_unwrap(chk, model)
    run_ws_fold(chk, model)
    run_ini_indent(chk, model)
    run_ftl_junk_indent(chk, model)
    # ---- SEQUENCE: supported and unsupported names interleaved in this one process ------
    # (which names have a parser is known from how c15.seq_sequences builds them)
    cases, impl, reqs = [], [], []
    for seq in c15.seq_sequences(rng, chk.n(100, 1000)):
        history = []
        for sname, fmt, sup in seq:
            case = gen_triple(rng, fmt)
            ref = walk_bytes(FNAME[fmt], case["ref"].encode("utf-8"))
            old = walk_bytes(FNAME[fmt], case["old"].encode("utf-8"))
            res, text = serialize_impl(sname, ref, old, case["new_data"], po=fmt == "po")
            chk.count(("seq", tuple(history), sname, case["ref"], case["old"]))
            desc = dict(describe(case), sequence_before=list(history), name=sname)
            if not sup and res != [1, 11]:
                chk.fail("serialize-unsupported-not-refused", desc,
                         {"result": res[:1], "output": text,
                          "why": "the name has no parser (known from how the name was built); "
                                 "serialize must raise SerializationNotSupportedError whatever "
                                 "was serialized before in this process"})
            if sup and text is None:
                chk.fail("serialize-supported-refused", desc, {"result": res})
            if sup and text is not None:
                oracle_serialize(chk, case, ref, text)
            history.append(sname)
            cases.append(desc)
            impl.append(res)
            reqs.append(model_request(sname, ref, old, case["new_data"]))
    if model:
        chk.correspond("SEQUENCE", cases, impl, model.call(reqs))
    # ---- WRAP / SLICE -------------------------------------------------------------------
    wcases, wimpl, wreqs = [], [], []
    for i in range(chk.n(400, 4000)):
        fmt = rng.choice(["properties", "dtd", "ini", "inc", "ftl", "po", "android"])
        items = normalise(fmt, gen_items(fmt, rng, rng.randint(1, 6), lang="EN_"))
        if fmt == "android" and rng.random() < 0.6:
            items = [("ent", it[1], rng.choice(["", None]), it[3]) if it[0] == "ent"
                     and rng.random() < 0.5 else it for it in items]
        if fmt in SPECIAL_FORMATS and rng.random() < 0.5:
            items = [special_value(fmt, rng, it) if it[0] == "ent" and rng.random() < 0.5 else it
                     for it in items]
        if fmt == "inc" and rng.random() < 0.5:
            items = [it if it[0] != "ent" or rng.random() < 0.6 else ("ent", it[1], None, it[3])
                     for it in items]
        style = rng.randint(0, 2)
        text = render(fmt, items, style)
        mutated = rng.random() < 0.4
        if mutated:
            text = mutate(rng, text, fmt)
        recs = {it[1]: it for it in items if it[0] == "ent"}
        for e in walk_bytes(FNAME[fmt], text.encode("utf-8")):
            if ckind(e) != K_ENTITY:
                continue
            raw = rng.choice(["", "N new", "x\ny", "Ünï", key_str(e.key), ">"])
            if fmt == "android":
                raw = rng.choice(["", "N new", "Ünï", key_str(e.key)])
            if fmt == "po":
                raw = 'msgstr "%s"' % raw.replace("\n", " ")
            w = None
            try:
                w = e.wrap(raw)
                wimpl.append([0, [s2l(key_str(w.key)), s2l(w.raw_val), s2l(w.all)]])
            except Exception as ex:  # noqa
                from harness.common import TAGS
                wimpl.append([1, TAGS.get(type(ex).__name__, 99)])
            case = {"fmt": fmt, "text": text, "key": key_str(e.key), "raw": raw}
            wcases.append(case)
            wreqs.append((1, [s2l(text), wrapinfo(e, [raw]), s2l(key_str(e.key)), s2l(raw)]))
            chk.count(("wrap", fmt, text, key_str(e.key), raw))
            # oracle: the wrapped text is the record rendered with the new value (the value's
            # place is known from the record); valueless .inc defines are the known finding
            it = recs.get(key_str(e.key))
            if not mutated and fmt != "ftl" and it is not None:
                if it[2] is None and fmt == "inc":
                    continue
                ind = "  " if fmt == "android" else ""
                want = (render_comment(fmt, it[3]) + "\n" + ind if it[3] is not None else "") + \
                    render_entity(fmt, it[1], raw, style)
                if w is None or w.all != want or w.raw_val != raw or key_str(w.key) != it[1]:
                    chk.fail("wrap-text", case,
                             {"got": None if w is None else w.all, "expected": want,
                              "reference_value": it[2]})
    scases, simpl, sreqs = [], [], []
    for s in ["", "a", "abc", "abcde"]:
        for a in range(-7, 8):
            for b in range(-7, 8):
                scases.append((s, a, b))
                simpl.append(s2l(s[a:b]))
                sreqs.append((2, [s2l(s), a, b]))
                chk.count(("slice", s, a, b))
    if model:
        chk.correspond("WRAP", wcases, wimpl, model.call(wreqs))
        chk.correspond("SLICE", scases, simpl, model.call(sreqs))
    chk.trusted.append("parsing is an input of the serializer model (tied by C01/C02): the model is "
                       "fed the implementation's own walk() of the reference and the old file")
    chk.trusted.append("library oracles: fluent.syntax serialize_comment (FluentEntity.wrap) and "
                       "minidom cloneNode/toxml (AndroidEntity.wrap) are supplied to the model per case")


def replay(chk, path):
    """re-run the recorded cases: oracle failures through the oracle, disagreements
    through implementation and model; 1 if anything still fails"""
    from harness import common
    data = json.load(open(path))
    rc = 0
    sub = common.Check(chk.prop, chk.tier, chk.seed)
    sub.known = []
    for f in data.get("failures", []):
        c = f["case"]
        before = len(sub.failures)
        name = FNAME[c["fmt"]]
        if f["signature"] == "wrap-text":
            e = [x for x in walk_bytes(name, c["text"].encode("utf-8"))
                 if ckind(x) == K_ENTITY and key_str(x.key) == c["key"]][0]
            got = e.wrap(c["raw"]).all
            if got != f["detail"]["expected"]:
                sub.fail("wrap-text", c, {"got": got, "expected": f["detail"]["expected"]})
        elif c.get("records"):
            case = dict(c["records"], fmt=c["fmt"], ref=c["ref"], old=c["old"], new_data=c["new_data"])
            ref = walk_bytes(name, c["ref"].encode("utf-8"))
            old = walk_bytes(name, c["old"].encode("utf-8"))
            for nm in c.get("sequence_before", []):
                serialize_impl(nm, ref, old, c["new_data"], po=c["fmt"] == "po")
            res, text = serialize_impl(c.get("name", name), ref, old, c["new_data"],
                                       po=c["fmt"] == "po")
            if f["signature"] == "serialize-unsupported-not-refused":
                if res != [1, 11]:
                    sub.fail(f["signature"], c, res[:1])
            elif text is None:
                sub.fail("serialize-raises", c, res)
            else:
                oracle_serialize(sub, case, ref, text)
        else:
            run_witnesses(sub, only=(c["ref"], c["old"]))
        still = sub.failures[before:]
        print("recorded", f["signature"], "->", "still fails: " + still[0]["signature"] if still else "passes now")
        for x in still[:1]:
            print(json.dumps(x, indent=1, default=str)[:3000])
        rc |= bool(still)
    dis = data.get("disagreements", [])
    if dis:
        model = Model("C16")
        for d in dis:
            c = d["case"]
            if isinstance(c, dict) and "ref" in c and not c.get("shared"):
                name = FNAME[c["fmt"]]
                ref = walk_bytes(name, c["ref"].encode("utf-8"))
                old = walk_bytes(name, c["old"].encode("utf-8"))
                res, _ = serialize_impl(name, ref, old, c["new_data"], po=c["fmt"] == "po")
                out = model.call([model_request(name, ref, old, c["new_data"])])[0]
                print("suite", d["suite"], "case", c, "impl", res[:1], "model", out[:1],
                      "agree" if res == out else "DISAGREE")
                rc |= res != out
            else:
                print("disagreement", d)
                rc = 1
    for o in data.get("broken_obligations", []):
        if o["kind"] in ("theorem", "build", "translator", "hygiene"):
            print("broken obligation:", o["name"], o["detail"][-500:])
            rc = 1
    return int(rc)
