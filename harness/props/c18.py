"""C18 — results do not depend on what was processed before.

Suites
  WITNESS          the minimal sequences of the three history dependences found (Junk.junkid leaking
                   through a key collision, second walk of a .inc context, stale FilterCache).
  CORPUS-*         minimised past model/implementation disagreements (corpus/C18/*.json), run first.
  HISTORY[-roundN] per round: a pool of ~160 operations (parse / re-walk / compare / merge-compare /
                   lint / merge_channels / serialize / filter, mozpath and Matcher queries / editing
                   a configuration) over seeded files of all seven formats; every operation of the
                   pool is run ALONE in a fresh interpreter (one subprocess per operation); then
                   random sequences of 2-6 operations (one in fifteen a chain of 30), every
                   operation once after a state-heavy prefix, and ALL ordered pairs inside each
                   family sharing a cache or a parser singleton.  Every sequence runs in a child
                   forked from a pristine parent (state = a fresh import).  Per operation:
                     oracle   result in the history == result in the fresh interpreter (the numeric
                              id inside the keys of Junk entries canonicalised, everything else plain)
                     model    output (entry objects with their ACTUAL junk ids, read through their
                              own context) and the whole observable process state after the
                              operation (Junk.junkid, XMLJunk.junkid, every parser singleton's ctx
                              contents and filter flag, DTDChecker.texthandler.textcontent,
                              ProjectConfig._cache locale, mozpath.re_cache keys, Matcher._cached_re)
                              == the extracted state machine of coq/Model/History.v fed with the
                              fresh results; where a junk key collides with an entity key the model
                              says so instead of predicting, and that verdict must agree with the
                              harness's own computation
                   and, at the end of a sequence, every entry object obtained earlier is read again
                   (key, raw_val, all, positions, value, word count) and must be unchanged.
  UNION[-after-history-N]
                   compareProjects over a generated tree, for several permutations of which
                   content goes under which file name (= processing order) and for every
                   single-file project, fresh and after a random history: details per content and
                   summaries must be the union / sum; the observer model fed with the single-file
                   contributions must give the multi-file report.
  JUNK-KEY         the model's rendering of "_junk_%d_%d-%d".

Usage as a subprocess: `python -m harness.props.c18 --baseline` reads one job (JSON) on stdin,
runs it in this fresh interpreter and prints the result (JSON).
"""
import contextlib
import hashlib
import io
import json
import os
import shutil
import signal
import subprocess
import sys
import tempfile
import time

from harness import common
from harness.common import Model

FACTS = ("c18",)

RULE = ("pool of ~100 operations over seeded structured files of the seven formats (records over a "
        "shared key universe, injected junk, .inc filter instructions, DTD parsed entities and "
        "android-dtd quoting, Fluent terms/attributes, PO contexts, broken and valid strings.xml) "
        "and over flat project configurations / mozpath patterns / Matcher objects; histories are "
        "seeded random sequences of 2-6 pool operations (one in fifteen is a chain of 30); a case is one "
        "(history prefix, operation) pair, distinct by the pair; all are non-trivial (prefix non-empty)")

FMT = ["android", "dtd", "properties", "ini", "inc", "ftl", "po", "none"]   # 7: no parser for the name
NOPARSER = 7
FILE = ["strings.xml", "f.dtd", "f.properties", "f.ini", "f.inc", "f.ftl", "f.po", "f.txt"]
PARSER_CLASS = ["AndroidParser", "DTDParser", "PropertiesParser", "IniParser", "DefinesParser",
                "FluentParser", "PoParser"]
KEYS = ["alpha", "beta", "gamma", "delta", "accesskey", "eps"]


# ===================================================================== texts ===
def gen_values(rng):
    pool = ["one", "two words", "three more words", "%s items", "%1$S and %2$S", "x & y",
            "width: 20em", "café", "a � b", "It's", 'say "hi"', "&brandShortName; rocks",
            "12", "line\\nbreak", "<b>bold</b> text"]
    return rng.choice(pool)


def gen_records(rng, n=None):
    n = n if n is not None else rng.randint(1, 5)
    keys = rng.sample(KEYS, min(n, len(KEYS)))
    return [(k, gen_values(rng)) for k in keys]


def derive(rng, recs):
    """a localization of recs: drop / change / add"""
    out = []
    for k, v in recs:
        r = rng.random()
        if r < 0.2:
            continue
        out.append((k, v if r < 0.5 else gen_values(rng)))
    if rng.random() < 0.5:
        extra = [k for k in KEYS if k not in dict(recs)]
        if extra:
            out.append((rng.choice(extra), gen_values(rng)))
    return out


def xml_escape(s):
    return s.replace("&", "&amp;").replace("<", "&lt;").replace(">", "&gt;")


def render(fmt, recs, rng, junk=0.3, flavour=0):
    """text of a file of the format from records, with junk / comments / format quirks"""
    j = lambda: rng.random() < junk  # noqa
    if fmt == "properties":
        lines = []
        if rng.random() < 0.3:
            lines.append("# This Source Code Form is subject to the License\n\n")
        for k, v in recs:
            if j():
                lines.append("this line is junk\n")
            if rng.random() < 0.3:
                lines.append("# comment for %s\n" % k)
            lines.append("%s = %s\n" % (k, v.replace("\\n", "\\n")))
        if j():
            lines.append("trailing junk")
        return "".join(lines)
    if fmt == "dtd":
        lines = []
        if flavour == 1:
            lines.append("﻿")
        if rng.random() < 0.4:
            lines.append('<!ENTITY % brandDTD SYSTEM "chrome://branding/locale/brand.dtd">\n%brandDTD;\n')
        for k, v in recs:
            if j():
                lines.append("<!ENTITY bad-%s>\n" % k)
            if rng.random() < 0.3:
                lines.append("<!-- comment for %s -->\n" % k)
            v = v.replace('"', "'").replace("%", "&#37;").replace("<b>", "").replace("</b>", "")
            v = v.replace(" & ", " &amp; ")
            lines.append('<!ENTITY %s "%s">\n' % (k, v))
        if j():
            lines.append("stray text\n")
        return "".join(lines)
    if fmt == "ini":
        lines = []
        if j():
            lines.append("junk before section\n")
        lines.append("[Strings]\n")
        for k, v in recs:
            if rng.random() < 0.3:
                lines.append("; comment %s\n" % k)
            if j():
                lines.append("no equals sign here\n")
            lines.append("%s=%s\n" % (k, v))
        return "".join(lines)
    if fmt == "inc":
        lines = []
        filt = flavour == 1
        if filt and rng.random() < 0.5:
            lines.append("#define first 1\n\n")     # blank line BEFORE the filter instruction
        if filt:
            lines.append("#filter emptyLines\n")
        for k, v in recs:
            if rng.random() < 0.3:
                lines.append("# comment %s\n" % k)
            if j():
                lines.append("stray junk\n")
            lines.append("#define %s %s\n" % (k, v))
            if rng.random() < 0.4:
                lines.append("\n")                  # blank line: junk unless filtered
        if filt and rng.random() < 0.7:
            lines.append("#unfilter emptyLines\n")
        return "".join(lines)
    if fmt == "ftl":
        lines = []
        for k, v in recs:
            if rng.random() < 0.3:
                lines.append("# comment %s\n" % k)
            if j():
                lines.append("junk line without equals\n")
            v = v.replace("{", "").replace("}", "").replace("\\n", " ")
            if rng.random() < 0.25:
                lines.append("-%s = %s\n" % (k, v))
            else:
                lines.append("%s = %s\n" % (k, v))
                if rng.random() < 0.3:
                    lines.append("    .title = %s tip\n" % k)
            if rng.random() < 0.3:
                lines.append("\n")
        return "".join(lines)
    if fmt == "po":
        lines = []
        for k, v in recs:
            if rng.random() < 0.3:
                lines.append("# comment %s\n" % k)
            if j():
                lines.append("msgid\n")
            if rng.random() < 0.3:
                lines.append('msgctxt "ctx %s"\n' % k)
            v = v.replace("\\", "\\\\").replace('"', '\\"')
            lines.append('msgid "%s"\nmsgstr "%s"\n\n' % (k, v))
        if j():
            lines.append("x\n")
        return "".join(lines)
    if fmt == "android":
        if flavour == 2:
            return "<resources><string name='a'>unclosed</resources>"
        lines = ['<?xml version="1.0" encoding="utf-8"?>\n<resources>\n']
        for k, v in recs:
            if rng.random() < 0.3:
                lines.append("  <!-- comment %s -->\n" % k)
            if j():
                lines.append("  <plurals name=\"p%s\"/>\n" % k)
            lines.append('  <string name="%s">%s</string>\n' % (k, xml_escape(v).replace("'", "\\'")))
        lines.append("</resources>\n")
        return "".join(lines)
    raise ValueError(fmt)


# ====================================================================== pool ===
CONFIGS = [
    # flat configurations: locales, paths, rules; extra = edits applied by Reconfig, in order
    {"locales": ["de", "fr"],
     "paths": [{"l10n": "/l/{locale}/**"}],
     "rules": [{"path": "/l/{locale}/sub/*.properties", "action": "ignore"},
               {"path": "/l/{locale}/a.ftl", "key": "alpha", "action": "warning"}],
     "extra": [("rules", {"path": "/l/{locale}/a.ftl", "action": "ignore"}),
               ("paths", {"l10n": "/other/{locale}/**"}),
               ("rules", {"path": "/other/{locale}/x.dtd", "action": "warning"})]},
    {"locales": ["de", "he", "ja"],
     "paths": [{"l10n": "/m/{android_locale}/strings.xml"},
               {"l10n": "/m/{locale}/*.dtd", "locales": ["de", "ja"]}],
     "rules": [{"path": "/m/{locale}/k.dtd", "key": "re:^acc.*", "action": "ignore"}],
     "extra": [("rules", {"path": "/m/{locale}/k.dtd", "action": "ignore"}),
               ("paths", {"l10n": "/m/{locale}/**"})]},
    {"locales": ["fr"],
     "paths": [{"l10n": "/n/{locale}/*/f.*"}],
     "rules": [],
     "extra": [("rules", {"path": "/n/{locale}/x/f.ini", "action": "warning"})]},
]
FILTER_QUERIES = [
    (0, "de", "/l/de/sub/x.properties", None), (0, "fr", "/l/fr/sub/x.properties", None),
    (0, "de", "/l/de/a.ftl", "alpha"), (0, "fr", "/l/fr/a.ftl", "beta"),
    (0, "de", "/l/de/a.ftl", None), (0, "de", "/other/de/x.dtd", None),
    (1, "he", "/m/values-iw/strings.xml", None), (1, "de", "/m/de/k.dtd", "accesskey"),
    (1, "ja", "/m/ja/k.dtd", "alpha"), (1, "de", "/m/de/k.dtd", None), (1, "ja", "/m/ja/q/r.ini", None),
    (2, "fr", "/n/fr/x/f.ini", None), (2, "fr", "/n/fr/x/y/f.ini", None),
]
MOZ_QUERIES = [
    ("foo/bar/baz.ftl", "foo/**/*.ftl"), ("foo/baz.ftl", "foo/**/*.ftl"), ("foo/bar", "foo/*/bar"),
    ("foo/bar", "foo"), ("a.b", "a.b"), ("axb", "a.b"), ("x/y", ""), ("browser/a", "**/a"),
    ("l/de/x.properties", "l/*/x.properties"),
    # near-identical patterns: a cache keyed by anything coarser than the pattern confuses them
    ("foo/bar/baz.ftl", "FOO/**/*.ftl"), ("a.b", "A.B"), ("A.B", "A.B"), ("foo/bar", "foo/*/bar "),
    ("foo/x/bar", "foo/*/bar"), ("foo/x/bar", "foo/**/bar"), ("l/de/x.properties", "l/*/x.properties/"),
]
MATCHERS = [
    {"pattern": "/r/{locale}/**/*.ftl", "env": {}},
    {"pattern": "/r/{android_locale}/strings.xml", "env": {"locale": "he"}},
    {"pattern": "{l}x/*", "env": {"l": "/base/{locale}/"}},
    {"pattern": "/s/en-US/**/*.ftl", "env": {}},
]
MATCHER_QUERIES = [
    (0, "match", "/r/de/a/b/c.ftl"), (0, "match", "/r/de/c.dtd"), (0, "sub3", "/r/fr/x/y.ftl"),
    (1, "match", "/r/values-iw/strings.xml"), (1, "match", "/r/values-de/strings.xml"),
    (2, "match", "/base/pl/x/file"), (2, "match", "/base/x/file"), (3, "match", "/s/en-US/q/z.ftl"),
    (0, "prefix", ""), (3, "sub0", "/s/en-US/q/z.ftl"),
]


# locales of one language whose plural rules may differ (plurals.CATEGORIES_BY_LOCALE has regional
# entries for zh-CN / zh-TW only; every other region falls back to the language)
LOCALE_FAMILIES = {
    "zh": ["zh-CN", "zh-HK", "zh-TW", "zh"],
    "pt": ["pt-BR", "pt-PT", "pt"],
    "en": ["en-GB", "en-ZA"],
    "es": ["es-AR", "es-MX"],
    "sr": ["sr", "sr-Latn"],
}
PLURAL_PROPS_REF = ("# LOCALIZATION NOTE (downloads): Semi-colon list of plural forms.\n"
                    "# See: http://developer.mozilla.org/en/docs/Localization_and_Plurals\n"
                    "# #1 is the number of downloads\n"
                    "downloads=One download;#1 downloads\n")
PLURAL_PROPS_L10N = [PLURAL_PROPS_REF.replace("One download;#1 downloads", v)
                     for v in ("#1 dl;#1 dls", "#1 dl", "#1 a;#1 b;#1 c")]
PLURAL_FTL_REF = "downloads = { $num ->\n    [one] One download\n   *[other] { $num } downloads\n}\n"
PLURAL_FTL_L10N = ("downloads = { $num ->\n    [one] 1 dl\n    [few] some dl\n   *[many] { $num } dls\n}\n")
# names that share an extension (or differ by a suffix) but are dispatched differently
NAME_FAMILIES = {
    "xml": ["strings.xml", "foo.xml", "AndroidManifest.xml", "mystrings-v2.xml"],
    "po": ["f.po", "messages.pot", "f.po.orig"],
    "inc": ["f.inc", "defines.inc", "f.inc.in"],
    "properties": ["f.properties", "a.b.properties", "f.properties.bak"],
    "dtd": ["f.dtd", "f.dtd.in"],
}
XML_OTHER = ('<?xml version="1.0" encoding="utf-8"?>\n<SearchPlugin xmlns="http://www.mozilla.org/2006/browser/search/">\n'
             "<ShortName>%s</ShortName>\n</SearchPlugin>\n")


# contents on which every format's checker has something to report; the operations over them are
# REPEATED (same operation twice, same content under a second name, lint then compare ...): a
# checker that remembers results or spent iterators per content shows as history dependence
FINDINGS = {
    "android": ("strings_two.xml",
                '<?xml version="1.0" encoding="utf-8"?>\n<resources>\n'
                '  <string name="a">It\\\'s %1$s of %2$d</string>\n'
                '  <string name="b">plain</string>\n  <string name="c">It\\\'s</string>\n</resources>\n',
                '<?xml version="1.0" encoding="utf-8"?>\n<resources>\n'
                '  <string name="a">C\'est %2$s de %3$d</string>\n'
                '  <string name="b">l\'autre "x</string>\n  <string name="c">C\'est %2$s de %3$d</string>\n'
                '</resources>\n'),
    "properties": ("g.properties",
                   "a = %S files in %S\nb = %1$S and %2$S\nc = plain\n" + PLURAL_PROPS_REF,
                   "a = %S Dateien\nb = %2$S und %3$d\nc = bad \\q escape\n" + PLURAL_PROPS_L10N[2]),
    "dtd": ("g.dtd",
            '<!ENTITY a "plain &brandShortName; text">\n<!ENTITY w "width: 20em">\n<!ENTITY n "12">\n'
            '<!ENTITY b "some <b>bold</b>">\n',
            '<!ENTITY a "text &unknownEntity; here">\n<!ENTITY w "width: 20">\n<!ENTITY n "twelve">\n'
            '<!ENTITY b "some <b>unclosed">\n'),
    "ftl": ("g.ftl",
            "a = Value { $num }\n    .title = Tip\n-term = T\nb = uses { -term }\n" + PLURAL_FTL_REF,
            "a = Wert { $other }\nb = no term\n    .extra = x\n    .extra = y\n-term = T\n" + PLURAL_FTL_L10N),
}


def build_pool(rng):
    """texts per format and the list of operation specs (plain JSON)"""
    texts = {f: [] for f in range(8)}

    def add_text(f, t):
        if t not in texts[f]:
            texts[f].append(t)
        return texts[f].index(t)

    ops = []
    pairs = {f: [] for f in range(7)}
    for f, fmt in enumerate(FMT[:7]):
        for i in range(3):
            recs = gen_records(rng)
            flav = {0: 0, 1: 1, 2: 0}[i]
            ref = render(fmt, recs, rng, junk=0.15 if i else 0.0, flavour=flav)
            l10n = render(fmt, derive(rng, recs), rng, junk=0.45, flavour=(i + 1) % 2)
            pairs[f].append((add_text(f, ref), add_text(f, l10n)))
        if fmt == "android":
            add_text(f, render(fmt, [], rng, flavour=2))
        if fmt == "inc":
            # the shape that makes a second walk differ: a blank line above "#filter emptyLines"
            add_text(f, "#define A 1\n\n#filter emptyLines\n#define B 2\n\n#define C 3\n")
        if fmt == "dtd":
            add_text(f, '<!ENTITY quote "it\'s \\u0041 &quot;q&quot;">\n<!ENTITY w "width: 2em">\n')
    # entity keys of the form of junk keys: whether the junk of the partner file collides with
    # one of them depends on the value of Junk.junkid when the operation starts
    pf = FMT.index("properties")
    jl = add_text(pf, "".join("_junk_%d_0-5 = v%d\n" % (i, i) for i in range(1, 9)))
    jr = add_text(pf, "junk\n")
    a = 0
    while True:      # the span of the trailing junk, a fixpoint of the length of the lines above it
        body = "".join("_junk_%d_%d-%d = v\n" % (i, a, a + 4) for i in range(1, 10))
        if len(body) == a:
            break
        a = len(body)
    jself = add_text(pf, body + "junk")
    for f in range(7):
        for i in range(len(texts[f])):
            ops.append({"k": "parse", "f": f, "t": i})
        ops.append({"k": "rewalk", "f": f})
    ops.append({"k": "compare", "f": pf, "ref": jl, "l10n": jr, "extra": None, "merge": False})
    ops.append({"k": "compare", "f": pf, "ref": jr, "l10n": jl, "extra": None, "merge": True})
    ops.append({"k": "merge", "f": pf, "rs": [jl, jr]})
    ops.append({"k": "lint", "f": pf, "ref": None, "cur": jself, "extra": None})
    for f in range(7):
        for n, (r, l) in enumerate(pairs[f]):
            if n < 2:
                ops.append({"k": "compare", "f": f, "ref": r, "l10n": l, "extra": None, "merge": False})
            if n == 2 or FMT[f] in ("properties", "ftl", "inc"):
                ops.append({"k": "compare", "f": f, "ref": r, "l10n": l, "extra": None, "merge": True})
        r, l = pairs[f][0]
        ops.append({"k": "lint", "f": f, "ref": l, "cur": r, "extra": None})
        ops.append({"k": "lint", "f": f, "ref": None, "cur": pairs[f][1][1], "extra": None})
        ops.append({"k": "merge", "f": f, "rs": [pairs[f][1][1], pairs[f][1][0], pairs[f][0][0]]})
        ops.append({"k": "serialize", "f": f, "ref": pairs[f][2][0], "old": pairs[f][2][1],
                    "new": {"alpha": "NEW alpha", "beta": None, "nokey": "x"}})
    # DTD with the android-dtd extra tests: the class-level text handler is used
    d = FMT.index("dtd")
    q = texts[d].index('<!ENTITY quote "it\'s \\u0041 &quot;q&quot;">\n<!ENTITY w "width: 2em">\n')
    for r, l in [(q, q), (pairs[d][0][0], q), (q, pairs[d][0][1])] + pairs[d][:2]:
        ops.append({"k": "compare", "f": d, "ref": r, "l10n": l, "extra": ["android-dtd"], "merge": False})
    ops.append({"k": "lint", "f": d, "ref": None, "cur": q, "extra": ["android-dtd"]})
    # same-language locales on plural-bearing files (the checker asks plurals.get_plural(locale))
    pr = add_text(pf, PLURAL_PROPS_REF)
    pl = [add_text(pf, t) for t in PLURAL_PROPS_L10N]
    ff = FMT.index("ftl")
    fr, fl = add_text(ff, PLURAL_FTL_REF), add_text(ff, PLURAL_FTL_L10N)
    for lang, locs in sorted(LOCALE_FAMILIES.items()):
        for loc in locs:
            for l in (pl if lang == "zh" else pl[:1]):
                ops.append({"k": "compare", "f": pf, "ref": pr, "l10n": l, "extra": None, "merge": False,
                            "loc": loc, "fam": "loc:" + lang})
            ops.append({"k": "compare", "f": ff, "ref": fr, "l10n": fl, "extra": None, "merge": False,
                        "loc": loc, "fam": "loc:" + lang})
    ops.append({"k": "lint", "f": pf, "ref": pr, "cur": pl[0], "extra": None})
    ops.append({"k": "lint", "f": ff, "ref": None, "cur": fl, "extra": None})
    # repeated operations over contents with check findings
    for fmt, (alt, ref_t, l10n_t) in sorted(FINDINGS.items()):
        f = FMT.index(fmt)
        a, b = add_text(f, ref_t), add_text(f, l10n_t)
        fam = "rep:" + fmt
        loc = "zh-CN" if fmt in ("properties", "ftl") else "de"
        for name in (None, alt):
            extra = {"name": name} if name else {}
            ops.append(dict({"k": "compare", "f": f, "ref": a, "l10n": b, "extra": None, "merge": False,
                             "loc": loc, "fam": fam}, **extra))
            ops.append(dict({"k": "lint", "f": f, "ref": a, "cur": b, "extra": None, "fam": fam}, **extra))
        ops.append({"k": "compare", "f": f, "ref": b, "l10n": b, "extra": None, "merge": True,
                    "loc": loc, "fam": fam})
        ops.append({"k": "lint", "f": f, "ref": None, "cur": b, "extra": None, "fam": fam})
    # android-dtd: the shared SAX text handler; values that are not well-formed XML after values with
    # an unescaped apostrophe, in one file and across two files
    d = FMT.index("dtd")
    da = add_text(d, '<!ENTITY a "it\'s fine">\n<!ENTITY b "plain">\n')
    db = add_text(d, '<!ENTITY a "broken <b>tag">\n<!ENTITY b "it\'s here">\n<!ENTITY c "an &amp <i>x">\n')
    for name in (None, "g.dtd"):
        extra = {"name": name} if name else {}
        for r_, l_ in ((da, da), (db, db), (da, db), (db, da)):
            ops.append(dict({"k": "compare", "f": d, "ref": r_, "l10n": l_, "extra": ["android-dtd"],
                             "merge": False, "fam": "rep:dtd"}, **extra))
        for c_ in (da, db):
            ops.append(dict({"k": "lint", "f": d, "ref": None, "cur": c_, "extra": ["android-dtd"],
                             "fam": "rep:dtd"}, **extra))
    for x in ({"set": []}, [], {"set": ["android-dtd"]}, None):
        for r_, l_ in ((da, da), (da, db), (db, db)):
            ops.append({"k": "compare", "f": d, "ref": r_, "l10n": l_, "extra": x, "merge": False,
                        "fam": "rep:dtd"})
        ops.append({"k": "lint", "f": d, "ref": None, "cur": da, "extra": x, "fam": "rep:dtd"})
    # the other checkers with the empty set the pipeline passes for ordinary paths
    for fmt, (alt, ref_t, l10n_t) in sorted(FINDINGS.items()):
        f = FMT.index(fmt)
        ops.append({"k": "compare", "f": f, "ref": texts[f].index(ref_t), "l10n": texts[f].index(l10n_t),
                    "extra": {"set": []}, "merge": False, "fam": "rep:" + fmt})
    # zero-byte files and files holding only a newline, read through readFile, in every role, next to
    # non-empty files of the same format; lint with a reference path that does not exist
    for f in range(7):
        e0, e1 = add_text(f, ""), add_text(f, "\n")
        r_, l_ = pairs[f][0]
        fam = "empty:" + FMT[f]
        lead = [{"k": "parse", "f": f, "t": r_, "file": True},
                {"k": "compare", "f": f, "ref": r_, "l10n": l_, "extra": None, "merge": False},
                {"k": "lint", "f": f, "ref": None, "refmissing": True, "cur": l_, "extra": None},
                {"k": "add", "f": f, "ref": r_}]
        rest = [{"k": "parse", "f": f, "t": e0, "file": True},
                {"k": "parse", "f": f, "t": e1, "file": True},
                {"k": "compare", "f": f, "ref": e0, "l10n": l_, "extra": None, "merge": False},
                {"k": "compare", "f": f, "ref": r_, "l10n": e0, "extra": None, "merge": True},
                {"k": "compare", "f": f, "ref": e1, "l10n": l_, "extra": None, "merge": False},
                {"k": "lint", "f": f, "ref": r_, "cur": e0, "extra": None},
                {"k": "lint", "f": f, "ref": e0, "cur": l_, "extra": None},
                {"k": "lint", "f": f, "ref": None, "cur": e0, "extra": None},
                {"k": "lint", "f": f, "ref": None, "refmissing": True, "cur": r_, "extra": None},
                {"k": "add", "f": f, "ref": e0}]
        for o in lead:
            ops.append(dict(o, fam=fam, lead=True))
        for o in rest:
            ops.append(dict(o, fam=fam))
    # the same for the finding-bearing contents: a reference that does not exist, after its partner
    for fmt, (alt, ref_t, l10n_t) in sorted(FINDINGS.items()):
        f = FMT.index(fmt)
        a, b = texts[f].index(ref_t), texts[f].index(l10n_t)
        ops.append({"k": "lint", "f": f, "ref": None, "refmissing": True, "cur": b, "extra": None,
                    "fam": "rep:" + fmt})
        ops.append({"k": "parse", "f": f, "t": a, "file": True, "fam": "rep:" + fmt})
    # names of one extension family: with and without a parser
    for ext, names in sorted(NAME_FAMILIES.items()):
        for name in names:
            f = dispatch(name)
            fam = "ext:" + ext
            if f == NOPARSER:
                a = add_text(f, XML_OTHER % "Example" if ext == "xml" else "k = v\nsome text\n")
                b = add_text(f, XML_OTHER % "Beispiel" if ext == "xml" else "k = w\nother text\n")
            else:
                a, b = pairs[f][0]
            ops.append({"k": "getparser", "name": name, "fam": fam})
            ops.append({"k": "compare", "f": f, "name": name, "ref": a, "l10n": b, "extra": None,
                        "merge": ext in ("xml", "inc"), "fam": fam})
            if ext in ("xml", "po"):
                ops.append({"k": "lint", "f": f, "name": name, "ref": None, "cur": b, "extra": None, "fam": fam})
                ops.append({"k": "merge", "f": f, "name": name, "rs": [b, a], "fam": fam})
                ops.append({"k": "serialize", "f": f, "name": name, "ref": a, "old": b,
                            "new": {"alpha": "NEW", "hello": "x"}, "fam": fam})
            if f != NOPARSER:
                ops.append({"k": "parse", "f": f, "name": name, "t": b, "fam": fam})
    # one ProjectFiles object with an excluded sub-project: iterate / iterate the reference / match
    for pid in (0, 1):
        for what in ("iter", "iterref", "match:l10n/de/ex/c.ftl", "match:l10n/de/a.ftl",
                     "match:en-US/ex/deep/d.ftl", "match:en-US/sub/b.ftl"):
            ops.append({"k": "pfiles", "p": pid, "what": what, "fam": "pfiles%d" % pid})
    for c, loc, path, ent in FILTER_QUERIES:
        ops.append({"k": "filter", "c": c, "loc": loc, "path": path, "ent": ent})
    for c in range(len(CONFIGS)):
        ops.append({"k": "reconfig", "c": c})
    for path, pat in MOZ_QUERIES:
        ops.append({"k": "moz", "path": path, "pat": pat})
    for m, what, path in MATCHER_QUERIES:
        ops.append({"k": "matcher", "m": m, "what": what, "path": path})
    have = {(o["f"], o["t"]) for o in ops if o["k"] == "parse" and "name" not in o and "file" not in o}
    for f in range(7):          # every text also as a plain parse (the walk tables need it)
        for i in range(len(texts[f])):
            if (f, i) not in have:
                ops.append({"k": "parse", "f": f, "t": i})
    for i, o in enumerate(ops):
        o["id"] = i
    return texts, ops


# ============================================================= implementation ===
class Proc:
    """per-process registries (objects that live across operations) and a work directory"""

    def __init__(self):
        self.tmp = tempfile.mkdtemp(prefix="c18_")
        self.configs = {}
        self.cfgver = {}
        self.matchers = {}
        self.n = 0

    def close(self):
        shutil.rmtree(self.tmp, ignore_errors=True)

    def path(self, name):
        self.n += 1
        d = os.path.join(self.tmp, "d%d" % self.n)
        os.makedirs(d, exist_ok=True)
        return os.path.join(d, name)

    def write(self, name, text):
        p = self.path(name)
        with open(p, "w", encoding="utf-8", newline="") as f:
            f.write(text)
        return p

    def config(self, c, version=None):
        from compare_locales.paths import ProjectConfig
        if c not in self.configs:
            spec = CONFIGS[c]
            pc = ProjectConfig(None)
            pc.set_locales(list(spec["locales"]))
            pc.add_paths(*[dict(p) for p in spec["paths"]])
            pc.add_rules(*[dict(r) for r in spec["rules"]])
            self.configs[c] = pc
            self.cfgver[c] = 0
        if version is not None:
            while self.cfgver[c] < version:
                self.reconfig(c)
        return self.configs[c]

    def reconfig(self, c):
        pc = self.config(c)
        extra = CONFIGS[c]["extra"]
        kind, d = extra[self.cfgver[c] % len(extra)]
        d = dict(d)
        if self.cfgver[c] >= len(extra):
            # later rounds: distinct content again
            d = {"path": "/z%d/{locale}/*" % self.cfgver[c], "action": "ignore"}
            kind = "rules"
        if kind == "rules":
            pc.add_rules(d)
        else:
            pc.add_paths(d)
        self.cfgver[c] += 1

    def pfiles(self, pid):
        """ONE ProjectFiles object per process and id (0: locale de, 1: reference/validation mode)
        over a small tree; the main configuration excludes a sub-project (l10n/{locale}/ex/**)"""
        from compare_locales.paths import ProjectConfig, ProjectFiles
        if not hasattr(self, "_pf"):
            self._pf = {}
            root = os.path.join(self.tmp, "proj")
            for rel in ("a.ftl", "sub/b.ftl", "ex/c.ftl", "ex/deep/d.ftl"):
                for base in ("en-US", "l10n/de"):
                    q = os.path.join(root, base, rel)
                    os.makedirs(os.path.dirname(q), exist_ok=True)
                    with open(q, "w") as fh:
                        fh.write("k = v\n")
            self._pfroot = root
        if pid not in self._pf:
            root = self._pfroot
            main = ProjectConfig(root + "/main.toml")
            main.set_locales(["de"])
            main.add_paths({"l10n": root + "/l10n/{locale}/**", "reference": root + "/en-US/**"})
            ex = ProjectConfig(root + "/ex.toml")
            ex.set_locales(["de"])
            ex.add_paths({"l10n": root + "/l10n/{locale}/ex/**", "reference": root + "/en-US/ex/**"})
            main.exclude(ex)
            self._pf[pid] = ProjectFiles("de" if pid == 0 else None, [main])
        return self._pf[pid], self._pfroot

    def stepcfg(self, pre=()):
        """ONE ProjectConfig per process that is built in steps: created with a path entry for
        locale de over a small tree; `grow_child` / `grow_paths` later bring locale ja"""
        from compare_locales.paths import ProjectConfig
        if not hasattr(self, "_step"):
            root = os.path.join(self.tmp, "step")
            for rel in ("en-US/a.ftl", "l10n/de/a.ftl", "l10n/ja/a.ftl", "en-US/k/b.ftl", "l10n/ja/k/b.ftl"):
                q = os.path.join(root, rel)
                os.makedirs(os.path.dirname(q), exist_ok=True)
                with open(q, "w") as fh:
                    fh.write("k = v\n")
            pc = ProjectConfig(root + "/main.toml")
            pc.set_locales(["de"])
            pc.add_paths({"l10n": root + "/l10n/{locale}/*.ftl", "reference": root + "/en-US/*.ftl"})
            self._step = (pc, root, set())
            for g in pre:
                self.stepgrow(g)
        return self._step

    def stepgrow(self, which):
        from compare_locales.paths import ProjectConfig
        pc, root, grown = self.stepcfg()
        if which in grown:
            return
        grown.add(which)
        if which == "child":
            ch = ProjectConfig(root + "/child.toml")
            ch.set_locales(["ja"])
            ch.add_paths({"l10n": root + "/l10n/{locale}/*.ftl", "reference": root + "/en-US/*.ftl"})
            pc.add_child(ch)
        else:
            pc.add_paths({"l10n": root + "/l10n/{locale}/k/*.ftl", "reference": root + "/en-US/k/*.ftl",
                          "locales": ["ja"]})

    def matcher(self, m):
        from compare_locales.paths import Matcher
        if m not in self.matchers:
            spec = MATCHERS[m]
            self.matchers[m] = Matcher(spec["pattern"], env=dict(spec["env"]))
        return self.matchers[m]


def parser_of(f):
    """the singleton of format f, read from the dispatch table (NOT through getParser: observing
    the state must not go through anything that could itself remember something)"""
    from compare_locales import parser
    return parser.__dict__["__constructors"][f][1]


def dispatch(name):
    """the harness's own reading of parser.__constructors: index of the first pattern that matches"""
    from compare_locales import parser
    for i, (pat, _) in enumerate(parser.__dict__["__constructors"]):
        if _re.search(pat, name):
            return i
    return NOPARSER


def extra_of(spec):
    """extra_tests of the checker: None / list / {"set": [...]} for a set (ProjectFiles annotates
    every path with set(paths.get("test", [])): an EMPTY SET for ordinary files)"""
    x = spec.get("extra")
    if isinstance(x, dict):
        return set(x["set"])
    return x


def name_of(spec):
    return spec.get("name") or FILE[spec["f"]]


def is_junk(e):
    from compare_locales.parser import Junk
    return isinstance(e, Junk)


def ent_record(e):
    """[key as the parser made it, [key / raw_val / all as read NOW through the entry's context]]"""
    from compare_locales.parser.base import Entry
    from compare_locales.parser.android import AndroidEntity
    if is_junk(e):
        return [e.key, [e.all]]
    if isinstance(e, AndroidEntity):
        return [e.key, [e.key, e.raw_val, e.all]]
    k = Entry.key.fget(e)
    rv = e.raw_val
    return [k, [k, rv if rv is not None else "", e.all]]


def ent_extra(e):
    """more observations through the context: positions, value, word count"""
    out = []
    for fn in (lambda: list(e.position()), lambda: list(e.position(-1)),
               lambda: e.val if not is_junk(e) else e.error_message(),
               lambda: e.count_words() if not is_junk(e) else 0,
               lambda: repr(e.key) if not is_junk(e) else ""):
        try:
            out.append(fn())
        except Exception as ex:  # noqa
            out.append("raised " + type(ex).__name__)
    return out


def pentry_of(e):
    from compare_locales.parser.android import AndroidEntity, XMLJunk
    if isinstance(e, XMLJunk):
        return [3, e.all]
    if is_junk(e):
        return [2, e.span[0], e.span[1]]
    if isinstance(e, AndroidEntity):
        return [1, e.key, e.raw_val, e.all]
    return [0, e._span_start(), list(e.span), list(e.key_span),
            [list(e.val_span)] if e.val_span is not None else []]


def junk_id(e):
    return int(e.key.split("_")[2])


def canon_tmp(obj, tmp):
    if isinstance(obj, str):
        return _re.sub(r"<TMP>/d\d+/", "<TMP>/", obj.replace(tmp, "<TMP>"))
    if isinstance(obj, dict):
        return {canon_tmp(k, tmp): canon_tmp(v, tmp) for k, v in obj.items()}
    if isinstance(obj, (list, tuple)):
        return [canon_tmp(x, tmp) for x in obj]
    if isinstance(obj, bytes):
        return {"bytes": obj.decode("utf-8", "replace")}
    return obj


def guarded(fn):
    try:
        return fn()
    except Exception as ex:  # noqa
        return {"raised": type(ex).__name__, "msg": str(ex)[:200]}


def exec_op(proc, spec, texts, keep):
    """run one operation; returns (result, live entry objects or None)"""
    k = spec["k"]
    if k == "parse" or k == "walkflag":
        from compare_locales import parser as _parser
        p = _parser.getParser(name_of(spec))
        if spec.get("file"):
            p.readFile(proc.write(name_of(spec), texts[spec["f"]][spec["t"]]))   # zero-byte files included
        else:
            p.readUnicode(texts[spec["f"]][spec["t"]])
        if k == "walkflag":
            try:
                p.ctx.filter_empty_lines = True
            except AttributeError:   # the flag is no longer a plain attribute (never on the unchanged
                pass                 # tree): go on without it, the witness then reports the difference
        es = list(p.parse())
        return {"ents": [ent_record(e) for e in es], "extra": [ent_extra(e) for e in es],
                "pent": [pentry_of(e) for e in es],
                "jid": [junk_id(e) if is_junk(e) else 0 for e in es]}, es
    if k == "rewalk":
        p = parser_of(spec["f"])
        es = list(p.parse())
        return {"ents": [ent_record(e) for e in es], "extra": [ent_extra(e) for e in es],
                "pent": [pentry_of(e) for e in es],
                "jid": [junk_id(e) if is_junk(e) else 0 for e in es]}, es
    f = spec.get("f")
    name = name_of(spec) if f is not None else None
    if k == "stepcfg":
        from compare_locales.paths import File, ProjectFiles
        what = spec["what"]
        pc, root, grown = proc.stepcfg(spec.get("pre", ()))
        if what.startswith("grow_"):
            proc.stepgrow(what[5:])
            return None, None

        def flt(loc, rel):
            return pc.filter(File("%s/l10n/%s/%s" % (root, loc, rel), rel, locale=loc))

        def go():
            if what == "use":
                return [list(pc.all_locales), flt("de", "a.ftl")]
            return [list(pc.all_locales), flt("ja", "a.ftl"), flt("ja", "k/b.ftl"), flt("de", "a.ftl"),
                    [[t[0], t[1]] for t in ProjectFiles("ja", [pc])]]
        return canon_tmp(guarded(go), proc.tmp), None
    if k == "pfiles":
        pf, root = proc.pfiles(spec["p"])
        what = spec["what"]

        def row(t):
            return [t[0], t[1], t[2], sorted(t[3]) if t[3] is not None else None]

        def go():
            if what == "iter":
                return [row(t) for t in pf]
            if what == "iterref":
                return [row(t) for t in pf.iter_reference()]
            r = pf.match(root + "/" + what[len("match:"):])
            return None if r is None else row(r)
        return canon_tmp(guarded(go), proc.tmp), None
    if k == "getparser":
        from compare_locales import parser as _parser

        def go():
            has = _parser.hasParser(spec["name"])
            try:
                cls = type(_parser.getParser(spec["name"])).__name__
            except UserWarning:
                cls = "UserWarning"
            return [bool(has), cls]
        return guarded(go), None
    if k == "compare":
        from compare_locales.compare import ContentComparer, Observer
        from compare_locales.paths import File
        refp = proc.write(name, texts[f][spec["ref"]])
        l10p = proc.write(name, texts[f][spec["l10n"]])
        mergep = proc.path(name) if spec["merge"] else None

        def go():
            cc = ContentComparer()
            cc.observers.append(Observer())
            cc.compare(File(refp, "sub/" + name), File(l10p, "sub/" + name, locale=spec.get("loc", "de")),
                       mergep, extra_of(spec))
            merged = None
            if mergep and os.path.exists(mergep):
                merged = open(mergep, encoding="utf-8", newline="").read()
            return [cc.observers.toJSON(), cc.observers.observers[0].toJSON(),
                    cc.observers.serializeDetails(), cc.observers.serializeSummaries(), merged]
        return canon_tmp(guarded(go), proc.tmp), None
    if k == "add":
        from compare_locales.compare import ContentComparer, Observer
        from compare_locales.paths import File
        refp = proc.write(name, texts[f][spec["ref"]])

        def go():
            cc = ContentComparer()
            cc.observers.append(Observer())
            cc.add(File(refp, "sub/" + name), File(proc.path(name), "sub/" + name, locale="de"), None)
            return [cc.observers.toJSON(), cc.observers.serializeDetails()]
        return canon_tmp(guarded(go), proc.tmp), None
    if k == "lint":
        from compare_locales.lint.linter import L10nLinter
        curp = proc.write(name, texts[f][spec["cur"]])
        refp = proc.write(name, texts[f][spec["ref"]]) if spec["ref"] is not None else None
        if spec.get("refmissing"):
            refp = proc.path(name)          # the reference lookup names a file that does not exist

        def go():
            # the public entry: files without a parser are skipped
            return list(L10nLinter().lint([curp], lambda path: (refp, extra_of(spec))))
        return canon_tmp(guarded(go), proc.tmp), None
    if k == "merge":
        from compare_locales.merge import merge_channels
        rs = [texts[f][i].encode("utf-8") for i in spec["rs"]]
        return canon_tmp(guarded(lambda: merge_channels(name, rs)), proc.tmp), None
    if k == "serialize":
        from compare_locales.serializer import serialize

        def go():
            from compare_locales import parser as _parser
            p = _parser.getParser(name)
            p.readUnicode(texts[f][spec["ref"]])
            ref = list(p.walk())
            p.readUnicode(texts[f][spec["old"]])
            old = list(p.walk())
            return serialize(name, ref, old, dict(spec["new"]))
        return canon_tmp(guarded(go), proc.tmp), None
    if k == "filter":
        from compare_locales.paths import File
        pc = proc.config(spec["c"], spec.get("ver"))
        fl = File(spec["path"], spec["path"].split("/", 3)[-1], locale=spec["loc"])
        return guarded(lambda: pc.filter(fl, spec["ent"])), None
    if k == "reconfig":
        proc.reconfig(spec["c"])
        return None, None
    if k == "moz":
        from compare_locales import mozpath
        return guarded(lambda: mozpath.match(spec["path"], spec["pat"])), None
    if k == "matcher":
        m = proc.matcher(spec["m"])
        what = spec["what"]

        def go():
            if what == "match":
                r = m.match(spec["path"])
                return None if r is None else sorted(r.items())
            if what == "prefix":
                m.match("")          # the cache is filled by match only
                return m.prefix
            other = proc.matcher(int(what[3:]))
            return m.sub(other, spec["path"])
        return guarded(go), None
    raise ValueError(k)


def snapshot(proc):
    """the observable process state"""
    from compare_locales import parser, mozpath
    from compare_locales.parser import Junk
    from compare_locales.checks import DTDChecker
    pc = []
    for f in range(7):
        ctx = parser_of(f).ctx
        pc.append([] if ctx is None else [ctx.contents, bool(getattr(ctx, "filter_empty_lines", False))])
    th = DTDChecker.texthandler
    from compare_locales.parser.android import XMLJunk
    return {"junkid": Junk.junkid,
            "xjunkid": [XMLJunk.__dict__["junkid"]] if "junkid" in XMLJunk.__dict__ else [],
            "pctx": pc,
            "dtd": th.textcontent, "dtd_set": "textcontent" in th.__dict__,
            "fcache": [([] if (c not in proc.configs or proc.configs[c]._cache is None)
                        else [proc.configs[c]._cache.locale]) for c in range(len(CONFIGS))],
            "recache": [int(pat in mozpath.re_cache) for _, pat in MOZ_QUERIES],
            "mcache": [int(m in proc.matchers and proc.matchers[m]._cached_re is not None)
                       for m in range(len(MATCHERS))]}


def check_parser_table():
    """the format numbering of the model is the order of parser.__constructors"""
    from compare_locales import parser
    cons = parser.__dict__["__constructors"]
    names = [type(p).__name__ for _, p in cons]
    if names != PARSER_CLASS:
        raise RuntimeError("parser.__constructors changed: %r" % names)
    for f in range(7):
        if dispatch(FILE[f]) != f:
            raise RuntimeError("%s is not dispatched to %s" % (FILE[f], PARSER_CLASS[f]))


def run_sequence(specs, texts):
    """run the operations in THIS process; per op {res, state}; final re-observation of entries"""
    import warnings
    warnings.simplefilter("ignore")      # pkg_resources deprecation noise of getParser's fallback
    proc = Proc()
    out, live = [], []
    try:
        with contextlib.redirect_stdout(io.StringIO()):
            for spec in specs:
                if "preset" in spec:
                    from compare_locales.parser import Junk
                    Junk.junkid = spec["preset"]
                res, es = exec_op(proc, spec, texts, live)
                live.append(es)
                out.append({"res": res, "state": snapshot(proc)})
            final = [None if es is None else
                     {"ents": [ent_record(e) for e in es], "extra": [ent_extra(e) for e in es]}
                     for es in live]
    finally:
        proc.close()
    return {"ops": out, "final": final}


# ----------------------------------------------------------------- processes ---
def baseline_main():
    job = json.load(sys.stdin)
    check_parser_table()
    print(json.dumps(run_sequence(job["specs"], {int(k): v for k, v in job["texts"].items()})))


def run_fresh(jobs, texts, par=8):
    """each job (a list of specs) in its own fresh interpreter; returns the outputs in order"""
    env = dict(os.environ)
    procs, outs = [], [None] * len(jobs)
    pending = list(enumerate(jobs))
    running = []
    need = {}
    while pending or running:
        while pending and len(running) < par:
            i, specs = pending.pop(0)
            used = sorted({s["f"] for s in specs if "f" in s})
            tx = {str(f): texts[f] for f in used}
            p = subprocess.Popen([common.PY, "-m", "harness.props.c18", "--baseline"],
                                 stdin=subprocess.PIPE, stdout=subprocess.PIPE,
                                 stderr=subprocess.PIPE, text=True, env=env, cwd=common.VERIF)
            p.stdin.write(json.dumps({"specs": specs, "texts": tx}))
            p.stdin.close()
            running.append((i, p))
        i, p = running.pop(0)
        so = p.stdout.read()
        se = p.stderr.read()
        p.wait()
        if p.returncode != 0:
            raise RuntimeError("fresh interpreter failed: " + se[-800:])
        outs[i] = json.loads(so)
    return outs


def fork_sequence(specs, texts, timeout=120):
    """start the sequence in a child forked from this (pristine) process"""
    r, w = os.pipe()
    pid = os.fork()
    if pid == 0:
        code = 0
        try:
            os.close(r)
            signal.alarm(timeout)
            data = json.dumps(run_sequence(specs, texts))
            with os.fdopen(w, "w") as f:
                f.write(data)
        except BaseException:  # noqa
            import traceback
            try:
                with os.fdopen(w, "w") as f:
                    f.write(json.dumps({"child_raised": traceback.format_exc()[-1500:]}))
            except Exception:  # noqa
                pass
            code = 1
        os._exit(code)
    os.close(w)
    return pid, r


def join_sequence(pid, r):
    with os.fdopen(r) as f:
        data = f.read()
    os.waitpid(pid, 0)
    if not data:
        return {"child_raised": "no output (killed or timed out)"}
    return json.loads(data)


def run_forked(specs, texts, timeout=120):
    return join_sequence(*fork_sequence(specs, texts, timeout))


def run_forked_many(seqs, texts, par=10):
    """every sequence in its own child of this process, a few at a time; results in order"""
    outs = []
    for i in range(0, len(seqs), par):
        kids = [fork_sequence(s, texts) for s in seqs[i:i + par]]
        outs.extend(join_sequence(*k) for k in kids)
    return outs


# ======================================================================= model ===
def eff_counter(state, f):
    """the counter the next Junk of format f increments (XMLJunk has its own once it exists)"""
    if state is None:
        return 0
    if FMT[f] == "android" and state["xjunkid"]:
        return state["xjunkid"][0]
    return state["junkid"]


class Interner:
    def __init__(self):
        self.ids = {}
        self.id(True)      # 1: what mozpath.match returns for an empty pattern (the model's mm_empty)

    def id(self, obj):
        key = json.dumps(obj, sort_keys=True)
        if key not in self.ids:
            self.ids[key] = len(self.ids) + 1
        return self.ids[key]


def events_of(pent, jids, total):
    """entry constructions of a walk in a fresh interpreter, with the junk objects that were
    constructed and dropped (gaps in the ids) put back"""
    ev, nxt = [], 1
    for p, j in zip(pent, jids):
        if p[0] in (2, 3):
            ev.extend([[4]] * (j - nxt))
            nxt = j + 1
        ev.append(p)
    ev.extend([[4]] * (total - nxt + 1))
    return ev


def enc_pentry(p):
    if p[0] == 0:
        return [0, p[1], p[2], p[3], p[4]]
    if p[0] == 1:
        return [1, p[1], p[2], p[3]]
    if p[0] == 2:
        return [2, p[1], p[2]]
    if p[0] == 3:
        return [3, p[1]]
    return [4]


class Tables:
    """the pure parts, measured in fresh interpreters, in the model's wire format"""

    def __init__(self, texts, ops, base, flagrows, filt_rows, intern):
        self.texts, self.ops, self.intern = texts, ops, intern
        self.walk = {}        # (f, t, flag) -> row
        self.vres, self.dtd, self.frows, self.rxrows, self.mrows = {}, {}, filt_rows, [], []
        for o, b in zip(ops, base):
            st = b["state"]
            if o["k"] == "parse":
                r = b["res"]
                pc = st["pctx"][o["f"]]
                fl = pc[1] if pc else 0      # no context at all after a read: left to the comparisons
                self.walk[(o["f"], o["t"], 0)] = [o["f"], texts[o["f"]][o["t"]], 0,
                                                  [enc_pentry(p) for p in
                                                   events_of(r["pent"], r["jid"],
                                                             eff_counter(st, o["f"]))], int(fl)]
            elif o["k"] in ("compare", "lint", "merge", "serialize", "getparser", "add", "pfiles"):
                self.vres[o["id"]] = intern.id(b["res"])
                if st["dtd_set"]:
                    self.dtd[o["id"]] = st["dtd"]
            elif o["k"] == "moz":
                self.rxrows.append([o["pat"], o["path"], intern.id(b["res"])])
            elif o["k"] == "matcher":
                self.mrows.append([o["m"], o["what"] + ":" + o["path"], intern.id(b["res"])])
        for (f, t), b in flagrows.items():
            r, st = b["res"], b["state"]
            self.walk[(f, t, 1)] = [f, texts[f][t], 1,
                                    [enc_pentry(p) for p in events_of(r["pent"], r["jid"],
                                                                      eff_counter(st, f))],
                                    int(st["pctx"][f][1]) if st["pctx"][f] else 0]

    def op_texts(self, o):
        k = o["k"]
        if o.get("f") == NOPARSER or k in ("getparser", "pfiles"):
            return []          # nothing is parsed (no parser is found for the name)
        if k == "parse":
            return [o["t"]]
        if k == "compare":
            return [o["ref"], o["l10n"]]
        if k == "lint":
            return ([o["ref"]] if o["ref"] is not None else []) + [o["cur"]]
        if k == "merge":
            return list(o["rs"])
        if k == "serialize":
            return [o["ref"], o["old"]]
        if k == "add":
            return [o["ref"]]
        return []

    def enc_op(self, o):
        k, tx = o["k"], self.texts
        f = o.get("f")
        if f == NOPARSER or k in ("getparser", "pfiles"):
            return [4, 0, [], o["id"]]      # an operation that reads no text with any parser
        if k == "parse":
            return [0, f, tx[f][o["t"]]]
        if k == "rewalk":
            return [1, f]
        if k == "compare":
            return [2, f, tx[f][o["ref"]], tx[f][o["l10n"]], o["id"]]
        if k == "lint":
            return [3, f, [tx[f][o["ref"]]] if o["ref"] is not None else [], tx[f][o["cur"]], o["id"]]
        if k == "merge":
            return [4, f, [tx[f][i] for i in o["rs"]], o["id"]]
        if k == "add":
            return [4, f, [tx[f][o["ref"]]], o["id"]]       # reads the reference, nothing else
        if k == "serialize":
            return [5, f, tx[f][o["ref"]], tx[f][o["old"]], o["id"]]
        if k == "filter":
            return [6, o["c"], o["loc"], o["path"], [o["ent"]] if o["ent"] is not None else []]
        if k == "reconfig":
            return [7, o["c"]]
        if k == "moz":
            return [8, o["path"], o["pat"]]
        if k == "matcher":
            return [9, o["m"], o["what"] + ":" + o["path"]]
        raise ValueError(k)

    def request(self, seq):
        """[tables; probes; history] restricted to what the sequence can touch"""
        used = set()
        for o in seq:
            for t in self.op_texts(o):
                used.add((o["f"], t))
        walks = []
        for (f, t) in sorted(used):
            walks.append(self.walk[(f, t, 0)])
            if (f, t, 1) in self.walk:
                walks.append(self.walk[(f, t, 1)])
        ids = [o["id"] for o in seq]
        tabs = [walks,
                [[i, self.vres[i]] for i in ids if i in self.vres],
                [[i, self.dtd[i]] for i in ids if i in self.dtd],
                self.frows, self.rxrows, self.mrows]
        probes = [list(range(len(CONFIGS))), [pat for _, pat in MOZ_QUERIES], list(range(len(MATCHERS)))]
        return [tabs, probes, [self.enc_op(o) for o in seq]]


def impl_view(seq, run, intern):
    """what the implementation did in a history, in the shape of the model's answer"""
    per = []
    for o, r in zip(seq, run["ops"]):
        st = r["state"]
        if o["k"] in ("parse", "rewalk") and o.get("f") != NOPARSER:
            outp = [0, [[common.s2l(k), [common.s2l(x) for x in obs]] for k, obs in r["res"]["ents"]]]
        elif o["k"] == "reconfig":
            outp = [2]
        else:
            outp = [1, intern.id(r["res"])]
        state = [[st["junkid"], st["xjunkid"]],
                 [([] if not pc else [common.s2l(pc[0]), int(pc[1])]) for pc in st["pctx"]],
                 common.s2l(st["dtd"]),
                 [([] if not c else [common.s2l(c[0])]) for c in st["fcache"]],
                 st["recache"], st["mcache"]]
        per.append([outp, state])
    final = []
    for o, fin in zip(seq, run["final"]):
        final.append([] if fin is None or o.get("f") == NOPARSER else
                     [[common.s2l(k), [common.s2l(x) for x in obs]] for k, obs in fin["ents"]])
    return [per, final]


# ====================================================================== oracle ===
import re as _re
JUNK_KEY = _re.compile(r"^_junk_(\d+)_(\d+)-(\d+)$")


def canon_parse(res):
    """a parse result with the numeric id inside the keys of Junk entries removed"""
    ents = []
    for (k, obs), pe in zip(res["ents"], res["pent"]):
        if pe[0] in (2, 3):
            m = JUNK_KEY.match(k)
            k = "_junk_#_%s-%s" % (m.group(2), m.group(3)) if m else "BAD-JUNK-KEY " + k
        ents.append([k, obs])
    return {"ents": ents, "extra": res["extra"], "pent": res["pent"]}


def collides(tables, o, j0):
    """does a junk key of the operation, started at Junk.junkid == j0, equal an entity key?"""
    keys = set()
    n = j0
    hit = False
    rendered = []
    for t in tables.op_texts(o):
        row = tables.walk[(o["f"], t, 0)]
        txt = row[1]
        for p in row[3]:
            if p[0] == 0:
                keys.add(txt[p[3][0]:p[3][1]])
            elif p[0] == 1:
                keys.add(p[1])
            else:
                n += 1
                if p[0] == 2:
                    rendered.append("_junk_%d_%d-%d" % (n, p[1], p[2]))
                elif p[0] == 3:
                    rendered.append("_junk_%d_0-0" % n)
    for r in rendered:
        if r in keys:
            hit = True
    return hit


def describe(seq, texts, upto=None):
    out = []
    for o in seq[:upto]:
        d = {k: v for k, v in o.items() if k not in ("id", "fam", "lead")}
        for fld in ("t", "ref", "l10n", "cur", "old"):
            if fld in d and d[fld] is not None and "f" in d:
                d[fld] = texts[d["f"]][d[fld]]
        if "rs" in d:
            d["rs"] = [texts[d["f"]][i] for i in d["rs"]]
        if "f" in d:
            d["f"] = FMT[d["f"]]
        out.append(d)
    return out


def last_read(seq, i):
    """index of the text the parser of seq[i]'s format read last before position i (or None)"""
    f = seq[i]["f"]
    for o in reversed(seq[:i]):
        if o.get("f") != f:
            continue
        k = o["k"]
        if k == "parse":
            return o["t"]
        if k == "compare":
            return o["l10n"]
        if k == "lint":
            return o["cur"]
        if k == "merge":
            return o["rs"][-1] if o["rs"] else None
        if k == "serialize":
            return o["old"]
        if k == "add":
            return o["ref"]
    return None


def judge(chk, tables, base_by_id, parse_base, seq, run, texts, where):
    """the implementation-only oracle on one history"""
    ver = {}
    queried = set()
    stale_possible = set()
    for i, (o, r) in enumerate(zip(seq, run["ops"])):
        k = o["k"]
        j0 = eff_counter(run["ops"][i - 1]["state"] if i else None, o["f"]) if "f" in o else 0
        case = {"where": where, "sequence": describe(seq, texts, i + 1), "index": i}
        chk.count((where, tuple(x["id"] for x in seq[:i + 1])))
        chk.hist("op_kind", k)
        if k == "reconfig":
            ver[o["c"]] = ver.get(o["c"], 0) + 1
            if o["c"] in queried:
                stale_possible.add(o["c"])
            continue
        if k == "rewalk":
            t = last_read(seq, i)
            got = canon_parse(r["res"])
            exp = ({"ents": [], "extra": [], "pent": []} if t is None
                   else canon_parse(parse_base[(o["f"], t)]))
            if got != exp:
                txt = texts[o["f"]][t] if t is not None else ""
                sig = ("rewalk-inc-filter-state" if FMT[o["f"]] == "inc" and "#filter" in txt
                       else "history-dependent-rewalk")
                chk.fail(sig, case, {"got": got["ents"], "fresh_parse": exp["ents"]})
            continue
        if k == "filter":
            queried.add(o["c"])
            exp = base_by_id[("filter", o["id"], ver.get(o["c"], 0))]
            if r["res"] != exp:
                sig = ("filtercache-stale-after-config-edit" if o["c"] in stale_possible
                       else "history-dependent-filter")
                chk.fail(sig, case, {"got": r["res"], "fresh": exp})
            continue
        exp = base_by_id[o["id"]]
        if k == "parse":
            got = canon_parse(r["res"])
            if got != canon_parse(exp):
                chk.fail("history-dependent-parse", case,
                         {"got": got["ents"], "fresh": canon_parse(exp)["ents"]})
            continue
        if r["res"] != exp:
            if k in ("compare", "lint", "merge", "serialize", "add") and (
                    collides(tables, o, j0) or collides(tables, o, 0)):
                sig = "junk-key-collides-with-entity-key"
            else:
                sig = "history-dependent-" + k
            chk.fail(sig, case, {"got": r["res"], "fresh": exp, "junkid_before": j0})
    # entries obtained earlier, read again at the very end
    for i, (o, r, fin) in enumerate(zip(seq, run["ops"], run["final"])):
        if fin is None:
            continue
        now = {"ents": fin["ents"], "extra": fin["extra"]}
        then = {"ents": r["res"]["ents"], "extra": r["res"]["extra"]}
        chk.count((where, "survive", tuple(x["id"] for x in seq), i))
        if now != then:
            chk.fail("entities-changed-by-later-operations",
                     {"where": where, "sequence": describe(seq, texts), "index": i},
                     {"at_the_time": then, "at_the_end": now})


# ======================================================================= union ===
def union_suite(chk, rng, model, prefix=(), texts=None, u=0):
    """compareProjects over a generated tree: permutations of content <-> name, single files;
    each run in its own child, after the operations of `prefix` when given"""
    import itertools
    pairs = []
    for fmt in ("properties", "dtd", "ftl", "inc", "ini", "po"):
        recs = gen_records(rng, 4)
        pairs.append((fmt, render(fmt, recs, rng, junk=0.2), {
            "de": render(fmt, derive(rng, recs), rng, junk=0.4),
            "fr": render(fmt, derive(rng, recs), rng, junk=0.4)}))
    # a DTD whose path is annotated test = ["android-dtd"] (unescaped apostrophes and quotes), next
    # to the ordinary DTD above, whose checker gets the empty set
    pairs.append(("dtd+android", '<!ENTITY a "it\'s fine">\n<!ENTITY b "plain">\n',
                  {"de": '<!ENTITY a "c\'est &quot;bon&quot;">\n<!ENTITY b "l\'autre">\n',
                   "fr": '<!ENTITY a "ok">\n<!ENTITY b "d\'accord">\n'}))
    n = len(pairs)
    ext = {"properties": "properties", "dtd": "dtd", "ftl": "ftl", "inc": "inc", "ini": "ini", "po": "po",
           "dtd+android": "dtd"}
    perms = [list(range(n)), list(reversed(range(n)))]
    for _ in range(chk.n(4, 12)):
        p = list(range(n))
        rng.shuffle(p)
        perms.append(p)
    # jobs: ("multi", perm) and ("single", content index)
    jobs = [("multi", p, None) for p in perms] + [("single", list(range(n)), i) for i in range(n)]
    prog = []
    for kind, perm, only in jobs:
        prog.append({"kind": kind, "perm": perm, "only": only})
    results = []
    for jb in prog:
        r = run_forked_fn(union_job, (pairs, ext, jb, list(prefix), texts))
        if "child_raised" in r:
            chk.fail("multi-file-run-raised", jb, r["child_raised"])
            return
        results.append(r)
    ref = results[0]
    chk.sample({"suite": "UNION", "files": ref["names"], "summary": ref["summary"]})
    singles = [r for jb, r in zip(prog, results) if jb["kind"] == "single"]
    for jb, r in zip(prog, results):
        chk.count(("union", u, jb["kind"], tuple(jb["perm"]), jb["only"]))
        if jb["kind"] == "multi":
            if r["by_content"] != ref["by_content"] or r["summary"] != ref["summary"]:
                chk.fail("multi-file-run-depends-on-order", {"perm": jb["perm"]},
                         {"got": [r["by_content"], r["summary"]],
                          "identity_order": [ref["by_content"], ref["summary"]]})
    # union of the single-file runs
    merged = {}
    total = {}
    for i, r in enumerate(singles):
        for c, d in r["by_content"].items():
            merged.setdefault(c, d)
        for loc, s in r["summary"].items():
            t = total.setdefault(loc, {})
            for kk, v in s.items():
                t[kk] = t.get(kk, 0) + v
    if merged != ref["by_content"] or total != ref["summary"]:
        chk.fail("multi-file-run-is-not-the-union-of-single-file-runs", {"files": n},
                 {"multi": [ref["by_content"], ref["summary"]], "union": [merged, total]})
    # the observer model fed with the single-file contributions in each processing order,
    # against the multi-file run of that order
    if model is not None:
        locs = sorted(ref["summary"])
        stat_keys = sorted({k for s in ref["summary"].values() for k in s})
        intern = Interner()
        multi = [(jb, r) for jb, r in zip(prog, results) if jb["kind"] == "multi"]
        reqs, impl, cases = [], [], []
        fid = lambda c, li: c * len(locs) + li  # noqa
        for jb, r in multi:
            order = sorted(range(n), key=lambda c: jb["perm"][c])   # contents in processing order
            contribs = []
            for li, loc in enumerate(locs):
                for c in order:
                    s = singles[c]
                    contribs.append([fid(c, li), li,
                                     [intern.id(d) for d in s["by_content"].get("%d/%s" % (c, loc), [])],
                                     [s["summary"].get(loc, {}).get(k, 0) for k in stat_keys]])
            reqs.append((2, [contribs, list(range(len(locs))),
                             [fid(c, li) for c in range(n) for li in range(len(locs))]]))
            impl.append([[[r["summary"][loc].get(k, 0) for k in stat_keys] for loc in locs],
                         [[intern.id(d) for d in r["by_content"].get("%d/%s" % (c, loc), [])]
                          for c in range(n) for loc in locs]])
            cases.append({"perm": jb["perm"]})
        outs = model.call(reqs)
        chk.correspond("UNION" if not u else "UNION-after-history-%d" % u, cases, impl, outs)


def run_forked_fn(fn, args, timeout=300):
    r, w = os.pipe()
    pid = os.fork()
    if pid == 0:
        code = 0
        try:
            os.close(r)
            signal.alarm(timeout)
            with contextlib.redirect_stdout(io.StringIO()):
                data = json.dumps(fn(*args))
            with os.fdopen(w, "w") as f:
                f.write(data)
        except BaseException:  # noqa
            import traceback
            try:
                with os.fdopen(w, "w") as f:
                    f.write(json.dumps({"child_raised": traceback.format_exc()[-1500:]}))
            except Exception:  # noqa
                pass
            code = 1
        os._exit(code)
    os.close(w)
    with os.fdopen(r) as f:
        data = f.read()
    os.waitpid(pid, 0)
    if not data:
        return {"child_raised": "no output"}
    return json.loads(data)


def union_job(pairs, ext, jb, prefix=(), texts=None):
    from compare_locales.paths import ProjectConfig
    from compare_locales.compare import compareProjects
    if prefix:
        run_sequence(prefix, texts)
    tmp = tempfile.mkdtemp(prefix="c18u_")
    try:
        names = {}
        for c, (fmt, ref, l10ns) in enumerate(pairs):
            if jb["kind"] == "single" and c != jb["only"]:
                continue
            name = "d%02d/f.%s" % (jb["perm"][c], ext[fmt])
            names[name] = c
            for base, text in [("en-US", ref)] + [("l10n/" + loc, t) for loc, t in l10ns.items()]:
                p = os.path.join(tmp, base, name)
                os.makedirs(os.path.dirname(p), exist_ok=True)
                with open(p, "w", encoding="utf-8", newline="") as f:
                    f.write(text)
        pc = ProjectConfig(None)
        pc.set_locales(["de", "fr"])
        pc.add_paths({"l10n": tmp + "/l10n/{locale}/**", "reference": tmp + "/en-US/**"})
        for name, c in names.items():
            if pairs[c][0].endswith("+android"):
                pc.add_paths({"l10n": tmp + "/l10n/{locale}/" + name, "reference": tmp + "/en-US/" + name,
                              "test": ["android-dtd"]})
        # legacy l10n.ini style entries: some files belong to a path entry that carries `module`
        # (reported as <locale>/<module>/<path below the module>), the others to the entry without
        modkeys = {}
        for name, c in names.items():
            if c in (0, 3):
                d_ = name.split("/")[0]
                pc.add_paths({"l10n": tmp + "/l10n/{locale}/" + d_ + "/**",
                              "reference": tmp + "/en-US/" + d_ + "/**", "module": "mod%d" % c})
                modkeys["mod%d/%s" % (c, name.split("/", 1)[1])] = c
        obs = compareProjects([pc], ["de", "fr"], tmp + "/l10n")
        by_content = {}
        # details per (content, locale): walk the tree
        flat = {}

        def walk(tree, prefix):
            if tree.value is not None:
                flat["/".join(prefix)] = tree.value
            for k, sub in tree.branches.items():
                walk(sub, prefix + list(k))
        walk(obs.details, [])
        for path, det in flat.items():
            loc, _, name = path.partition("/")
            if name in names and names[name] not in modkeys.values():
                by_content["%d/%s" % (names[name], loc)] = det
            elif name in modkeys:
                by_content["%d/%s" % (modkeys[name], loc)] = det
            else:
                by_content["?" + path] = det
        summary = {loc: dict(s) for loc, s in obs.summary.items()}
        return {"by_content": by_content, "summary": summary, "names": sorted(names)}
    finally:
        shutil.rmtree(tmp, ignore_errors=True)


# ==================================================================== witnesses ===
def witness_job(which):
    """the minimal sequences; each returns (after the history, in a fresh state)"""
    from compare_locales import parser
    from compare_locales.parser import Junk
    from compare_locales.merge import merge_channels
    if which == "junk-merge":
        out = []
        for hist in (0, 1):
            Junk.junkid = 0
            p = parser.getParser("a.properties")
            for _ in range(hist):
                p.readUnicode("junk\n")
                p.parse()
            out.append(merge_channels("f.properties", [b"_junk_1_0-5 = value\n", b"junk\n"]).decode())
        return out
    if which == "rewalk":
        p = parser.getParser("a.inc")
        p.readUnicode("#define A 1\n\n#filter emptyLines\n")
        first = [[type(e).__name__, list(e.span)] for e in p.walk()]
        second = [[type(e).__name__, list(e.span)] for e in p.walk()]
        return [first, second]
    if which == "filtercache":
        from compare_locales.paths import ProjectConfig, File
        f = File("/l/de/a.properties", "a.properties", locale="de")

        def cfg():
            c = ProjectConfig(None)
            c.set_locales(["de"])
            c.add_paths({"l10n": "/l/{locale}/**"})
            return c
        c = cfg()
        before = c.filter(f)
        c.add_rules({"path": "/l/{locale}/a.properties", "action": "ignore"})
        after = c.filter(f)
        c2 = cfg()
        c2.add_rules({"path": "/l/{locale}/a.properties", "action": "ignore"})
        return [before, after, c2.filter(f)]
    raise ValueError(which)


def witnesses(chk):
    for w in ("junk-merge", "rewalk", "filtercache"):
        r = run_forked_fn(witness_job, (w,))
        if isinstance(r, dict) and "child_raised" in r:
            chk.fail("witness-sequence-raised", {"witness": w}, r["child_raised"])
            return
    a, b = run_forked_fn(witness_job, ("junk-merge",))
    chk.count(("witness", "junk-merge"))
    if a != b:
        chk.fail("junk-key-collides-with-entity-key",
                 {"operation": "merge_channels('f.properties', [b'_junk_1_0-5 = value\\n', b'junk\\n'])",
                  "history_a": "fresh interpreter", "history_b": "after one parse that produced a Junk"},
                 {"result_a": a, "result_b": b})
    first, second = run_forked_fn(witness_job, ("rewalk",))
    chk.count(("witness", "rewalk"))
    if first != second:
        chk.fail("rewalk-inc-filter-state",
                 {"sequence": ["getParser('a.inc').readUnicode('#define A 1\\n\\n#filter emptyLines\\n')",
                               "list(p.walk())", "list(p.walk())"]},
                 {"first_walk": first, "second_walk": second})
    before, after, fresh = run_forked_fn(witness_job, ("filtercache",))
    chk.count(("witness", "filtercache"))
    if after != fresh:
        chk.fail("filtercache-stale-after-config-edit",
                 {"sequence": ["c.filter(File('/l/de/a.properties', locale='de'))",
                               "c.add_rules({'path': '/l/{locale}/a.properties', 'action': 'ignore'})",
                               "c.filter(same file)"]},
                 {"first": before, "after_edit": after, "fresh_config_with_the_rule": fresh})


def inventory_obligation(chk):
    """the readable form of theorem C18_inventory: which items differ"""
    sys.path.insert(0, os.path.join(common.VERIF, "tr"))
    try:
        import facts_c18
        inv = set(facts_c18.inventory())
    except Exception as ex:  # noqa
        chk.obligations.append(common.Obligation("state inventory readable diff", "translator", False,
                                                 "scanner raised: %r" % (ex,)))
        return
    finally:
        sys.path.pop(0)
    src = open(os.path.join(common.COQ, "Model", "History.v")).read()
    modelled = set(_re.findall(r'Item "([^"]*)" "([^"]*)" "([^"]*)" \w+', src))
    new = sorted(inv - modelled)
    gone = sorted(modelled - inv)
    detail = ""
    if new:
        detail += "state in the package that the model does not account for: " + \
            "; ".join("%s:%s [%s]" % t for t in new) + ". "
    if gone:
        detail += "state the model lists that the package no longer has: " + \
            "; ".join("%s:%s [%s]" % t for t in gone) + "."
    chk.obligations.append(common.Obligation(
        "state inventory of the package = modelled_state (%d items; readable form of C18_inventory)"
        % len(inv), "translator", not new and not gone, detail))


# the entries proposed for /verif/known_findings.json (the coordinator decides); with
# VERIF_C18_PROPOSED_FINDINGS=1 the check treats them as listed, to show that nothing else fails
PROPOSED_FINDINGS = [
    {"property": "C18", "signature": "junk-key-collides-with-entity-key",
     "description": "Junk.junkid leaks into results through key collisions: an entity whose key has the "
                    "form _junk_<n>_<a>-<b> is taken for the Junk(a,b) of the other file (or of the same "
                    "file, in lint) exactly when the process-wide counter happens to be n-1; e.g. "
                    "merge_channels('f.properties', [b'_junk_1_0-5 = value\\n', b'junk\\n']) drops the "
                    "junk line in a fresh interpreter and keeps it after any earlier parse that produced a Junk",
     "witness": {"operation": "merge_channels('f.properties', [b'_junk_1_0-5 = value\\n', b'junk\\n'])",
                 "fresh": "_junk_1_0-5 = value\\n", "after_one_junk": "junk\\n_junk_1_0-5 = value\\n"}},
    {"property": "C18", "signature": "rewalk-inc-filter-state",
     "description": "a second walk()/parse() of the same .inc context starts with the filter_empty_lines "
                    "flag the first walk left on the context: a blank line above '#filter emptyLines' is "
                    "Junk in the first walk and Whitespace in the second",
     "witness": {"text": "#define A 1\\n\\n#filter emptyLines\\n",
                 "first_walk": "Entity(0,11) Junk(11,13) DefinesInstruction(13,31) Whitespace(31,32)",
                 "second_walk": "Entity(0,11) Whitespace(11,13) DefinesInstruction(13,31) Whitespace(31,32)"}},
    {"property": "C18", "signature": "filtercache-stale-after-config-edit",
     "description": "ProjectConfig.add_rules / add_paths do not clear ProjectConfig._cache (only "
                    "_all_locales): a filter() for the locale queried last answers from the rules and paths "
                    "of before the edit",
     "witness": {"sequence": ["c.filter(File('/l/de/a.properties', 'a.properties', locale='de')) -> 'error'",
                              "c.add_rules({'path': '/l/{locale}/a.properties', 'action': 'ignore'})",
                              "c.filter(same file) -> 'error' (a fresh config with the rule: 'ignore')"]}},
]


def stepcfg_suite(chk):
    """a ProjectConfig built in steps: [create, add_paths(de)], optionally USED (all_locales, filter
    of a de file), then add_child / add_paths bringing locale ja, then queried (all_locales, filter
    of ja and de files, ProjectFiles('ja')).  Baseline: a fresh object grown the same way and
    queried without any intermediate use.  Every sequence of 2-4 steps."""
    import itertools
    whats = ["use", "grow_child", "grow_paths", "query"]
    vers = [(), ("child",), ("paths",), ("child", "paths")]
    jobs, meta = [], []
    for v in vers:
        for w in ("use", "query"):
            jobs.append([{"k": "stepcfg", "what": w, "pre": list(v), "id": 0}])
            meta.append((w, frozenset(v)))
    fresh = run_fresh(jobs, {f: [] for f in range(8)}, par=8)
    base = {m: out["ops"][0]["res"] for m, out in zip(meta, fresh)}
    seqs = []
    for n in (2, 3, 4):
        for combo in itertools.product(whats, repeat=n):
            if combo[-1] in ("use", "query") and any(c.startswith("grow") or c == "use" for c in combo[:-1]):
                seqs.append([{"k": "stepcfg", "what": w, "id": i} for i, w in enumerate(combo)])
    runs = run_forked_many(seqs, {f: [] for f in range(8)})
    for seq, rn in zip(seqs, runs):
        names = [o["what"] for o in seq]
        if "child_raised" in rn:
            chk.fail("history-run-raised", {"sequence": names}, rn["child_raised"])
            continue
        grown = set()
        for i, (o, r) in enumerate(zip(seq, rn["ops"])):
            w = o["what"]
            if w.startswith("grow_"):
                grown.add(w[5:])
                continue
            chk.count(("stepcfg", tuple(names[:i + 1])))
            exp = base[(w, frozenset(grown))]
            if r["res"] != exp:
                sig = "config-built-in-steps-depends-on-intermediate-use"
                got = r["res"]
                used_before_grow = any(a in ("use", "query") and any(b.startswith("grow") for b in names[j + 1:i])
                                       for j, a in enumerate(names[:i]))
                if (isinstance(got, list) and isinstance(exp, list) and len(got) == len(exp) and got[0] == exp[0]
                        and (w == "use" or got[4:] == exp[4:]) and used_before_grow):
                    # all_locales and the file list are right, only filter verdicts differ, and the
                    # locale was filtered before the edit: the listed stale-FilterCache finding
                    sig = "filtercache-stale-after-config-edit"
                chk.fail(sig,
                         {"sequence": ["ProjectConfig(); set_locales(['de']); add_paths(de entry)"] + names[:i + 1],
                          "index": i},
                         {"got": r["res"], "fresh_object_grown_the_same_way": exp})
    chk.notes.append("STEPCFG: %d sequences over use / grow_child / grow_paths / query" % len(seqs))


# ========================================================================= run ===
def draw_history(rng, ops, weights, n):
    seq = [rng.choices(ops, weights)[0] if weights else rng.choice(ops) for _ in range(n)]
    # the baselines know each configuration up to a fixed number of edits
    done, out = {}, []
    for o in seq:
        if o["k"] == "reconfig":
            done[o["c"]] = done.get(o["c"], 0) + 1
            if done[o["c"]] > len(CONFIGS[o["c"]]["extra"]) + 2:
                continue
        out.append(o)
    return out


WEIGHT = {"pfiles": 2, "add": 1.5, "getparser": 1.5, "parse": 6, "rewalk": 1.5, "compare": 5, "lint": 3, "merge": 2.5, "serialize": 2.5,
          "filter": 3, "reconfig": 0.6, "moz": 1.5, "matcher": 2}


def measure(texts, ops, par=10):
    """every operation of the pool alone in a fresh interpreter -> tables for oracle and model"""
    jobs, meta = [], []
    for o in ops:
        if o["k"] == "filter":
            for v in range(len(CONFIGS[o["c"]]["extra"]) + 3):
                jobs.append([dict(o, ver=v)])
                meta.append(("filter", o["id"], v))
        elif o["k"] in ("reconfig", "rewalk"):
            continue
        else:
            jobs.append([o])
            meta.append(("op", o["id"], None))
    inc = FMT.index("inc")
    for t in range(len(texts[inc])):
        jobs.append([{"k": "walkflag", "f": inc, "t": t, "id": -1}])
        meta.append(("flag", inc, t))
    for o in ops:
        # reference of the MODEL's tables for operations whose junk keys collide when started
        # at Junk.junkid == 0: the same operation with the counter preset far away
        if o["k"] in ("compare", "lint", "merge", "serialize", "add") and any(
                JUNK_KEY.match(k) for t in set(Tables.op_texts(None, o))
                for k in _re.findall(r"^(_junk_\d+_\d+-\d+)", texts[o["f"]][t], _re.M)):
            jobs.append([dict(o, preset=500000)])
            meta.append(("nocoll", o["id"], None))
    fresh = run_fresh(jobs, texts, par=par)
    base_by_id, base_rec, parse_base, flagrows, filt_rows, nocoll = {}, {}, {}, {}, [], {}
    intern = Interner()
    for (kind, a, b), out in zip(meta, fresh):
        rec = out["ops"][0]
        if kind == "op":
            base_by_id[a] = rec["res"]
            base_rec[a] = rec
            o = ops[a]
            if o["k"] == "parse":
                parse_base[(o["f"], o["t"])] = rec["res"]
        elif kind == "filter":
            base_by_id[("filter", a, b)] = rec["res"]
            o = ops[a]
            filt_rows.append([o["c"], b, o["loc"], o["path"],
                              [o["ent"]] if o["ent"] is not None else [], intern.id(rec["res"])])
        elif kind == "nocoll":
            nocoll[a] = rec
        else:
            flagrows[(a, b)] = rec
    for a, rec in nocoll.items():
        base_rec[a] = dict(base_rec[a], res=rec["res"])
    tables = Tables(texts, ops, [base_rec.get(o["id"], {"res": None, "state": None}) for o in ops],
                    flagrows, filt_rows, intern)
    return tables, base_by_id, parse_base, intern, len(jobs)


def check_histories(chk, model, texts, seqs, tables, base_by_id, parse_base, intern, where="HISTORY"):
    """run the sequences (forked), apply the oracle and compare with the model"""
    runs = run_forked_many(seqs, texts)
    crashed = {i for i, rn in enumerate(runs) if "child_raised" in rn}
    for i in sorted(crashed):
        chk.fail("history-run-raised", {"sequence": describe(seqs[i], texts)}, runs[i]["child_raised"])
    seqs = [s_ for i, s_ in enumerate(seqs) if i not in crashed]
    runs = [r_ for i, r_ in enumerate(runs) if i not in crashed]
    for seq, rn in zip(seqs, runs):
        chk.hist("history_length", len(seq))
        judge(chk, tables, base_by_id, parse_base, seq, rn, texts, where)
    if not seqs:
        return seqs, runs
    if model is not None:
        reqs = [(0, tables.request(seq)) for seq in seqs]
        outs = model.call(reqs, chunk=200, timeout=900)
        impl = [impl_view(seq, rn, intern) for seq, rn in zip(seqs, runs)]
        # a collision marker of the model (-7) means "a junk key collides in this history, no
        # prediction"; it must coincide with the harness's own computation of the collision (then
        # the oracle above has classified the case), otherwise it stays a disagreement
        collisions = 0
        for seq, rn, a, b in zip(seqs, runs, impl, outs):
            for i, (x, y) in enumerate(zip(a[0], b[0])):
                o = seq[i]
                if o["k"] in ("compare", "lint", "merge", "serialize", "add"):
                    j0 = eff_counter(rn["ops"][i - 1]["state"] if i else None, o["f"])
                    mine = collides(tables, o, j0)
                    if (y[0] == [1, [-7]]) != mine:
                        y[0] = [1, [-7, int(mine)]]       # the two computations differ: disagreement
                    elif mine:
                        collisions += 1
                        y[0] = x[0]
        chk.notes.append("%s: the model reported %d operations with a junk-key collision (no prediction; "
                         "same verdict as the harness's own computation)" % (where, collisions))
        chk.correspond(where, [describe(s, texts) for s in seqs], impl, outs)
    return seqs, runs


def history_round(chk, rng, model, nseq, rnd, t0):
    texts, ops = build_pool(rng)
    tables, base_by_id, parse_base, intern, njobs = measure(texts, ops, par=14)
    chk.notes.append("round %d: pool of %d operations, %d fresh interpreters for the baselines "
                     "(%.1fs since start)" % (rnd, len(ops), njobs, time.time() - t0))
    for f in range(7):
        chk.hist("texts_per_format", FMT[f] + ":%d" % len(texts[f]))
    per_kind = {}
    for o in ops:
        per_kind[o["k"]] = per_kind.get(o["k"], 0) + 1
    weights = [WEIGHT[o["k"]] / per_kind[o["k"]] for o in ops]
    seqs = []      # shortest sequences first: recorded failures are then minimal
    # targeted: every operation once directly after a state-heavy prefix
    heavy = [o for o in ops if o["k"] in ("parse", "compare")][:: max(1, len(ops) // 12)]
    for o in ops:
        if "fam" not in o or chk.thorough:      # family members are paired exhaustively below
            seqs.append([rng.choice(heavy), o])
    # exhaustive ordered pairs inside each family that shares a cache or a parser singleton
    fam = {}
    for o in ops:
        key = {"moz": "moz", "matcher": "matcher"}.get(o["k"])
        if o["k"] in ("filter", "reconfig"):
            key = "cfg%d" % o["c"]
        if o["k"] in ("parse", "rewalk") and "name" not in o and "file" not in o:
            key = "parser%d" % o["f"]
        if "fam" in o:
            key = o["fam"]        # same-language locales; names of one extension
        if key:
            fam.setdefault(key, []).append(o)
    for key, members in sorted(fam.items()):
        if not chk.thorough and key.split(":")[0] not in ("loc", "ext", "rep", "empty") \
                and not key.startswith("pfiles") \
                and len(members) ** 2 > 100:
            # quick tier: the generic families (one parser singleton, mozpath, Matcher, a
            # configuration) are sampled; the targeted families stay exhaustive
            allp = [[a, b] for a in members for b in members]
            seqs.extend(rng.sample(allp, 100))
            continue
        if key.startswith("pfiles"):
            for a in members:
                for b in members[:3]:
                    for c_ in members[:3]:
                        seqs.append([a, b, c_])
        for a in members:
            if len(members) > 14 and not chk.thorough and a["k"] not in ("getparser", "compare", "parse"):
                continue      # quick tier, big family: only the cheap kinds as the first operation
            if key == "rep:dtd" and not chk.thorough and not (
                    a["k"] == "compare" and "android-dtd" in (extra_of(a) or ())):
                continue      # quick tier: an android-dtd comparison first, then every DTD operation
            if key.startswith("empty:") and not chk.thorough and not a.get("lead"):
                continue      # quick tier: a non-empty file first, then every empty-file operation
            for b in members:
                seqs.append([a, b])
    # random histories
    for i in range(nseq):
        n = 30 if i % 15 == 14 else rng.randint(2, 6)
        seqs.append(draw_history(rng, ops, weights, n))
    seqs, runs = check_histories(chk, model, texts, seqs, tables, base_by_id, parse_base, intern,
                                 "HISTORY" if rnd == 0 else "HISTORY-round%d" % rnd)
    chk.notes.append("round %d: %d sequences, %d operations in total (%.1fs since start)"
                     % (rnd, len(seqs), sum(len(s) for s in seqs), time.time() - t0))
    if rnd == 0 and seqs:
        chk.sample({"suite": "HISTORY", "sequence": describe(seqs[0], texts),
                    "results": [r["res"] for r in runs[0]["ops"]]})
    return texts, ops


def run(chk, runner_ok):
    rng = chk.rng
    model = Model("C18") if runner_ok else None
    check_parser_table()
    inventory_obligation(chk)
    if os.environ.get("VERIF_C18_PROPOSED_FINDINGS") == "1":
        chk.known.extend(f for f in PROPOSED_FINDINGS
                         if not any(k["signature"] == f["signature"] for k in chk.known))
        chk.notes.append("VERIF_C18_PROPOSED_FINDINGS=1: the three proposed findings are treated as listed")
    try:
        # getParser falls back to pkg_resources when no pattern matches; importing it here once (a
        # third-party module, no state of the package) spares every forked child the import
        import warnings
        with warnings.catch_warnings():
            warnings.simplefilter("ignore")
            import pkg_resources  # noqa
    except Exception:  # noqa
        pass
    t0 = time.time()
    # ---- the minimal witnesses of the known history dependences (always first) ----
    witnesses(chk)
    # ---- corpus: minimised past disagreements ---------------------------------------
    cdir = os.path.join(common.VERIF, "corpus", "C18")
    for name in sorted(os.listdir(cdir)) if os.path.isdir(cdir) else []:
        if name.endswith(".json"):
            texts, ops, seq = undescribe(json.load(open(os.path.join(cdir, name)))["sequence"])
            tables, base_by_id, parse_base, intern, _ = measure(texts, ops, par=8)
            check_histories(chk, model, texts, [seq], tables, base_by_id, parse_base, intern,
                            "CORPUS-" + name[:-5])
    # ---- histories: per round a new pool, its fresh baselines, its sequences -----------
    rounds = chk.n(1, 3)
    for rnd in range(rounds):
        texts, ops = history_round(chk, rng, model, chk.n(600, 6000) // rounds, rnd, t0)
    if model is not None:
        # junk key rendering
        ks = [(rng.randint(0, 5000), rng.randint(0, 300), rng.randint(0, 300)) for _ in range(200)] + \
             [(0, 0, 0), (10, 100, 1000), (9, 99, 999)]
        outs = model.call([(1, list(k)) for k in ks])
        chk.correspond("JUNK-KEY", [list(k) for k in ks],
                       [common.s2l("_junk_%d_%d-%d" % k) for k in ks], outs)
    stepcfg_suite(chk)
    # ---- multi-file runs -------------------------------------------------------------
    for u in range(chk.n(1, 4)):
        prefix = draw_history(rng, [o for o in ops if o["k"] in ("parse", "compare", "lint", "filter", "moz")],
                              None, rng.randint(2, 5)) if u else []
        union_suite(chk, rng, model, prefix, texts, u)
    chk.notes.append("union suites done %.1fs since start" % (time.time() - t0))
    chk.trusted.append("fresh interpreter = `python -m harness.props.c18 --baseline` per operation; "
                       "histories run in children forked from a parent that has only imported the package")
    chk.trusted.append("modelled only: which process state each operation reads/writes; the purity of the "
                       "parsers / checkers / serializers in their arguments is established by execution "
                       "(oracle), as is the absence of state inside expat, minidom, fluent.syntax")


def undescribe(desc):
    """the inverse of describe(): texts registry and operation specs of a recorded sequence"""
    texts = {f: [] for f in range(8)}
    ops = []

    def tid(f, t):
        if t not in texts[f]:
            texts[f].append(t)
        return texts[f].index(t)
    for d in desc:
        o = dict(d)
        if "f" in o:
            o["f"] = FMT.index(o["f"])
            for fld in ("t", "ref", "l10n", "cur", "old"):
                if fld in o and o[fld] is not None:
                    o[fld] = tid(o["f"], o[fld])
            if "rs" in o:
                o["rs"] = [tid(o["f"], t) for t in o["rs"]]
        ops.append(o)
    # every text also as a parse operation (the model's walk table needs it)
    seq = list(ops)
    for f in range(7):      # not the texts of names without a parser
        for i in range(len(texts[f])):
            ops.append({"k": "parse", "f": f, "t": i})
    for i, o in enumerate(ops):
        o["id"] = i
    return texts, ops, seq


def replay(chk, path):
    """re-run the recorded failing sequences: each in a forked child against fresh interpreters"""
    data = json.load(open(path))
    model = Model("C18") if os.path.exists(os.path.join(common.BIN, "model_C18")) else None
    check_parser_table()
    n = 0
    for f in data.get("failures", []):
        print("recorded:", f["signature"])
        case = f["case"]
        if not (isinstance(case, dict) and isinstance(case.get("sequence"), list)
                and case["sequence"] and isinstance(case["sequence"][0], dict)):
            continue
        texts, ops, seq = undescribe(case["sequence"])
        tables, base_by_id, parse_base, intern, _ = measure(texts, ops, par=6)
        check_histories(chk, model, texts, [seq], tables, base_by_id, parse_base, intern, "REPLAY")
        n += 1
    for d in data.get("disagreements", []):
        print("recorded disagreement in suite", d["suite"])
        if d["suite"].startswith("HISTORY") and isinstance(d["case"], list):
            texts, ops, seq = undescribe(d["case"])
            tables, base_by_id, parse_base, intern, _ = measure(texts, ops, par=6)
            check_histories(chk, model, texts, [seq], tables, base_by_id, parse_base, intern, "REPLAY")
            n += 1
    if any(f["signature"] in [p["signature"] for p in PROPOSED_FINDINGS] for f in data.get("failures", [])):
        witnesses(chk)
    for f in chk.failures:
        print("still fails:", f["signature"], json.dumps(f["case"])[:1500])
        print("   ", json.dumps(f["detail"])[:1500])
    for info in chk.known_seen.values():
        print("still fails (listed finding):", info["finding"]["signature"], "x", info["n"])
    for d in chk.disagreements:
        print("still disagrees with the model:", json.dumps(d)[:2000])
    print("replayed %d sequence(s): %d failing, %d model disagreement(s)"
          % (n, len(chk.failures) + len(chk.known_seen), len(chk.disagreements)))
    return 1 if chk.failures or chk.known_seen or chk.disagreements else 0


if __name__ == "__main__":
    if "--baseline" in sys.argv:
        baseline_main()
