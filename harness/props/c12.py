"""C12 — pattern expansion, matching and prefix are mutually consistent.

Suites
  RX[c11]         engine + translator on the regexes of the matcher and of mozpath.match
  VIEWS           str / prefix / match on both sides of generated pattern pairs, on filled
                  and broken paths; with_env, concat, ==, paths.matcher.expand
  EXPAND          fully bound patterns (no wildcards): str, match of the expansion
  ANDROID-LOCALE  BCP 47 -> resource qualifier -> BCP 47 on language x {none, script,
                  region, both}: all 676 two-letter codes and the legacy cases always,
                  random three-letter codes (all 17 576 in the thorough tier)
  MOZPATH         mozpath.match on generated glob patterns and paths; GLOB-REGEX: the
                  structure of the regular expression it compiles
Oracles (implementation only, expected value known by construction)
  expansion = the rendering; match of the expansion = the bindings; every matched path
  starts with the prefix; a star never holds '/', a double star holds whole directories;
  a path with the wrong number of separators / a foreign head or tail does not match;
  expansion with self- and mutually-referential variables returns the cut the
  MissingEnvironment rule gives; Android round trip is the identity on the grammar.
"""
import itertools
import json
import string

from harness import common, rxsuite
from harness import matcherlib as ml
from harness.common import Model, canon

FACTS = ("tables", "c11")
RUNNERS = ["RX"]

RULE = ("the pattern/environment/path generators of C11 (grammar, loose and raw streams) "
        "observed through str, prefix, match, with_env, concat, ==, expand; fully bound "
        "patterns; language codes: every two-letter code, the legacy codes, seeded (quick) or all "
        "(thorough) three-letter codes, each x {none, script, region, both}; glob patterns over "
        "{literal, *, **, /} with filled and broken paths; distinct by full input; non-trivial = "
        "has a wildcard, a variable, a subtag or a glob star")

LEGACY = {"he": "iw", "id": "in", "yi": "ji"}


# ------------------------------------------------------------------ VIEWS ---
def must_not_match(c, atoms, env, side, kind, path, base):
    """by construction: in-grammar, bound side; `base` is the filled path"""
    nss = sum(1 for a in atoms if a[0] == "SS")
    if any(a[0] == "SS" and a[1] == "" for a in atoms):
        return False
    if "\n" in path:
        return False
    if nss == 0 and path.count("/") != base.count("/"):
        return True
    if nss == 1 and path.count("/") < base.count("/") - sum(
            f.count("/") for a, f in zip(c.wild, c.fills) if a[0] == "SS"):
        return True
    last, first = atoms[-1], atoms[0]
    if last[0] == "L" and not path.endswith(last[1]):
        return True
    if first[0] == "L" and side[2] is None and not path.startswith(first[1]):
        return True
    return False


def run_views(chk, model, cases, suite):
    rng = chk.rng
    reqs, impl, desc = [], [], []
    for c in cases:
        if not ml.ascii_names_only(c.a[0], c.b[0], *[v for _, v in c.a[1] + c.b[1]]):
            continue
        for which, side, atoms, env in (("a", c.a, c.atoms_a, c.enva), ("b", c.b, c.atoms_b, c.envb)):
            sx = ml.side_sx(side)
            base = ml.expected_path(c, which, c.fills)
            paths = [("filled", base)] + ml.break_path(rng, base) if base is not None else \
                [("raw", ml.rand_path(rng))]
            got_str, got_prefix = ml.impl_str(side), ml.impl_prefix(side)
            desc += [("str", side), ("prefix", side)]
            impl += [got_str, got_prefix]
            reqs += [(5, sx), (4, sx)]
            chk.hist("prefix", "raise-%s" % (got_prefix[1],) if got_prefix[0] else "ok")
            grammar = c.grammar
            if grammar and got_prefix[0] != 0:
                chk.fail("prefix-raised", {"side": side}, {"got": got_prefix})
            if grammar and got_prefix[0] == 0:
                # by construction: the text before the first wildcard
                want = ml.render_prefix(atoms, env)
                want = ml.root_prefix_atoms(side, atoms, env) + want
                if common.l2s(got_prefix[1]) != want:
                    chk.fail("prefix-not-the-leading-text", {"side": side}, {
                        "got": common.l2s(got_prefix[1]), "expected": want})
            for kind, path in paths:
                chk.count((side, path))
                chk.hist("path_kind", kind)
                got = ml.impl_match(side, path)
                desc.append(("match", side, path))
                impl.append(got)
                reqs.append((2, sx + [canon(path)]))
                matched = got[0] == 0 and got[1]
                chk.hist("match", "raise-%s" % (got[1],) if got[0] else ("match" if got[1] else "none"))
                if matched:
                    d = {common.l2s(k): (common.l2s(v[0]) if v else None) for k, v in got[1][0]}
                    if not any("*" in v for _, v in side[1]) and not any(
                            k.startswith("s") and k[1:].isdigit() for k, _ in side[1]):
                        ml.check_kinds(chk, side, path, d, kind)
                    ml.check_prefix(chk, side, path, kind)
                if not grammar:
                    continue
                if kind == "filled":
                    okm, d = ml.try_match(chk, side, path, "expansion-not-matched")
                    if not okm:
                        continue
                    want = {"s%d" % (i + 1): f for i, f in enumerate(c.fills)}
                    for a in atoms:
                        if a[0] == "V":
                            want[a[1]] = env.resolved[a[1]]
                    if d is None or any((d.get(k) or "") != v for k, v in want.items()):
                        chk.fail("expansion-not-matched", {"side": side, "path": path}, {"got": d, "want": want})
                elif matched and must_not_match(c, atoms, env, side, kind, path, base):
                    chk.fail("incomplete-path-matched", {"side": side, "path": path, "kind": kind,
                                                         "filled": base}, {"got": got[1]})
        # constructed matchers
        path = ml.expected_path(c, "a", c.fills) or ml.rand_path(rng)
        sa, sb = ml.side_sx(c.a), ml.side_sx(c.b)
        extra = rng.sample(c.b[1], min(len(c.b[1]), 2))
        desc.append(("with_env", c.a, extra, path))
        impl.append(ml.impl_views(lambda: ml.mk(c.a).with_env(dict(extra)), path))
        reqs.append((10, sa + [[[canon(k), canon(v)] for k, v in extra], canon(path)]))
        tail = (c.b[0], c.b[1], None)
        desc.append(("concat", c.a, tail, path))
        impl.append(ml.impl_views(lambda: ml.mk(c.a).concat(ml.mk(tail)), path))
        reqs.append((11, sa + ml.side_sx(tail)[:2] + [canon(path)]))
        other = rng.choice([c.a, c.b, (c.a[0], c.b[1], c.a[2]), (c.a[0], c.a[1], None),
                            (c.a[0], c.a[1][:1], c.a[2])])
        desc.append(("eq", c.a, other))
        impl.append(ml.impl_result(lambda: ml.mk(c.a) == ml.mk(other), int))
        reqs.append((12, sa + ml.side_sx(other)))
        from compare_locales.paths import matcher as M
        if c.a[2] is not None or rng.random() < 0.3:
            desc.append(("expand", c.a))
            impl.append(ml.impl_result(lambda: M.expand(c.a[2], c.a[0], dict(c.a[1]))))
            reqs.append((13, [sa[2], sa[0], sa[1]]))
    if model:
        outs = model.call(reqs)
        chk.correspond(suite, desc, impl, outs)


# ----------------------------------------------------------------- EXPAND ---
def run_expand(chk, model):
    rng = chk.rng
    reqs, impl, desc = [], [], []
    for i in range(chk.n(3000, 25000)):
        exotic = i % 3 == 0
        env = ml.gen_env(rng, exotic)
        names = [n for n in env.resolved if n not in ("topdir", "loc2")]
        if exotic and rng.random() < 0.3:
            names.append("nowhere")
        atoms = ml.fix_empty_lead(ml.gen_side(rng, [], names, lead_var=0.6), env)
        side = (ml.atoms_text(atoms), list(env.pairs), rng.choice([None, None, None, "/r"]))
        if not ml.ascii_names_only(side[0], *[v for _, v in side[1]]):
            continue
        sx = ml.side_sx(side)
        got = ml.impl_str(side)
        chk.count(("expand", side))
        chk.hist("expand", "raise-%s" % (got[1],) if got[0] else "ok")
        full = ml.render(atoms, env, [])
        # expansion: the rendering, or the cut at the first variable without a value
        cut = ml.render_prefix(atoms, env)
        first_bad = next((a for a in atoms if (a[0] == "V" and env.resolved.get(a[1]) is None)
                          or (a[0] == "A" and env.resolved.get("locale") is None)), None)
        odd = any(n in env.resolved for n in ("st", "android_locale"))
        if not odd and not (side[2] and first_bad is atoms[0]):
            want = ml.root_prefix_atoms(side, atoms, env) + cut
            if got[0] != 0 or common.l2s(got[1]) != want:
                chk.fail("expansion-wrong" if full is not None else "expansion-cut-wrong",
                         {"side": side}, {"got": got, "expected": want})
        desc.append(("str", side))
        impl.append(got)
        reqs.append((5, sx))
        if got[0] == 0:
            path = common.l2s(got[1])
            m = ml.impl_match(side, path)
            desc.append(("match-expansion", side, path))
            impl.append(m)
            reqs.append((2, sx + [canon(path)]))
            if full is not None and not odd and not ml.reuses_nested_variable(atoms, env) \
                    and not any(n in env.resolved for n in ("1a",)):
                # fully bound: the matcher matches its own expansion and returns the bindings
                okm, d = ml.try_match(chk, side, path, "expansion-not-matched")
                if not okm:
                    continue
                want = {a[1]: env.resolved[a[1]] for a in atoms if a[0] == "V"}
                if any(a[0] == "A" for a in atoms):
                    want["android_locale"] = ml.LOCALES[env.resolved["locale"]]
                if d is None or any(d.get(k) != v for k, v in want.items()):
                    chk.fail("expansion-not-matched", {"side": side, "path": path},
                             {"got": d, "want": want})
        if len(chk.samples) < 5 and i % 50 == 7:
            chk.sample({"suite": "EXPAND", "side": side, "str": got})
    if model:
        outs = model.call(reqs)
        chk.correspond("EXPAND", desc, impl, outs)
    # locale defined through {android_locale}: the one mutual reference the cycle cutting misses
    for val in ("{android_locale}", "x-{android_locale}", "{q}"):
        side = ("a/{android_locale}/b", [("locale", val), ("q", "{android_locale}")], None)
        got = ml.impl_str(side)
        chk.count(("android-cycle", side))
        if got == [1, 9]:
            chk.fail("expand-android-locale-cycle", {"side": side},
                     "RecursionError: AndroidLocale expands env['locale'] without removing it")
        if model:
            out = model.call([(5, ml.side_sx(side))])
            chk.correspond("EXPAND-android-cycle", [side], [got], out)


# --------------------------------------------------------- ANDROID-LOCALE ---
def to_android_impl(l):
    from compare_locales.paths.matcher import Matcher
    return str(Matcher("{android_locale}", {"locale": l}))


def to_bcp47_impl(a):
    from compare_locales.paths.matcher import Matcher
    d = Matcher("{android_locale}").match(a)
    return d["locale"]


def expected_android(lang, script, region):
    """written from the Android documentation, not from the code"""
    lang = LEGACY.get(lang, lang)
    if script:
        return "b+" + "+".join(x for x in (lang, script, region) if x)
    if region:
        return f"{lang}-r{region}"
    return lang


def run_android(chk, model):
    rng = chk.rng
    al = string.ascii_lowercase
    langs = ["".join(p) for p in itertools.product(al, repeat=2)]
    if chk.thorough:
        langs += ["".join(p) for p in itertools.product(al, repeat=3)]
    else:
        langs += ["".join(rng.choice(al) for _ in range(3)) for _ in range(chk.n(2000, 0))]
        langs += ["min", "che", "hei", "idu", "yid", "iwa", "inh", "jig", "ahe", "xid"]
    scripts = ["Latn", "Cyrl", "Hant", "Arab", "Rrrr", "Bbbb"]
    regions = ["US", "RS", "IL", "ID", "TW", "RR", "AB", "ZZ"]
    cases = []
    for lang in langs:
        s, r = rng.choice(scripts), rng.choice(regions)
        for script, region in ((None, None), (s, None), (None, r), (s, r)):
            cases.append((lang, script, region))
    # outside the grammar: compared with the model only
    odd = ["en-US-x", "EN-us", "b+en", "en-rUS", "he-he", "x-he", "he-", "-he", "e", "en--US",
           "en-USA", "en-419", "sr-Latn-RS-x", "iw-IL", "in", "ji-Latn", "en-r", "b+", "abcd-EF",
           "a-rBC", "he+IL", "en-US-rGB", "en-rUS-rGB"]
    reqs, impl, desc = [], [], []
    for lang, script, region in cases:
        l = "-".join(x for x in (lang, script, region) if x)
        chk.count(("android", l))
        try:
            a = to_android_impl(l)
            back = to_bcp47_impl(a)
        except Exception as e:  # noqa
            chk.fail("android-roundtrip-raised", {"locale": l}, repr(e))
            desc.append(l)
            impl.append([2, canon(type(e).__name__)])
            reqs.append((6, [canon(l)]))
            continue
        chk.hist("android_shape", ("script" if script else "") + ("region" if region else "") or "bare")
        desc.append(l)
        impl.append([[0, canon(a)], [0, canon(back)]])
        reqs.append((6, [canon(l)]))
        want = expected_android(lang, script, region)
        if lang in LEGACY.values():
            chk.hist("android_legacy_input", lang)
            continue            # iw / in / ji are not BCP 47 language codes: outside the grammar
        if a != want:
            chk.fail("android-qualifier-wrong", {"locale": l}, {"got": a, "expected": want})
        if back != l:
            chk.fail("android-roundtrip", {"locale": l}, {"android": a, "back": back})
    chk.sample({"suite": "ANDROID-LOCALE", "locale": "he-Latn-IL",
                "android_and_back": ml.impl_result(lambda: [to_android_impl("he-Latn-IL"), to_bcp47_impl(
                    to_android_impl("he-Latn-IL"))])})
    for l in odd:
        chk.count(("android-odd", l))
        desc.append(l)
        impl.append([ml.impl_result(lambda: to_android_impl(l)),
                     ml.impl_result(lambda: to_bcp47_impl(to_android_impl(l)))])
        reqs.append((6, [canon(l)]))
    if model:
        outs = model.call(reqs)
        chk.correspond("ANDROID-LOCALE", desc, impl, outs)
        # the way back on arbitrary qualifiers
        quals = odd + ["b+sr+Latn", "iw-rIL", "in", "ji-rUS-rGB", "b+iw", "b+b+x", "a-rBCD", "-rAB-rCD"]
        for _ in range(chk.n(300, 3000)):
            quals.append("".join(rng.choice(["b+", "+", "-r", "-", "iw", "in", "ji", "he", "AB", "U",
                                             "sr", "Latn", "x", "r"]) for _ in range(rng.randint(1, 5))))
        quals = [q for q in quals if q and "\n" not in q]
        impl = [ml.impl_result(lambda q=q: to_bcp47_impl(q)) for q in quals]
        outs = model.call([(7, [canon(q)]) for q in quals])
        chk.correspond("ANDROID-QUALIFIER", quals, impl, outs)


# ---------------------------------------------------------------- MOZPATH ---
GLOB_TOKENS = ["*", "**", "/", "/", "a", "b", "foo", ".", "-", "x*", "*y", "**/", "/**", "é", "$", "("]


# literal components with regex metacharacters -> a near miss that the unescaped text,
# read as a regular expression, would accept
META_SEGS = {"values-b+sr+Latn": "values-bbsr+Latn", "c++": "c", "app (copy)": "app copy", "a.b": "axb",
             "x[1]": "x1", "p?q": "q", "w|z": "w", "e^f": "ef", "{2}": "2"}


def glob_case(rng):
    """segments of a glob + a path made by filling it"""
    segs, fill = [], []
    for _ in range(rng.randint(1, 4)):
        k = rng.random()
        if k < 0.2:
            segs.append("**")
            fill.append([rng.choice(ml.DIR_NAMES) for _ in range(rng.choice([0, 1, 2]))])
        elif k < 0.5:
            pre, suf = rng.choice(["", "a", "x-"]), rng.choice(["", ".ftl", "b"])
            segs.append(pre + "*" + suf)
            fill.append([pre + rng.choice(["", "q", "a.b", "é"]) + suf])
        else:
            s = rng.choice(["a", "b", "foo", "f.ftl", "x-y", "$", "(a)"] + list(META_SEGS))
            segs.append(s)
            fill.append([s])
    return segs, fill


def run_mozpath(chk, model):
    from compare_locales import mozpath
    rng = chk.rng
    cases = []
    for _ in range(chk.n(3000, 25000)):
        segs, fill = glob_case(rng)
        pat = "/".join(segs)
        parts = [p for f in fill for p in f]
        path = "/".join(parts)
        has_ss = "**" in segs
        if any(a == "**" and b == "**" for a, b in zip(segs, segs[1:])):
            # the second of two adjacent `**` is read as two single stars (its '/' is consumed)
            cases.append((path, pat, None, "adjacent-starstar"))
            continue
        # `**` as the last segment needs at least one more component ("foo/**" does not match "foo")
        if not (segs[-1] == "**" and not fill[-1]) and not (len(segs) == 1 and segs[0] == "**" and not path):
            cases.append((path, pat, True, "filled"))
            cases.append((path + "/sub/f", pat, True, "descendant"))
        if not has_ss and len(parts) > 1:
            cases.append(("/".join(parts[:-1]), pat, False, "ancestor"))
        metas = [j for j, sg in enumerate(segs) if sg in META_SEGS]
        if metas and not any(a == "**" and b == "**" for a, b in zip(segs, segs[1:])):
            j = rng.choice(metas)
            k = sum(len(f) for f in fill[:j])
            near = parts[:k] + [META_SEGS[segs[j]]] + parts[k + 1:]
            if segs[j] not in near:
                # the literal component must be there verbatim
                cases.append(("/".join(near), pat, False, "meta-near-miss"))
            if segs[j] == "a.b" and not has_ss:
                cases.append(("/".join(parts[:k] + ["a", "b"] + parts[k + 1:]), pat, False, "meta-near-miss"))
            chk.hist("mozpath_meta", segs[j])
        if segs[-1] == "**" and len(segs) >= 2 and "*" not in segs[-2] and segs.count("**") == 1:
            # (with an earlier `**` the sibling path can match through another decomposition:
            #  `**/f.ftl/**` matches y/f.ftl/f.ftlx as y | f.ftl | f.ftlx — false alarm of the first version)
            # dir/** : a sibling whose name merely starts with the directory name is not below it
            k = sum(len(f) for f in fill[:-1])
            cases.append(("/".join(parts[:k]) + rng.choice(["x", "baz", "-2"]), pat, False, "sibling-of-dir"))
        if "*" not in segs[-1] and not has_ss:
            # the last component must match whole: foo/b does not match foo/bar
            cases.append((path + "x", pat, False, "extended-last"))
        if not has_ss and not segs[0].startswith("*"):
            cases.append(("q" + path, pat, None if segs[0].startswith("*") else False, "foreign-head"))
        cases.append((ml.rand_path(rng), pat, None, "random-path"))
        cases.append((path, "".join(rng.choice(GLOB_TOKENS) for _ in range(rng.randint(0, 6))), None, "random-glob"))
    cases += [("foo", "*", True, "doc"), ("foo", "f*", True, "doc"), ("foo", "fo*o", True, "doc"),
              ("foo/bar", "foo/*/bar", False, "doc"), ("foo/bar", "foo", True, "doc"),
              ("foo/bar", "foo/**/bar", True, "doc"), ("foo/bar", "**/bar", True, "doc"),
              ("foo", "", True, "doc"), ("foo\n", "foo", None, "newline"),
              ("ab", "a/**", False, "sibling-of-dir"), ("foo/barbaz", "foo/bar/**", False, "sibling-of-dir"),
              ("a/b", "a/**", True, "below-dir"), ("foo/bar/x/y", "foo/bar/**", True, "below-dir")]
    impl, reqs, gpats = [], [], []
    for path, pat, want, kind in cases:
        try:
            got = mozpath.match(path, pat)
        except Exception as e:  # noqa
            chk.count(("mozpath", path, pat))
            impl.append([2, canon(type(e).__name__)])
            reqs.append((8, [canon(path), canon(pat)]))
            if want is not None:
                chk.fail("mozpath-match-raised", {"path": path, "pattern": pat, "kind": kind}, repr(e))
            continue
        chk.count(("mozpath", path, pat))
        chk.hist("mozpath", kind + ("+" if got else "-"))
        impl.append([0, int(got)])
        reqs.append((8, [canon(path), canon(pat)]))
        if want is not None and got != want:
            chk.fail("mozpath-match-wrong", {"path": path, "pattern": pat, "kind": kind},
                     {"got": got, "expected": want})
        if pat and pat not in gpats:
            gpats.append(pat)
    chk.sample({"suite": "MOZPATH", "case": cases[5][:2], "impl": impl[5]})
    if model:
        outs = model.call(reqs)
        chk.correspond("MOZPATH", [c[:2] for c in cases], impl, outs)
        gi = []
        for pat in gpats:
            try:
                mozpath.match("x", pat)
                ast, _ = ml.rx2coq.parse(mozpath.re_cache[pat].pattern, 0)
                gi.append([0, ml.rx2coq.to_sx(ast)])
            except Exception as e:  # noqa
                gi.append([2, canon(type(e).__name__)])
        outs = model.call([(9, [canon(p)]) for p in gpats])
        chk.correspond("GLOB-REGEX", gpats, gi, outs)


# ------------------------------------------------- stars that are not a segment ---
def run_adjacent(chk, model):
    """`**` is a double star only as a whole path segment.  Two or three adjacent
    stars with more text in the same segment (l10n/de/**.ftl, {l}**.ftl,
    l10n/**-mac/a.ftl, l10n/de/***) are single stars: they stay inside one segment.
    Expected results by construction of the pattern text, not by the parser."""
    rng = chk.rng
    reqs, impl, desc = [], [], []
    for i in range(chk.n(400, 4000)):
        loc = rng.choice(["de", "fr", "sr-Latn"])
        head = rng.choice([("l10n/%s/" % loc, "l10n/%s/" % loc, []),
                           ("{l}", "l10n/%s/" % loc, [("l", "l10n/{locale}/"), ("locale", loc)]),
                           ("", "", []),
                           ("{base}/", "b/", [("base", "b")]),
                           ("a/x-", "a/x-", [])])
        nstars = rng.choice([2, 2, 3])
        after = rng.choice([".ftl", "-mac/a.ftl", "x", ".ftl/sub/f", "_*.ftl"]) if nstars == 2 else \
            rng.choice(["", ".ftl", "/a.ftl"])
        pat = head[0] + "*" * nstars + after
        fills = [rng.choice(["", "a", "q.b", "-", "mac"]) for _ in range(nstars + after.count("*"))]
        it = iter(fills)
        body = "".join(next(it) for _ in range(nstars))
        tail = "".join(next(it) if ch == "*" else ch for ch in after)
        good = head[1] + body + tail
        side = (pat, head[2], None)
        extra = [head[1] + "x/" + body + tail, head[1] + body + "/y" + tail if tail else head[1] + body + "/y",
                 head[1] + "x/y/" + body + tail]
        sx = ml.side_sx(side)
        for kind, path in [("filled", good)] + [("extra-dir", e) for e in extra]:
            chk.count(("adjacent", side, path))
            chk.hist("adjacent", kind)
            got = ml.impl_match(side, path)
            desc.append((side, path))
            impl.append(got)
            reqs.append((2, sx + [canon(path)]))
            if kind == "filled":
                okm, d = ml.try_match(chk, side, path, "adjacent-stars-not-matched")
                if okm and (d is None or "".join(d.get("s%d" % (k + 1)) or "" for k in range(nstars)) != body):
                    chk.fail("adjacent-stars-not-matched", {"side": side, "path": path}, {"got": d})
            elif path.count("/") != good.count("/") and got[0] == 0 and got[1]:
                chk.fail("star-matched-separator", {"side": side, "path": path, "filled": good},
                         {"got": ml.mk(side).match(path)})
    if model:
        outs = model.call(reqs)
        chk.correspond("ADJACENT-STARS", desc, impl, outs)


def run(chk, runner_ok):
    rng = chk.rng
    model = Model("C12") if runner_ok else None
    if runner_ok:
        rxsuite.run_rx(chk, groups=["c11"], per_regex=chk.n(40, 300))
    run_views(chk, model, [ml.gen_case(rng) for _ in range(chk.n(2500, 18000))], "VIEWS")
    run_views(chk, model, [ml.gen_case(rng, loose=True) for _ in range(chk.n(1500, 10000))], "VIEWS-loose")
    ml.run_stateful(chk, model, chk.n(500, 5000))
    run_adjacent(chk, model)
    ml.run_unbound_empty(chk, model, chk.n(200, 2000))
    ml.run_wild_first(chk, model, chk.n(150, 1500))
    ml.run_equality(chk, model, chk.n(600, 6000))
    run_expand(chk, model)
    run_android(chk, model)
    run_mozpath(chk, model)


def replay(chk, path):
    data = json.load(open(path))
    rc = 0
    for f in data.get("failures", []):
        c, sig = f["case"], f["signature"]
        print("case", sig, json.dumps(c, ensure_ascii=True)[:600])
        still = True
        try:
            if sig.startswith("android") and "locale" in c:
                still = to_bcp47_impl(to_android_impl(c["locale"])) != c["locale"]
            elif sig == "mozpath-match-wrong":
                from compare_locales import mozpath
                still = mozpath.match(c["path"], c["pattern"]) == f["detail"]["got"]
            elif sig == "expand-android-locale-cycle":
                s = c["side"]
                still = ml.impl_str((s[0], [tuple(x) for x in s[1]], s[2])) == [1, 9]
            elif "side" in c and "path" in c:
                s = c["side"]
                side = (s[0], [tuple(x) for x in s[1]], s[2])
                got = ml.impl_match(side, c["path"])
                print("  match now:", got)
        except Exception as e:  # noqa
            print("  raised", repr(e))
        print(" ->", "still fails" if still else "passes now")
        rc |= bool(still)
    for d in data.get("disagreements", []):
        print("disagreement", json.dumps(d, ensure_ascii=True)[:600])
        rc = 1
    return int(rc)
