"""C15 — cross-channel merge (merge.py merge_channels / merge_resources / merge_two).

Suites
  CHANNELS        1-4 versions of a file derived from a common record pool by
                  add / remove / re-value / reorder / comment edits, for
                  .properties, .dtd, .ini, .ftl, .inc and Android strings.xml
                  (newline-terminated, junk-free); the model is fed the
                  implementation's own parse (kinds, keys, texts) of every version
                  and must produce the bytes merge_channels produces.
  CHANNELS-entries  merge_resources(parser, [bytes...], keep_newest=True/False)
                  entry lists (kind, key, text) against the model's.
  GETPARSER       file names -> which parser getParser selects / none
                  (MergeNotSupportedError); engine on the generated dispatch table.
Oracle (implementation only): expected item sequence and key -> (value, comment)
map computed from the RECORDS the versions were rendered from (newest wins;
newest order; older-only items after the neighbour they followed, by an
independent grouping algorithm); the output is re-parsed with the real parser:
no junk, every key exactly once; a single version and identical versions come
back byte-identical (Android: parse-identical); unsupported names raise
MergeNotSupportedError.

This module also holds the record pool / renderers / parse helpers shared with
harness/props/c16.py.
"""
import json
import re

from harness import common
from harness.common import Model, s2l

FACTS = ("tables", "parser", "c02", "c15")
RUNNERS = ["RX"]

RULE = ("seeded version lists (1-4 versions, newest first) rendered from record lists "
        "(entities with optional attached comment, standalone comments, sections, blank lines) "
        "per format, each older version derived from the newer one by add/remove/re-value/"
        "reorder/comment edits; plus identical-copy lists, single versions and unsupported "
        "file names; a case is distinct by (format, version texts)")

FORMATS = ["properties", "dtd", "ini", "ftl", "inc", "android", "po"]
FNAME = {"properties": "browser/foo.properties", "dtd": "foo.dtd", "ini": "x/foo.ini",
         "ftl": "foo.ftl", "inc": "defines.inc", "android": "res/values/strings.xml",
         "po": "de/foo.po"}     # po: keys are (msgid, msgctxt) tuples, see key_str
PARSER_CODE = {"android": 0, "dtd": 1, "properties": 2, "ini": 3, "inc": 4, "ftl": 5, "po": 6}

K_ENTITY, K_COMMENT, K_WHITE, K_JUNK, K_STICKY, K_OTHER, K_PLACEHOLDER, K_SECTION = range(8)


# ------------------------------------------------------------ implementation ---
def get_parser(name):
    from compare_locales import parser
    return parser.getParser(name)


def walk_bytes(name, data):
    p = get_parser(name)
    p.readContents(data)
    return list(p.walk())


def ckind(e):
    from compare_locales import parser as P
    from compare_locales.parser.base import PlaceholderEntity, StickyEntry
    if isinstance(e, P.Comment):
        return K_COMMENT
    if isinstance(e, P.Whitespace):
        return K_WHITE
    if isinstance(e, P.Junk):
        return K_JUNK
    if isinstance(e, PlaceholderEntity):
        return K_PLACEHOLDER
    if isinstance(e, P.Entity):
        return K_ENTITY
    if isinstance(e, StickyEntry):
        return K_STICKY
    if isinstance(e, P.IniSection):
        return K_SECTION
    if isinstance(e, P.Entry):
        return K_OTHER
    raise TypeError(type(e))


class Ids:
    """object identity -> small natural"""

    def __init__(self):
        self.m = {}
        self.keep = []

    def of(self, obj):
        k = id(obj)
        if k not in self.m:
            self.m[k] = len(self.m) + 1
            self.keep.append(obj)       # keep alive: id() values must not be reused
        return self.m[k]


def key_str(key):
    """entity keys as strings: a PO key is the tuple (msgid, msgctxt); the models only
    compare keys, any injective rendering will do"""
    if isinstance(key, tuple):
        return key[0] if key[1] is None else key[0] + "\x04" + key[1]
    return key


def centry(e, ids=None):
    """[kind, key, text, raw_val, identity] as Model/Channels.v centry_of_sx reads it"""
    k = ckind(e)
    if k == K_COMMENT:
        key = e.val
    elif k == K_WHITE:
        key = ""
    else:
        key = key_str(e.key)
    if not isinstance(key, str):
        raise TypeError("non-str key %r" % (key,))
    val = e.raw_val if k in (K_ENTITY, K_PLACEHOLDER) and isinstance(e.raw_val, str) else ""
    return [k, s2l(key), s2l(e.all), s2l(val), ids.of(e) if ids else 0]


def impl_merge(name, versions):
    """merge_channels on bytes -> [0, code points] | [1, tag]"""
    from compare_locales.merge import merge_channels, MergeNotSupportedError
    try:
        out = merge_channels(name, [v.encode("utf-8") for v in versions])
    except MergeNotSupportedError:
        return [1, 11], None
    except Exception as e:  # noqa: any other exception is reported, not propagated
        return [1, common.TAGS.get(type(e).__name__, 99)], None
    text = out.decode("utf-8")
    return [0, s2l(text)], text


# ----------------------------------------------------------------- records ---
# items:  ("ent", key, value, comment|None)   ("com", text)   ("lic", text)
#         ("sec", name)   ("pi", text)   ("blank",)
VALUES = ["v", "some value", "x y  z", "100%", "a=b", "new: text", "it's", "Ünï", "0"]
COMMENTS = ["c one", "note", "c two", "same", "same", "todo: x"]


def render_value(fmt, rng, lang="L"):
    v = lang + rng.choice(VALUES)
    r = rng.random()
    if fmt == "properties":
        if r < 0.1:
            v += " \\u0041\\n"
        elif r < 0.2:
            v += " \\\n   cont"
    elif fmt == "dtd":
        if r < 0.15:
            v += " &amp; &foo;"
        elif r > 0.93:
            return ""                  # <!ENTITY k ""> / <!ENTITY k ''>: the empty value
        v = v.replace('"', "")
    elif fmt == "ftl":
        if r < 0.12:
            v += " { $n }"
        elif r < 0.2:
            v += "\n    second line"
    elif fmt == "android":
        v = v.replace("'", "\\'").replace("&", "&amp;").replace("<", "&lt;")
    elif fmt == "inc":
        v = v.replace("\n", " ")
    elif fmt == "po":
        # PoEntity.raw_val is the whole msgstr clause; string lists may span lines
        if r < 0.2 and " " in v:
            a, b = v.split(" ", 1)
            v = 'msgstr ""\n"%s "\n"%s"' % (a, b)
        else:
            v = 'msgstr "%s"' % v
    return v


def key_name(fmt, i):
    if fmt == "ftl":
        return ("-term%d" % i) if i % 7 == 6 else ("key-%d" % i)
    if fmt == "dtd":
        return "key.%d" % i
    if fmt == "inc":
        return "KEY_%d" % i
    if fmt == "android":
        return "key_%d" % i
    if fmt == "po":
        # key_str of (msgid, msgctxt): with context for some, one msgid in two contexts
        # one msgid without context, with the explicit empty context `msgctxt ""` and with a
        # non-empty one: three different keys (msgid, None), (msgid, ""), (msgid, "ctx")
        if i % 6 == 0:
            return "same id %d" % (i // 6)
        if i % 6 == 1:
            return "same id %d\x04" % (i // 6)
        if i % 6 == 2:
            return "same id %d\x04ctx" % (i // 6)
        return "key %d" % i + ("\x04menu %d" % i if i % 3 == 1 else "")
    return "key%d" % i


def comment_marker(fmt, text):
    if fmt == "ini":
        return ";" if len(text) % 2 else "#"
    return "#"


def render_comment(fmt, text):
    if fmt in ("dtd", "android"):
        return "<!-- %s -->" % text
    if fmt == "inc":
        return "# " + text
    if fmt == "po":
        return "#. " + text
    return "%s %s" % (comment_marker(fmt, text), text)


def comment_val(fmt, text):
    """what the parser's Comment.val is for render_comment(fmt, text)"""
    if fmt == "dtd":
        return " %s " % text
    if fmt == "android":
        return text
    if fmt == "ftl":
        return text
    if fmt == "inc":
        return text           # comment_offset = 2
    if fmt == "po":
        return "#. " + text + "\n"   # plain Comment: val is all, the regex takes the newline
    return " " + text         # OffsetComment, offset 1


def render_entity(fmt, key, value, style=0):
    if fmt == "properties":
        return "%s%s%s" % (key, [" = ", "=", ": "][style % 3], value)
    if fmt == "dtd":
        return '<!ENTITY %s "%s">' % (key, value)
    if fmt == "ini":
        return "%s=%s" % (key, value)
    if fmt == "inc":
        return "#define %s %s" % (key, value) if value is not None else "#define %s" % key
    if fmt == "ftl":
        if "\n" in value:
            return "%s =\n    %s" % (key, value)
        return "%s = %s" % (key, value)
    if fmt == "android":
        if value is None:
            return '<string name="%s"/>' % key
        return '<string name="%s">%s</string>' % (key, value)
    if fmt == "po":
        msgid, sep, ctx = key.partition("\x04")
        head = 'msgctxt "%s"\n' % ctx if sep else ""
        if style == 1 and " " in msgid:       # a multi-line string list evaluates to the same id
            a, b = msgid.split(" ", 1)
            return head + 'msgid ""\n"%s "\n"%s"\n%s' % (a, b, value)
        return head + 'msgid "%s"\n%s' % (msgid, value)
    raise ValueError(fmt)


def dtd_apos_keys(rng, items, p=0.4):
    return {it[1] for it in items if it[0] == "ent" and it[2] is not None and "'" not in it[2]
            and rng.random() < p}


def dtd_apos_apply(text, items, keys):
    """the DTD file [text] rendered from [items] with the values of [keys] quoted by
    apostrophes instead of double quotes"""
    for it in items:
        if it[0] == "ent" and it[1] in keys:
            text = text.replace(render_entity("dtd", it[1], it[2]),
                                "<!ENTITY %s '%s'>" % (it[1], it[2]), 1)
    return text


def dtd_apos(rng, text, items, p=0.4):
    return dtd_apos_apply(text, items, dtd_apos_keys(rng, items, p))


def render(fmt, items, style=0, indents=None):
    """newline-terminated, junk-free text of a record list; [indents]: key -> blanks in
    front of that entity's line (ini stream with indented keys; never in front of an
    entity with an attached comment: comment lines must start a line)"""
    ind = "  " if fmt == "android" else ""
    out = []
    for i, it in enumerate(items):
        t = it[0]
        if t == "ent":
            if it[3] is not None:
                out.append(ind + render_comment(fmt, it[3]) + "\n")
            own = indents.get(it[1], "") if indents and it[3] is None else ""
            out.append(ind + own + render_entity(fmt, it[1], it[2], style) + "\n")
        elif t == "com":
            # standalone: more than one newline after the comment (the PO comment regex
            # takes the comment's own newline)
            out.append(ind + render_comment(fmt, it[1]) + ("\n\n\n" if fmt == "po" else "\n\n"))
        elif t == "lic":
            # directly in front of an entity without a comment of its own: the
            # parser's License heuristic keeps it standalone; else a blank line
            nxt = items[i + 1] if i + 1 < len(items) else None
            glued = nxt is not None and nxt[0] == "ent" and nxt[3] is None
            out.append(render_comment(fmt, it[1]) + ("\n" if glued else "\n\n"))
        elif t == "sec":
            out.append("[%s]\n" % it[1])
        elif t == "pi":
            out.append("#%s\n" % it[1])
        elif t == "blank":
            out.append("\n")
        elif t == "junk":
            out.append(it[1])
    body = "".join(out)
    if fmt == "android":
        attrs = "".join(' %s="%s"' % (it[1], it[2]) for it in items if it[0] == "attr")
        return '<?xml version="1.0" encoding="utf-8"?>\n<resources' + attrs + '>\n' + body + \
            "</resources>\n"
    return body


# attributes of the Android root element (sticky DocumentWrapper entries keyed by name)
ATTR_POOL = [("xmlns:xliff", "urn:oasis:names:tc:xliff:document:1.2"),
             ("xmlns:tools", "http://schemas.android.com/tools"), ("tools", "t1"),
             ("xmlns:xliff", "urn:x2")]


def gen_items(fmt, rng, nkeys, lang="L", blanks=True):
    """a record list over keys 0..nkeys-1 (a random subset, random order)"""
    keys = [i for i in range(nkeys) if rng.random() < 0.75]
    if rng.random() < 0.5:
        rng.shuffle(keys)
    items = []
    loose = fmt != "inc" or blanks      # .inc: blank lines only under `#filter emptyLines`
    if fmt == "inc" and blanks:
        items.append(("pi", "filter emptyLines"))
        items.append(("blank",))
    if fmt in ("properties", "dtd", "ini") and rng.random() < 0.25:
        items.append(("lic", "License header " + rng.choice(["MPL", "2.0"])))
        if rng.random() < 0.5:
            items.append(("blank",))
    if fmt == "ini":
        items.append(("sec", "Strings"))
    if fmt == "android" and rng.random() < 0.4:
        # attributes of <resources>: sticky DocumentWrapper entries keyed by the attribute name
        items.append(("attr", "xmlns:xliff", "urn:x%d" % rng.randint(1, 2)))
        if rng.random() < 0.3:
            items.append(("attr", "tools", "t%d" % rng.randint(1, 2)))
    for k in keys:
        r = rng.random()
        if loose and r < 0.18:
            items.append(("com", rng.choice(COMMENTS)))
        elif loose and r < 0.3:
            items.append(("blank",))
        com = rng.choice(COMMENTS) if rng.random() < 0.3 else None
        items.append(("ent", key_name(fmt, k), render_value(fmt, rng, lang), com))
        if fmt == "ini" and rng.random() < 0.1:
            # a further section; half of the time named like an entity key of the pool
            sec = "Sec%d" % rng.randint(1, 2) if rng.random() < 0.5 else \
                key_name(fmt, rng.randrange(nkeys))
            if ("sec", sec) not in items:
                items.append(("sec", sec))
    if loose and rng.random() < 0.15:
        items.append(("com", rng.choice(COMMENTS)))
    if fmt == "inc" and blanks and rng.random() < 0.5:
        items.append(("blank",))
        items.append(("pi", "unfilter emptyLines"))
    return items


def edit_items(fmt, rng, items, nkeys, lang="L", blanks=True):
    """an older version: the newer one after a few random edits"""
    items = list(items)
    loose = fmt != "inc" or blanks
    for _ in range(rng.randint(0, 4)):
        ents = [i for i, it in enumerate(items) if it[0] == "ent"]
        r = rng.random()
        if r < 0.22 and ents:                       # remove an entity
            del items[rng.choice(ents)]
        elif r < 0.44:                              # add an entity from the pool
            have = {it[1] for it in items if it[0] == "ent"}
            free = [k for k in range(nkeys) if key_name(fmt, k) not in have]
            if free:
                pos = rng.randint(insert_floor(fmt, items), len(items))
                com = rng.choice(COMMENTS) if rng.random() < 0.3 else None
                items.insert(pos, ("ent", key_name(fmt, rng.choice(free)),
                                   render_value(fmt, rng, lang), com))
        elif r < 0.62 and ents:                     # re-value
            i = rng.choice(ents)
            items[i] = ("ent", items[i][1], render_value(fmt, rng, lang), items[i][3])
        elif r < 0.76 and ents:                     # reorder
            i = rng.choice(ents)
            it = items.pop(i)
            items.insert(rng.randint(insert_floor(fmt, items), len(items)), it)
        elif r < 0.86 and ents:                     # change / drop / add an attached comment
            i = rng.choice(ents)
            items[i] = items[i][:3] + (rng.choice(COMMENTS + [None, None]),)
        elif loose and r < 0.94:                    # add a standalone comment or a blank line
            pos = rng.randint(insert_floor(fmt, items), len(items))
            items.insert(pos, ("com", rng.choice(COMMENTS)) if rng.random() < 0.6 else ("blank",))
        elif r < 0.96 and fmt == "android" and rng.random() < 0.5:   # a root attribute only here
            have = {it[1] for it in items if it[0] == "attr"}
            free = [a for a in ATTR_POOL if a[0] not in have]
            if free:
                items.insert(0, ("attr",) + rng.choice(free))
        elif r < 0.96 and any(it[0] == "attr" for it in items):   # change / drop an attribute
            i = rng.choice([i for i, it in enumerate(items) if it[0] == "attr"])
            if rng.random() < 0.5:
                items[i] = ("attr", items[i][1], items[i][2] + "n")
            else:
                del items[i]
        else:                                       # remove a standalone comment / blank line
            idx = [i for i, it in enumerate(items) if it[0] in ("com", "blank")
                   and i >= insert_floor(fmt, items)]
            if idx:
                del items[rng.choice(idx)]
    return normalise(fmt, items)


def insert_floor(fmt, items):
    """first position where records may be inserted (after header items)"""
    n = 0
    for it in items:
        if it[0] in ("lic", "attr") or (it[0] == "sec" and it[1] == "Strings") or \
                (it[0] == "pi" and it[1] == "filter emptyLines"):
            n = items.index(it) + 1
    if fmt == "inc" and n and n < len(items) and items[n][0] == "blank":
        n += 1
    return n


def normalise(fmt, items):
    """keep the text junk-free: .inc must not end with records after `#unfilter`"""
    if fmt == "inc":
        tail = [it for it in items if it == ("pi", "unfilter emptyLines")]
        if tail:
            items = [it for it in items if it != ("pi", "unfilter emptyLines")]
            while items and items[-1][0] == "blank":
                items.pop()
            items += [("blank",), ("pi", "unfilter emptyLines")]
    return items


# ------------------------------------------------------------------- oracle ---
def expected_addremove(l, r):
    """keys of l in order; each key only in r after the last key before it in r
    that is also in l (in front when there is none), keeping their order"""
    ls = set(l)
    pre, fol, cur = [], {x: [] for x in l}, None
    for y in r:
        if y in ls:
            cur = y
        elif cur is None:
            pre.append(y)
        else:
            fol[cur].append(y)
    out = list(pre)
    for x in l:
        out.append(x)
        out.extend(fol[x])
    return out


def item_ids(fmt, items):
    """identities of the keyed items of a record list, in order"""
    out, seen = [], {}
    for it in items:
        if it[0] == "ent":
            out.append(("e", it[1]))
        elif it[0] in ("com", "lic"):
            v = comment_val(fmt, it[1])
            seen[v] = seen.get(v, 0) + 1
            out.append(("c", v, seen[v]))
        elif it[0] == "sec":
            out.append(("s", it[1]))
        elif it[0] == "pi":
            out.append(("p", it[1]))
    return out


def expected_merge(fmt, versions):
    """-> (item id sequence, key -> (value, attached comment))"""
    acc = item_ids(fmt, versions[0])
    for v in versions[1:]:
        acc = expected_addremove(acc, item_ids(fmt, v))
    vals = {}
    for v in versions:
        for it in v:
            if it[0] == "ent" and it[1] not in vals:
                vals[it[1]] = (it[2], it[3])
    return acc, vals


def parsed_items(fmt, entries):
    """item identities of a parsed entry list; ('junk', text) for junk"""
    out, seen = [], {}
    for e in entries:
        k = ckind(e)
        if k == K_JUNK:
            out.append(("junk", e.all))
        elif k in (K_ENTITY, K_PLACEHOLDER):
            out.append(("e", key_str(e.key)))
        elif k == K_COMMENT:
            seen[e.val] = seen.get(e.val, 0) + 1
            out.append(("c", e.val, seen[e.val]))
        elif k in (K_OTHER, K_SECTION):
            out.append(("s" if k == K_SECTION else "p", e.key))
    return out


def entity_facts(fmt, e):
    """(raw value, attached comment text or None) of a parsed entity"""
    pre = getattr(e, "pre_comment", None)
    com = None
    if fmt == "ftl":
        c = e.entry.comment
        com = None if c is None else c.content
        raw = None if e.val_span is None else e.raw_val
        # multi-line patterns: the value span starts on the next line
        if raw is not None and "\n" in raw:
            raw = raw.lstrip(" ")
        return raw, com
    if pre is not None:
        com = pre.val
    return e.raw_val, com


def flat_expected(fmt, versions, want_ids, want_vals):
    """expected item sequence with the attached comments written out as items"""
    out = []
    for w in want_ids:
        if w[0] == "e" and want_vals[w[1]][1] is not None:
            out.append(("c", comment_val(fmt, want_vals[w[1]][1])))
        out.append(w[:2])
    return out


def flat_parsed(fmt, entries):
    """parsed item sequence, comments split into lines, attached comments written out"""
    out = []
    for e in entries:
        k = ckind(e)
        if k == K_COMMENT:
            out.extend(("c", part) for part in e.val.split("\n"))
        elif k == K_ENTITY:
            _, com = entity_facts(fmt, e)
            if com is not None:
                out.extend(("c", part) for part in com.split("\n"))
            out.append(("e", key_str(e.key)))
        elif k in (K_OTHER, K_SECTION):
            out.append(("s" if k == K_SECTION else "p", e.key))
    return out


def classify_order(fmt, case, entries, want_ids, want_vals):
    """the one recognised family: a standalone comment of an older version loses the
    blank line after it (whitespace folding keeps the LONGER whitespace, which may
    have fewer newlines) and is glued to the entity or comment that follows it:
    all comment lines and keyed items are still there, in the expected order"""
    if flat_parsed(fmt, entries) == flat_expected(fmt, case["items"], want_ids, want_vals):
        return "merge-ws-fold-loses-blank-line"
    return "merge-order"


INI_LINE_START = "merge-ws-fold-ini-comment-leaves-line-start"
INC_REGION = "merge-inc-blank-lines-leave-filter-region"


def inc_safe_shape(versions):
    """version lists for which the merge keeps every empty line inside a filter region
    (C15_reparse_inc and the ordinary generator's shape): no version has an empty line or a
    standalone comment; or every version starts with `#filter emptyLines` and either none has
    `#unfilter emptyLines` or every version ends with it"""
    if all(it[0] not in ("blank", "com") for v in versions for it in v):
        return True
    def filters(v):
        return [i for i, it in enumerate(v) if it == ("pi", "filter emptyLines")]
    def unfilters(v):
        return [i for i, it in enumerate(v) if it == ("pi", "unfilter emptyLines")]
    if not all(filters(v) == [0] for v in versions):
        return False
    if all(unfilters(v) == [] for v in versions):
        return True
    return all(unfilters(v) == [len(v) - 1] for v in versions)


def classify_inc_junk(case, entries, want_ids, want_vals):
    """the one recognised family of junk in a merge of junk-free .inc versions: DefinesParser
    takes a run of more than one newline as Whitespace only between `#filter emptyLines` and
    `#unfilter emptyLines`; merge_channels reorders entries (the key order of the newest
    version wins), so an empty line of one version can land outside the filter region of the
    merged file when in some version `#filter emptyLines` is not the first item, or
    `#unfilter emptyLines` is not the last, or only some versions have it.  Recognised only
    when: every version is junk-free, the version list is not of a safe shape
    ([inc_safe_shape]), every junk entry of the output is a run of newlines, and the
    output with every newline run reduced to one newline re-parses junk-free to the expected
    items in the expected order.  Anything else stays merge-reparse-junk."""
    name = FNAME["inc"]
    for t in case["texts"]:
        if any(ckind(e) == K_JUNK for e in walk_bytes(name, t.encode("utf-8"))):
            return "merge-reparse-junk"
    if inc_safe_shape(case["items"]):
        return "merge-reparse-junk"
    if any(ckind(e) == K_JUNK and e.all.strip("\n") != "" for e in entries):
        return "merge-reparse-junk"
    out_text = "".join(e.all for e in entries)
    repaired = walk_bytes(name, re.sub(r"\n+", "\n", out_text).lstrip("\n").encode("utf-8"))
    if any(ckind(e) == K_JUNK for e in repaired):
        return "merge-reparse-junk"
    if flat_parsed("inc", repaired) == flat_expected("inc", case["items"], want_ids, want_vals):
        return INC_REGION
    return "merge-reparse-junk"


def classify_junk(fmt, case, entries, want_ids, want_vals):
    """the one recognised family of junk in a merge of junk-free versions: in an .ini file a
    comment no longer starts a line, because whitespace folding kept the LONGER whitespace
    in front of it, one that ends in the blanks that indented a key in another version.
    Every junk entry starts with a comment character and directly follows a whitespace
    entry that ends in blanks after a line break; with those blanks (and the blanks in front
    of further comment lines inside the junk text) taken away the text
    re-parses without junk to the expected comment lines and keyed items in the expected
    order.  Anything else stays merge-reparse-junk."""
    if fmt == "inc":
        return classify_inc_junk(case, entries, want_ids, want_vals)
    if fmt != "ini":
        return "merge-reparse-junk"
    pieces, prev = [], None
    for e in entries:
        if ckind(e) == K_JUNK:
            if prev is None or ckind(prev) != K_WHITE or e.all[:1] not in (";", "#"):
                return "merge-reparse-junk"
            w = pieces[-1]
            stripped = w.rstrip(" \t")
            if stripped == w or not stripped.endswith("\n"):
                return "merge-reparse-junk"
            pieces[-1] = stripped
            # further comments swallowed by the same Junk entry lost their line start the
            # same way (the whitespace in front of them is part of the junk text)
            pieces.append(re.sub(r"(?m)^[ \t]+(?=[;#])", "", e.all))
        else:
            pieces.append(e.all)
        prev = e
    repaired = walk_bytes(FNAME[fmt], "".join(pieces).encode("utf-8"))
    if any(ckind(e) == K_JUNK for e in repaired):
        return "merge-reparse-junk"
    if flat_parsed(fmt, repaired) == flat_expected(fmt, case["items"], want_ids, want_vals):
        return INI_LINE_START
    return "merge-reparse-junk"


def oracle_merge(chk, case, out_text):
    """the statement of C15 on one case, from the records"""
    fmt, versions = case["fmt"], case["items"]
    name = FNAME[fmt]
    want_ids, want_vals = expected_merge(fmt, versions)
    entries = walk_bytes(name, out_text.encode("utf-8"))
    got = parsed_items(fmt, entries)
    desc = {"fmt": fmt, "versions": case["texts"], "items": versions}
    junk = [g for g in got if g[0] == "junk"]
    if junk:
        chk.fail(classify_junk(fmt, case, entries, want_ids, want_vals), desc,
                 {"output": out_text, "junk": junk})
        return
    keys = [g[1] for g in got if g[0] == "e"]
    want_keys = [w[1] for w in want_ids if w[0] == "e"]
    if sorted(keys) != sorted(want_keys):
        chk.fail("merge-keys-once", desc, {"output": out_text, "keys": keys, "expected": want_keys})
        return
    # identical comments are told apart by their occurrence only while merging
    if [g[:2] for g in got] != [w[:2] for w in want_ids]:
        chk.fail(classify_order(fmt, case, entries, want_ids, want_vals), desc,
                 {"output": out_text, "items": got, "expected": want_ids})
        return
    for e in entries:
        if ckind(e) == K_ENTITY:
            raw, com = entity_facts(fmt, e)
            v, c = want_vals[key_str(e.key)]
            c = None if c is None else comment_val(fmt, c)
            if fmt == "ftl" and "\n" in v:
                pass
            if raw != v or com != c:
                chk.fail("merge-newest-wins", desc,
                         {"output": out_text, "key": key_str(e.key), "got": [raw, com], "expected": [v, c]})
                return
    same = all(t == case["texts"][0] for t in case["texts"])
    if same:
        if fmt == "android":
            a = [(ckind(e), e.key, e.all) for e in walk_bytes(name, case["texts"][0].encode("utf-8"))]
            b = [(ckind(e), e.key, e.all) for e in entries]
            if a != b:
                chk.fail("merge-identity-android", desc, {"output": out_text})
        elif out_text != case["texts"][0]:
            chk.fail("merge-identity", desc, {"output": out_text})


# --------------------------------------------------------------- generators ---
def gen_case(rng, fmt=None):
    fmt = fmt or rng.choice(FORMATS)
    nkeys = rng.randint(1, 9)
    blanks = rng.random() < 0.6
    r = rng.random()
    first = normalise(fmt, gen_items(fmt, rng, nkeys, blanks=blanks))
    if r < 0.1:
        versions = [first]
    elif r < 0.2:
        versions = [first] * rng.randint(2, 4)
    else:
        versions = [first]
        for _ in range(rng.randint(1, 3)):
            versions.append(edit_items(fmt, rng, versions[-1], nkeys, blanks=blanks))
    style = rng.randint(0, 2)
    texts = [render(fmt, v, style) for v in versions]
    if fmt == "dtd" and rng.random() < 0.5:
        texts = [dtd_apos(rng, t, v) for t, v in zip(texts, versions)]
    return {"fmt": fmt, "items": versions, "texts": texts}


def gen_indented_ini(rng):
    """an ordinary .ini case whose entities without attached comment are indented at random,
    independently per version (indentation in front of a key is whitespace to IniParser)"""
    case = gen_case(rng, "ini")
    texts = []
    for v in case["items"]:
        indents = {it[1]: rng.choice(["  ", "\t", "    ", " "]) for it in v
                   if it[0] == "ent" and rng.random() < 0.35}
        texts.append(render("ini", v, 0, indents))
    return {"fmt": "ini", "items": case["items"], "texts": texts}


def gen_inc_regions(rng):
    """junk-free .inc versions whose `#filter emptyLines` / `#unfilter emptyLines` sit anywhere:
    per version a random key order, one filter region [i, j) (open-ended without #unfilter),
    empty lines and standalone comments only inside it"""
    nkeys = rng.randint(1, 6)
    versions = []
    for _ in range(rng.randint(2, 3)):
        keys = [k for k in range(nkeys) if rng.random() < 0.8]
        if rng.random() < 0.5:
            rng.shuffle(keys)
        n = len(keys)
        i = rng.randint(0, n) if rng.random() < 0.7 else 0
        j = rng.randint(i, n)
        closed = rng.random() < 0.6
        has_filter = rng.random() < 0.85
        items = []
        for pos in range(n + 1):
            if has_filter and pos == i:
                items.append(("pi", "filter emptyLines"))
            if has_filter and closed and pos == j:
                items.append(("pi", "unfilter emptyLines"))
            if pos == n:
                break
            inside = has_filter and pos >= i and not (closed and pos >= j)
            if inside and rng.random() < 0.4:
                items.append(("blank",))
            if inside and rng.random() < 0.15:
                items.append(("com", rng.choice(COMMENTS)))
            items.append(("ent", key_name("inc", keys[pos]), render_value("inc", rng, "L"),
                          rng.choice(COMMENTS) if rng.random() < 0.2 else None))
        versions.append(items)
    texts = [render("inc", v) for v in versions]
    for t in texts:
        if not t or any(ckind(e) == K_JUNK for e in walk_bytes(FNAME["inc"], t.encode("utf-8"))):
            return None
    return {"fmt": "inc", "items": versions, "texts": texts}


# fixed cases of the ordinary stream (run through the same oracle as the generated ones):
# an .ini section named like an entity key (repaired in /repo: it used to lose the section)
FIXED_CASES = [
    ("ini", [[("sec", "a"), ("ent", "a", "1", None)]]),
    ("ini", [[("sec", "a"), ("ent", "a", "1", None)]] * 3),
    ("ini", [[("sec", "Strings"), ("ent", "a", "1", None), ("sec", "a"), ("ent", "b", "2", None)],
             [("sec", "Strings"), ("ent", "a", "0", None), ("sec", "a"), ("ent", "c", "3", "note"),
              ("ent", "b", "2", None)]]),
    ("ini", [[("sec", "a"), ("ent", "b", "1", None)], [("sec", "b"), ("ent", "a", "1", None)]]),
]


def fixed_cases():
    return [{"fmt": fmt, "items": vs, "texts": [render(fmt, v) for v in vs]} for fmt, vs in FIXED_CASES]


def model_versions(name, texts):
    return [[centry(e) for e in walk_bytes(name, t.encode("utf-8"))] for t in texts]


JUNK_MARK = "JUNKJUNK"
JUNK_LINE = {"properties": JUNK_MARK + " line\n", "dtd": "<!ENTITY " + JUNK_MARK + ">\n",
             "ini": JUNK_MARK + "\n", "inc": JUNK_MARK + "\n", "ftl": JUNK_MARK + "\n",
             "po": JUNK_MARK + "\n",
             "android": '  <plurals name="' + JUNK_MARK + '"></plurals>\n'}


def mutate(rng, text, fmt):
    """leave the property's domain: duplicate / delete lines, junk, missing final newline"""
    lines = text.splitlines(True)
    for _ in range(rng.randint(1, 3)):
        r = rng.random()
        if r < 0.3 and lines:
            lines.insert(rng.randint(0, len(lines)), rng.choice(lines))     # duplicate a line
        elif r < 0.5 and lines:
            del lines[rng.randrange(len(lines))]
        elif r < 0.7:
            lines.insert(rng.randint(0, len(lines)), JUNK_LINE[fmt])
        elif r < 0.85 and lines:
            i = rng.randrange(len(lines))
            if lines[i]:
                j = rng.randrange(len(lines[i]))
                lines[i] = lines[i][:j] + lines[i][j + 1:]
        else:
            lines.insert(rng.randint(0, len(lines)), rng.choice(["\n", "  \n", "\n\n"]))
    text = "".join(lines)
    if rng.random() < 0.2:
        text = text.rstrip("\n")
    return text


SMALL_LINES = ["a=1\n", "a=2\n", "b=1\n", "# c\n", "\n", "# d\n\n"]


def small_texts(maxlines):
    import itertools
    for n in range(maxlines + 1):
        for combo in itertools.product(SMALL_LINES, repeat=n):
            yield "".join(combo)


UNSUPPORTED = ["foo.txt", "strings.xm", "a.properties.bak", "foo.ftlx", "README", "x.inc.in",
               "foo.json", "dtd", "", "a.ini~"]
SUPPORTED_ODD = ["strings-foo.xml", "a/strings.xml", "foo.pot", "foo.po", "x.dtd", "mystrings.xml",
                 "a.properties", "b.ini", "c.inc", "d.ftl", "foo.properties\n", "strings\n.xml"]


# ------------------------------------------------------ SEQUENCE: names in one process ---
# Whether a name is supported is known from how the name is BUILT (never from asking the
# implementation, never from what was called before): the Android parser needs "strings"
# somewhere in front of a final ".xml", the others are chosen by the final extension.
SEQ_DIRS = ["", "res/values/", "a/b/", "l10n/de/"]
SEQ_SUPPORTED = [("strings.xml", "android"), ("strings-foo.xml", "android"), ("mystrings.xml", "android"),
                 ("strings_v2.xml", "android"), ("foo.po", "po"), ("foo.pot", "po"),
                 ("x.properties", "properties"), ("x.dtd", "dtd"), ("x.ini", "ini"),
                 ("x.inc", "inc"), ("x.ftl", "ftl")]
SEQ_UNSUPPORTED = [("foo.xml", "android"), ("main.xml", "android"), ("AndroidManifest.xml", "android"),
                   ("string.xml", "android"), ("layout/main.xml", "android"), ("foo.Xml", "android"),
                   ("foo.pox", "properties"), ("foo.potx", "properties"), ("foo.po.bak", "properties"),
                   ("foo.PO", "properties"), ("x.propertiesx", "properties"), ("x.dtdx", "dtd"),
                   ("x.inix", "ini"), ("x.incl", "inc"), ("x.ft", "ftl"), ("x.txt", "properties"),
                   ("x.unknown", "dtd"), ("noextension", "ini")]
PO_TEXT = 'msgid "a"\nmsgstr "b"\n'


def seq_names(rng, n):
    """n labelled names (name, format of the content handed over, supported?)"""
    out = []
    for _ in range(n):
        sup = rng.random() < 0.5
        base, fmt = rng.choice(SEQ_SUPPORTED if sup else SEQ_UNSUPPORTED)
        out.append((rng.choice(SEQ_DIRS) + base, fmt, sup))
    return out


def seq_sequences(rng, count):
    """call sequences: every supported/unsupported pair sharing an extension in both orders,
    then random interleavings"""
    seqs = []
    for sb, sf in SEQ_SUPPORTED:
        for ub, uf in SEQ_UNSUPPORTED:
            if sb.rsplit(".", 1)[-1].lower()[:2] == ub.rsplit(".", 1)[-1].lower()[:2]:
                seqs.append([(sb, sf, True), (ub, uf, False)])
                seqs.append([(ub, uf, False), (sb, sf, True)])
    for _ in range(count):
        seqs.append(seq_names(rng, rng.randint(3, 10)))
    return seqs


def run_sequences(chk, model):
    rng = chk.rng
    cases, impl, reqs = [], [], []
    for seq in seq_sequences(rng, chk.n(150, 1500)):
        history = []
        for name, fmt, sup in seq:
            case = gen_case(rng, fmt)
            res, text = impl_merge(name, case["texts"])
            chk.count(("seq", tuple(history), name, case["texts"]))
            desc = {"sequence_before": list(history), "name": name, "fmt": fmt,
                    "versions": case["texts"]}
            if not sup and res != [1, 11]:
                chk.fail("merge-unsupported-not-refused", desc,
                         {"result": res, "merged": text,
                          "why": "the name has no parser (known from how the name was built); "
                                 "merge_channels must raise MergeNotSupportedError whatever was "
                                 "merged before in this process"})
            if sup and text is None:
                chk.fail("merge-supported-refused", desc, {"result": res})
            if sup and text is not None and case["items"] is not None:
                oracle_merge(chk, case, text)
            history.append(name)
            cases.append(desc)
            impl.append(res)
            reqs.append((0, [s2l(name), model_versions(FNAME[fmt], case["texts"])]))
    if model:
        chk.correspond("SEQUENCE", cases, impl, model.call(reqs))


def run(chk, runner_ok):
    rng = chk.rng
    model = Model("C15") if runner_ok else None
    if runner_ok:
        from harness import rxsuite
        rxsuite.run_rx(chk, groups=["c15"])
    # ---- known finding witnesses (always replayed) ----------------------------
    run_witnesses(chk)
    # ---- CHANNELS -----------------------------------------------------------------
    n = chk.n(2000, 30000)
    cases, impl, reqs = [], [], []
    ereqs, eimpl, ecases = [], [], []
    fixed = fixed_cases()
    for i in range(n):
        if i < len(fixed):
            case = fixed[i]
        else:
            case = gen_case(rng, FORMATS[i % len(FORMATS)] if i < 600 else None)
        name = FNAME[case["fmt"]]
        res, text = impl_merge(name, case["texts"])
        chk.count(("ch", case["fmt"], case["texts"]))
        chk.hist("format", case["fmt"])
        chk.hist("versions", len(case["texts"]))
        if text is None:
            chk.fail("merge-raises", {"fmt": case["fmt"], "versions": case["texts"]}, res)
        else:
            oracle_merge(chk, case, text)
        cases.append({"fmt": case["fmt"], "versions": case["texts"]})
        impl.append(res)
        mv = model_versions(name, case["texts"])
        reqs.append((0, [s2l(name), mv]))
        if i % 4 == 0:
            keep = (i // 4) % 2 == 0
            ecases.append({"fmt": case["fmt"], "versions": case["texts"], "keep_newest": keep})
            eimpl.append(impl_entries(name, case["texts"], keep))
            if eimpl[-1][0] != 0:
                chk.fail("merge-raises", {"fmt": case["fmt"], "versions": case["texts"],
                                          "keep_newest": keep, "items": case["items"]},
                         {"merge_resources": eimpl[-1],
                          "why": "merge_resources / serialize_legacy_resource must not raise on "
                                 "junk-free versions"})
            ereqs.append((2, [int(keep), mv]))
        if i < 3:
            chk.sample({"suite": "CHANNELS", "format": case["fmt"], "versions": case["texts"],
                        "merged": text})
    if model:
        chk.correspond("CHANNELS", cases, impl, model.call(reqs))
        chk.correspond("CHANNELS-entries", ecases, eimpl, model.call(ereqs))
    # ---- CHANNELS-ini-indent: .ini versions with indented keys (junk-free); the listed finding
    # merge-ws-fold-ini-comment-leaves-line-start lives here
    icases, iimpl, ireqs = [], [], []
    for i in range(chk.n(400, 4000)):
        case = gen_indented_ini(rng)
        name = FNAME["ini"]
        res, text = impl_merge(name, case["texts"])
        chk.count(("chi", case["texts"]))
        if text is None:
            chk.fail("merge-raises", {"fmt": "ini", "versions": case["texts"]}, res)
        else:
            oracle_merge(chk, case, text)
        icases.append({"fmt": "ini", "versions": case["texts"]})
        iimpl.append(res)
        ireqs.append((0, [s2l(name), model_versions(name, case["texts"])]))
    if model:
        chk.correspond("CHANNELS-ini-indent", icases, iimpl, model.call(ireqs))
    # ---- CHANNELS-inc-regions: junk-free .inc versions with `#filter emptyLines` /
    # `#unfilter emptyLines` anywhere; the listed finding merge-inc-blank-lines-leave-filter-region
    rcases, rimpl, rreqs = [], [], []
    for i in range(chk.n(400, 4000)):
        case = gen_inc_regions(rng)
        if case is None:
            continue
        name = FNAME["inc"]
        res, text = impl_merge(name, case["texts"])
        chk.count(("chr", case["texts"]))
        if text is None:
            chk.fail("merge-raises", {"fmt": "inc", "versions": case["texts"]}, res)
        else:
            oracle_merge(chk, case, text)
        rcases.append({"fmt": "inc", "versions": case["texts"]})
        rimpl.append(res)
        rreqs.append((0, [s2l(name), model_versions(name, case["texts"])]))
    if model:
        chk.correspond("CHANNELS-inc-regions", rcases, rimpl, model.call(rreqs))
    # ---- CHANNELS-wild: outside the property's domain, model against implementation only
    wcases, wimpl, wreqs = [], [], []
    for i in range(chk.n(800, 8000)):
        case = gen_case(rng)
        fmt = case["fmt"]
        name = FNAME[fmt]
        texts = [mutate(rng, t, fmt) if rng.random() < 0.7 else t for t in case["texts"]]
        res, _ = impl_merge(name, texts)
        chk.count(("chw", fmt, texts))
        wcases.append({"fmt": fmt, "versions": texts})
        wimpl.append(res)
        wreqs.append((0, [s2l(name), model_versions(name, texts)]))
    # ---- CHANNELS-small: every pair of .properties files of up to N lines of a small alphabet
    a, b = chk.n((2, 2), (3, 2))
    olds = list(small_texts(b))
    scases, simpl, sreqs = [], [], []
    name = FNAME["properties"]
    parsed = {}
    for new in small_texts(a):
        for old in olds:
            res, _ = impl_merge(name, [new, old])
            chk.count(("chs", new, old))
            scases.append([new, old])
            simpl.append(res)
            for t in (new, old):
                if t not in parsed:
                    parsed[t] = model_versions(name, [t])[0]
            sreqs.append((0, [s2l(name), [parsed[new], parsed[old]]]))
    if model:
        chk.correspond("CHANNELS-wild", wcases, wimpl, model.call(wreqs))
        chk.correspond("CHANNELS-small", scases, simpl, model.call(sreqs))
    # ---- SEQUENCE: supported and unsupported names interleaved in this one process ---
    run_sequences(chk, model)
    # ---- unsupported names / parser dispatch ------------------------------------
    names = list(UNSUPPORTED) + list(SUPPORTED_ODD) + [FNAME[f] for f in FORMATS]
    alpha = ["strings", ".xml", ".dtd", ".properties", ".ini", ".inc", ".ftl", ".po", "t", "x",
             "/", "\n", ".", "a"]
    for _ in range(chk.n(300, 3000)):
        names.append("".join(rng.choice(alpha) for _ in range(rng.randint(0, 4))))
    gcases, gimpl = [], []
    body = "a = b\n"
    for nm in names:
        chk.count(("gp", nm))
        try:
            p = get_parser(nm)
            code = PARSER_CODE[{"AndroidParser": "android", "DTDParser": "dtd",
                                "PropertiesParser": "properties", "IniParser": "ini",
                                "DefinesParser": "inc", "FluentParser": "ftl",
                                "PoParser": "po"}[type(p).__name__]]
            gimpl.append([0, [code]])
        except UserWarning:
            gimpl.append([0, []])
            res, _ = impl_merge(nm, [body])
            if res != [1, 11]:
                chk.fail("merge-unsupported-not-refused", {"name": nm}, res)
        gcases.append(nm)
    for nm in UNSUPPORTED:
        res, _ = impl_merge(nm, [body, body])
        if res != [1, 11]:
            chk.fail("merge-unsupported-not-refused", {"name": nm}, res)
    if model:
        chk.correspond("GETPARSER", gcases, gimpl, model.call([(1, s2l(nm)) for nm in gcases]))
        # unsupported name through the model's merge_channels, and the empty version list
        ucases = [(nm, [body]) for nm in UNSUPPORTED] + [(FNAME["properties"], [])]
        uimpl = [impl_merge(nm, vs)[0] for nm, vs in ucases]
        outs = model.call([(0, [s2l(nm), model_versions(FNAME["properties"], vs)])
                           for nm, vs in ucases])
        chk.correspond("CHANNELS-unsupported", ucases, uimpl, outs)
    chk.trusted.append("parsing is an input of the merge model (tied by C01/C02): the model is fed "
                       "the implementation's own walk() of every version")
    chk.trusted.append("getParser: no `compare_locales.parsers` entry-point plugins are installed "
                       "(the pkg_resources fallback finds nothing)")


def impl_entries(name, texts, keep):
    from compare_locales.merge import merge_resources
    try:
        es = merge_resources(get_parser(name), [t.encode("utf-8") for t in texts],
                             keep_newest=keep)
        return [0, [[ckind(e), s2l(e.val if ckind(e) == K_COMMENT else
                                  ("" if ckind(e) == K_WHITE else key_str(e.key))), s2l(e.all)]
                    for e in es]]
    except Exception as e:  # noqa
        return [1, common.TAGS.get(type(e).__name__, 99)]


# ------------------------------------------------------------- known findings ---
WITNESSES = [
    # (signature, format, version texts)
    ("merge-ws-fold-loses-blank-line", "android",
     ['<?xml version="1.0" encoding="utf-8"?>\n<resources>\n  <string name="a">A</string>\n</resources>\n',
      '<?xml version="1.0" encoding="utf-8"?>\n<resources>\n  <!-- note -->\n\n</resources>\n']),
    ("merge-ws-fold-loses-blank-line", "properties",
     ["a = 1\n   b = 2\n", "a = 1\n# note\n\n"]),
    (INI_LINE_START, "ini", ["a=1\n;c\n\nb=2\n", "a=1\n\n  b=2\n"]),
    (INC_REGION, "inc", ["#filter emptyLines\n#unfilter emptyLines\n#define y 1\n",
                         "#filter emptyLines\n#define y 1\n\n#define z 2\n"]),
    (INC_REGION, "inc", ["#define y 1\n#filter emptyLines\n",
                         "#filter emptyLines\n#define y 1\n\n#define z 2\n"]),
]


def run_witnesses(chk, only=None):
    for sig, fmt, texts in WITNESSES:
        if only is not None and texts != only:
            continue
        res, text = impl_merge(FNAME[fmt], texts)
        if sig == "merge-ws-fold-loses-blank-line" and text is not None:
            entries = walk_bytes(FNAME[fmt], text.encode("utf-8"))
            standalone = [e for e in entries if ckind(e) == K_COMMENT]
            if not standalone:
                chk.fail(sig, {"fmt": fmt, "versions": texts},
                         {"output": text,
                          "why": "prune keeps the LONGER whitespace by len(): the blank line after "
                                 "the older version's standalone comment loses against the newer "
                                 "version's newline+indentation, the comment is glued to the entity"})


        if sig == INC_REGION and text is not None:
            entries = walk_bytes(FNAME[fmt], text.encode("utf-8"))
            junk = [e.all for e in entries if ckind(e) == K_JUNK]
            if junk and all(j.strip("\n") == "" for j in junk):
                chk.fail(sig, {"fmt": fmt, "versions": texts},
                         {"output": text, "junk": junk,
                          "why": "the older version's empty line follows a define that the newer "
                                 "version has outside its `#filter emptyLines` region; the merged "
                                 "order is the newer version's, so the empty line leaves the "
                                 "region and DefinesParser re-parses it as Junk"})
        if sig == INI_LINE_START and text is not None:
            entries = walk_bytes(FNAME[fmt], text.encode("utf-8"))
            junk = [e.all for e in entries if ckind(e) == K_JUNK]
            if junk:
                chk.fail(sig, {"fmt": fmt, "versions": texts},
                         {"output": text, "junk": junk,
                          "why": "prune keeps the LONGER whitespace by len(): the older version's "
                                 "blank line + key indentation beats the newer version's line "
                                 "break in front of the comment, which then does not start a "
                                 "line: IniParser's comment expression is anchored, the comment "
                                 "is Junk"})


def replay(chk, path):
    """re-run the recorded cases: oracle failures through the oracle, disagreements
    through implementation and model; 1 if anything still fails"""
    data = json.load(open(path))
    rc = 0
    sub = common.Check(chk.prop, chk.tier, chk.seed)
    sub.known = []
    for f in data.get("failures", []):
        c = f["case"]
        before = len(sub.failures)
        if "keep_newest" in c:
            res = impl_entries(FNAME[c["fmt"]], c["versions"], c["keep_newest"])
            if res[0] != 0:
                sub.fail("merge-raises", c, res)
        elif "items" in c:
            res, text = impl_merge(FNAME[c["fmt"]], c["versions"])
            if text is None:
                sub.fail("merge-raises", c, res)
            else:
                oracle_merge(sub, {"fmt": c["fmt"], "items": c["items"], "texts": c["versions"]}, text)
        elif "versions" in c and "name" not in c:
            run_witnesses(sub, only=c["versions"])
        elif "name" in c:
            # a name that must be refused, after the recorded calls in this process
            for nm in c.get("sequence_before", []):
                impl_merge(nm, c.get("versions", ["a = b\n"]))
            res, _ = impl_merge(c["name"], c.get("versions", ["a = b\n"]))
            if f["signature"] == "merge-supported-refused":
                if res[0] != 0:
                    sub.fail("merge-supported-refused", c, res)
            elif res != [1, 11]:
                sub.fail("merge-unsupported-not-refused", c, res)
        still = sub.failures[before:]
        print("recorded", f["signature"], "->", "still fails: " + still[0]["signature"] if still else "passes now")
        for x in still[:1]:
            print(json.dumps(x, indent=1, default=str)[:3000])
        rc |= bool(still)
    dis = data.get("disagreements", [])
    if dis:
        model = Model("C15")
        for d in dis:
            c = d["case"]
            if isinstance(c, dict) and "versions" in c:
                name = FNAME[c["fmt"]]
                res, _ = impl_merge(name, c["versions"])
                out = model.call([(0, [s2l(name), model_versions(name, c["versions"])])])[0]
                print("suite", d["suite"], "case", c, "impl", res[:1], "model", out[:1],
                      "agree" if res == out else "DISAGREE")
                rc |= res != out
            else:
                print("disagreement", d)
                rc = 1
    for o in data.get("broken_obligations", []):
        if o["kind"] in ("theorem", "build", "translator", "hygiene"):
            print("broken obligation:", o["name"], o["detail"][-500:])
            rc = 1
    return int(rc)
