"""C20 — AddRemove and KeyedTuple.

Suites
  ADDREMOVE-distinct  exhaustive pairs of sequences of distinct keys
  ADDREMOVE-dups      exhaustive pairs of sequences with repeats
  KEYED               entity lists with repeated keys, all key/position queries
Oracle (implementation only): the statement of the property, computed by an
independent grouping algorithm; hash-seed independence by re-running a sample
in interpreters started with different PYTHONHASHSEED.
"""
import itertools
import json
import os
import subprocess

from harness import common
from harness.common import Model, canon, impl_result

FACTS = ("pin_c20",)

RULE = ("exhaustive enumeration of key-sequence pairs over a small universe (distinct and "
        "repeating), keys rendered as str / tuple / mixed; plus seeded random longer pairs; "
        "a case is distinct by (suite, rendered input); all are non-trivial except the empty pair")

LABEL = {"equal": 0, "delete": 1, "add": 2}


def render_key(k, style):
    if style == 0:
        return "k%d" % k
    if style == 1:
        return ("m%d" % k, None if k % 2 else "ctx")
    return "k%d" % k if k % 2 else ("m%d" % k, "c")


def impl_addremove(l, r, style):
    from compare_locales.compare.utils import AddRemove
    keys = {render_key(k, style): k for k in set(l) | set(r)}
    ar = AddRemove()
    ar.set_left([render_key(k, style) for k in l])
    ar.set_right(render_key(k, style) for k in r)
    return [[LABEL[a], keys[k]] for a, k in ar]


def expected_addremove(l, r):
    """independent statement for distinct keys (the property's wording)"""
    ls = set(l)
    pre, fol, cur = [], {x: [] for x in l}, None
    for y in r:
        if y in ls:
            cur = y
        elif cur is None:
            pre.append(y)
        else:
            fol[cur].append(y)
    rs = set(r)
    out = [[2, y] for y in pre]
    for x in l:
        out.append([0 if x in rs else 1, x])
        out.extend([2, y] for y in fol[x])
    return out


def seqs_distinct(universe, maxlen):
    for n in range(maxlen + 1):
        yield from (list(p) for p in itertools.permutations(range(universe), n))


def seqs_any(universe, maxlen):
    for n in range(maxlen + 1):
        yield from (list(p) for p in itertools.product(range(universe), repeat=n))


class Ent:
    def __init__(self, key, payload):
        self.key, self.payload = key, payload


def impl_keyed(items, k, style):
    from compare_locales.keyedtuple import KeyedTuple
    ents = [Ent(render_key(a, style), b) for a, b in items]
    kt = KeyedTuple(ents)
    kk = render_key(k, style)
    contains = kk in kt

    def get():
        e = kt[kk]
        return [items[ents.index(e)][0], e.payload]
    got = impl_result(get)
    order = [e.payload for e in kt] == [b for _, b in items] and \
        list(kt.keys()) == [e.key for e in ents] and \
        [v.payload for _, v in kt.items()] == [b for _, b in items] and \
        list(kt.values()) == ents
    return [int(contains), got], order


def impl_keyed_pos(items, i):
    from compare_locales.keyedtuple import KeyedTuple
    ents = [Ent("k%d" % a, b) for a, b in items]
    kt = KeyedTuple(ents)

    def get():
        e = kt[i]
        return [items[ents.index(e)][0], e.payload]
    return impl_result(get)


def run(chk, runner_ok):
    rng = chk.rng
    model = Model("C20") if runner_ok else None
    # ---- AddRemove, distinct keys -------------------------------------
    u, ml = chk.n((4, 4), (5, 5))
    seqs = list(seqs_distinct(u, ml))
    cases = [(l, r) for l in seqs for r in seqs]
    for _ in range(chk.n(2000, 20000)):
        n = rng.randint(0, 12)
        uni = list(range(rng.randint(1, 14)))
        l = rng.sample(uni, min(len(uni), rng.randint(0, n)))
        r = rng.sample(uni, min(len(uni), rng.randint(0, n)))
        cases.append((l, r))
    impl = []
    for i, (l, r) in enumerate(cases):
        out = impl_addremove(l, r, i % 3)
        impl.append(out)
        chk.count(("ar", l, r))
        chk.hist("addremove_len", len(l) + len(r))
        if out != expected_addremove(l, r):
            chk.fail("addremove-order", {"left": l, "right": r, "style": i % 3},
                     {"got": out, "expected": expected_addremove(l, r)})
    chk.sample({"suite": "ADDREMOVE-distinct", "left": cases[777][0], "right": cases[777][1],
                "impl": impl[777]})
    if model:
        outs = model.call([(0, [l, r]) for l, r in cases])
        chk.correspond("ADDREMOVE-distinct", cases, impl, outs)
        spec = model.call([(1, [l, r]) for l, r in cases])
        chk.correspond("ADDREMOVE-spec-vs-impl", cases, impl, spec)
    # ---- AddRemove, repeated keys -------------------------------------
    u, ml = chk.n((3, 3), (3, 5))
    seqs = list(seqs_any(u, ml))
    cases = [(l, r) for l in seqs for r in seqs]
    impl = []
    for i, (l, r) in enumerate(cases):
        out = impl_addremove(l, r, i % 3)
        impl.append(out)
        chk.count(("ard", l, r))
        # what compare relies on: every key once, labelled by membership
        ks = [k for _, k in out]
        if sorted(ks) != sorted(set(l) | set(r)) or any(
                lab != (0 if k in l and k in r else 1 if k in l else 2) for lab, k in out):
            chk.fail("addremove-dups", {"left": l, "right": r}, {"got": out})
    if model:
        outs = model.call([(0, [l, r]) for l, r in cases])
        chk.correspond("ADDREMOVE-dups", cases, impl, outs)
    # ---- KeyedTuple ---------------------------------------------------
    ml = chk.n(4, 6)
    kcases = []
    for n in range(ml + 1):
        for ks in itertools.product(range(3), repeat=n):
            items = [[k, 100 + i] for i, k in enumerate(ks)]
            for q in range(4):
                kcases.append((items, q))
    impl = []
    for i, (items, q) in enumerate(kcases):
        out, order = impl_keyed(items, q, i % 3)
        impl.append(out)
        chk.count(("kt", items, q))
        has = [it for it in items if it[0] == q]
        exp = [int(bool(has)), [0, has[-1]] if has else [1, 1]]
        if out != exp or not order:
            chk.fail("keyedtuple-lookup", {"items": items, "key": q, "style": i % 3},
                     {"got": out, "expected": exp, "iteration_ok": order})
    chk.sample({"suite": "KEYED", "items": kcases[200][0], "key": kcases[200][1],
                "impl": impl[200]})
    if model:
        outs = model.call([(2, [items, q]) for items, q in kcases])
        chk.correspond("KEYED", kcases, impl, outs)
    # iteration: keys(), values(), items() keep file order including duplicates
    icases = [items for items, q in kcases[::4]]
    impl = []
    for i, items in enumerate(icases):
        from compare_locales.keyedtuple import KeyedTuple
        ents = [Ent(render_key(a, i % 3), b) for a, b in items]
        back = {render_key(a, i % 3): a for a, _ in items}
        kt = KeyedTuple(ents)
        impl.append([[back[k] for k in kt.keys()],
                     [[back[k], v.payload] for k, v in kt.items()]])
        if [e.payload for e in kt.values()] != [b for _, b in items]:
            chk.fail("keyedtuple-lookup", {"items": items, "key": 0, "style": i % 3}, "values() order")
    if model:
        outs = model.call([(4, [items]) for items in icases])
        chk.correspond("KEYED-iteration", icases, impl, outs)
    pcases = []
    for items, q in kcases[::4]:
        for i in range(-len(items) - 1, len(items) + 2):
            pcases.append((items, i))
    impl = [impl_keyed_pos(items, i) for items, i in pcases]
    for c in pcases:
        chk.count(("ktp", c))
    if model:
        outs = model.call([(3, [items, i]) for items, i in pcases])
        chk.correspond("KEYED-positional", pcases, impl, outs)
    # ---- one AddRemove object used repeatedly -----------------------------
    # iterating twice, or setting a new right/left side after an iteration, must give what a
    # fresh object gives for the current (left, right)
    from compare_locales.compare.utils import AddRemove
    rcases, rimpl = [], []
    for n in range(chk.n(400, 4000)):
        uni = list(range(rng.randint(1, 6)))
        ar = AddRemove()
        left = rng.sample(uni, rng.randint(0, len(uni)))
        right = rng.sample(uni, rng.randint(0, len(uni)))
        # the left side may be any iterable (ContentComparer passes KeyedTuple.keys(), a generator)
        ar.set_left(iter(list(left)) if n % 2 else list(left))
        ar.set_right(list(right))
        for step in range(rng.randint(2, 5)):
            op = rng.choice(["iter", "iter", "right", "left"])
            if op == "right":
                right = rng.sample(uni, rng.randint(0, len(uni)))
                ar.set_right(iter(right))
            elif op == "left":
                left = rng.sample(uni, rng.randint(0, len(uni)))
                ar.set_left((x for x in left) if (n + step) % 2 else list(left))
            out = [[LABEL[a], k] for a, k in ar]
            rcases.append((list(left), list(right)))
            rimpl.append(out)
            chk.count(("reuse", n, step, tuple(left), tuple(right)))
            if out != expected_addremove(left, right):
                chk.fail("addremove-reuse", {"left": left, "right": right, "step": step,
                                             "note": "same AddRemove object used repeatedly"},
                         {"got": out, "expected": expected_addremove(left, right)})
    if model:
        outs = model.call([(0, [l, r]) for l, r in rcases])
        chk.correspond("ADDREMOVE-reuse", rcases, rimpl, outs)
    # ---- hash-seed independence ---------------------------------------
    sample = [(l, r) for l, r in cases[:: max(1, len(cases) // 300)]]
    prog = ("import json,sys\nfrom harness.props.c20 import impl_addremove\n"
            "cs=json.load(sys.stdin)\nprint(json.dumps([impl_addremove(l,r,i%3) for i,(l,r) in enumerate(cs)]))")
    outs = []
    for hs in ("1", "7", "12345"):
        p = subprocess.run([common.PY, "-c", prog], input=json.dumps(sample), text=True,
                           stdout=subprocess.PIPE,
                           env=dict(os.environ, PYTHONHASHSEED=hs))
        outs.append(p.stdout)
    if len(set(outs)) != 1 or not outs[0].strip():
        chk.fail("addremove-hashseed", {"cases": len(sample)}, "outputs differ between PYTHONHASHSEED values")
    chk.notes.append(f"hash-seed independence: {len(sample)} cases x 3 PYTHONHASHSEED values")


def replay(chk, path):
    data = json.load(open(path))
    rc = 0
    for f in data.get("failures", []):
        c = f["case"]
        if "left" in c:
            got = impl_addremove(c["left"], c["right"], c.get("style", 0))
            print("case", c, "impl", got, "expected", expected_addremove(c["left"], c["right"]))
            rc |= got != expected_addremove(c["left"], c["right"])
        elif "items" in c:
            print("case", c, "impl", impl_keyed(c["items"], c["key"], c.get("style", 0)))
    for d in data.get("disagreements", []):
        print("disagreement", d)
        rc = 1
    return int(rc)
