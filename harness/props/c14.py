"""C14 — filter verdicts: last rule wins, most severe wins.

Suites (all on real ProjectConfig objects built through the API the TOML
parser uses: set_root, add_environment, add_paths, add_rules, add_child,
exclude, set_locales):
  FILTER           nested configurations x shuffled (locale, file, key) queries on ONE
                   object (interleaved locales exercise the one-slot FilterCache);
                   implementation vs extracted stateful model (filter_st)
  FILTER-spec      the same cases: implementation vs cache-free model and vs the Coq spec
  FILTER-exclude   dedicated small stream: excluded configurations with non-error file rules
                   (known finding exclude-nonerror-verdict, D10)
  FILTER-literal   patterns without variables or wildcards (Matcher.match returns {}; repaired
                   defect 1757672: _filter used to test the dictionary for truth); an ordinary
                   stream, failures are plain violations (signature literal-path-empty-dict)
  FILTER-stale     queries, then add_rules / set_locales / add_paths on some node, more queries
  FILTER-toml      the same generator written out as l10n.toml files ([[filters]] with single
                   paths / path lists, with and without keys, key lists, `re:` keys; [[includes]]
                   and [[excludes]] as files of their own) in a temporary directory and loaded by
                   TOMLParser().parse; the oracle works from the generated data
  FILTER-toml-e2e  the same data and queries through the END-TO-END model (Model/FilterE2E.v): rule
                   paths as pattern texts parsed by the Pattern model, bound with with_env and
                   matched by Matcher.match_ on the Coq regex engine -- no match tables
  FILTER-build     configurations whose construction raises (re.error, ExcludeError)
  COMPILE          _compile_rule expansion: path lists x (nested) key lists, probes on keys
  INFILE           Observer(filter=config.filter) driven by ContentComparer.compare on
                   .properties pairs: counted / shown / merged missing strings

Path matching is a parameter of the model: every pattern is evaluated by the
real Matcher (same constructor arguments as ProjectConfig uses, locale bound
with with_env) on every file of the universe, and the model receives the
truth table.  Oracle (implementation only): a reference interpreter of the
documented semantics in Python; the expected matching of each pattern is known
by construction of the pattern (a predicate generated with its text).
"""
import contextlib
import copy
import io
import itertools
import json
import os
import re
import sys
import tempfile

from harness import common
from harness.common import Model, canon, ok, raised, s2l

sys.path.insert(0, os.path.join(common.VERIF, "tr"))
import rx2coq  # noqa: E402

FACTS = ("tables", "c11", "c14")

RULE = ("configurations drawn from a seeded generator (0-2 paths with optional per-path locales, "
        "0-4 rules with single/list paths, absent/literal/re:/list/nested-list keys, three actions; "
        "children to depth 2; excluded configurations at the root) x queries over 31 files (directory and file names with regex metacharacters and near misses: c++ / ccc, b.ftl / b-ftl) x 5 file "
        "locales (incl. an unknown one and None) x 22 keys (incl. none, '', trailing newline, regex metacharacters, keys separating `re:<expr>` from an expression that lost leading r/e/: characters); a case "
        "is one (configuration, query) pair and is distinct by its rendered text; trivial cases "
        "(locale not in the project) are a minority by construction (see histogram verdicts)")

ACTIONS = ["error", "warning", "ignore"]
SEV = {"error": 2, "warning": 1, "ignore": 0}

# ------------------------------------------------------------------ universe ---
ROOT = "/proj"
ENV = {"root": ROOT}     # the TOML stream puts its configurations into a temporary directory
LOCS = ["de", "fr", "it", "xx", None]          # File.locale; index = model's locale
CONF_LOCS = ["de", "fr", "it"]                  # locales configurations may list
PLOCS = ["de", "fr"]
# regex metacharacters in directory and file names, with near misses that a pattern text used
# as regular-expression source would confuse: c++ / ccc, b.ftl / b-ftl
DIRS = ["a", "c", "a/d", "c++", "ccc"]
NAMES = ["b.ftl", "e.properties", "b-ftl"]
FILES = [(pl, d, n) for pl in PLOCS for d in DIRS for n in NAMES] + [(None, "other", "x.ftl")]
KEYS = [None, "", "k1", "k1\n", "k2", "k2x", "xk1", "kk", "k.", "kx",
        # keys that tell `re:<expr>` from an expression that lost leading r/e/: characters
        "reader-x", "ader-x", "edit-copy", "dit-copy", ":colon-a", "colon-a", "e", "eerie", "ie",
        "re:x", "x", "r"]
LIT_KEYS = ["k1", "k2", "", "k2x", "k1\n", "zz", "k.", "k(1)"]
RE_KEYS = ["re:k.*", "re:k\\d$", "re:.*x", "re:", "re:k1|k2", "re:(k)\\1", "re:k[12]\\Z", "re:^k2",
           "re:.+\\n", "re:k(?=2)", "re:[^k]"]
# expressions that start with the characters of the prefix itself (only the literal
# 3-character prefix `re:` may be removed)
RE_PREFIXY = ["re:reader-.*", "re:edit-(copy|paste)$", "re::colon-.*", "re:e", "re:re:x", "re:eerie",
              "re:r", "re:e.*e$", "re:::", "re:er"]
BAD_RE = ["re:(", "re:[a", "re:*"]


def fullpath(f):
    pl, d, n = f
    if pl is None:
        return f"{ENV['root']}/{d}/{n}"
    return f"{ENV['root']}/l10n/{pl}/{d}/{n}"


def shapes():
    """(pattern text, predicate(file, locale)) -- the matching is known by construction"""
    heads = [("l10n/{locale}", lambda f, loc: f[0] is not None and f[0] == loc),
             ("{l}", lambda f, loc: f[0] is not None and f[0] == loc),
             ("l10n/de", lambda f, loc: f[0] == "de"),
             ("l10n/*", lambda f, loc: f[0] is not None)]
    out = []
    for ht, hp in heads:
        def mk(tail, tp, ht=ht, hp=hp):
            out.append((ht + "/" + tail, lambda f, loc, hp=hp, tp=tp: hp(f, loc) and tp(f)))
        for d in DIRS:
            for n in NAMES:
                mk(f"{d}/{n}", lambda f, d=d, n=n: f[1] == d and f[2] == n)
            mk(f"{d}/*.ftl", lambda f, d=d: f[1] == d and f[2].endswith(".ftl"))
            mk(f"{d}/*", lambda f, d=d: f[1] == d)
            mk(f"{d}/**", lambda f, d=d: f[1] == d or f[1].startswith(d + "/"))
        mk("**", lambda f: True)
        for n in NAMES:
            mk(f"**/{n}", lambda f, n=n: f[2] == n)
    out.append(("other/*", lambda f, loc: f[0] is None))
    return out


SHAPES = shapes()
PRED = dict(SHAPES)
# patterns without a variable or wildcard: Matcher.match returns an EMPTY dictionary for
# them (which _filter took for "no match" before the repair 1757672); they are drawn
# with high probability in the stream FILTER-literal
LITERAL = [t for t, _ in SHAPES if "*" not in t and "{" not in t]
POOL = {"literal": False}
# patterns that are likely to cover something come first in the draw
COMMON = [t for t, _ in SHAPES if "**" in t or t.endswith("/*") or "*.ftl" in t]
NONLITERAL = [t for t, _ in SHAPES if t not in LITERAL]

_table_cache = {}


def real_row(text, env_l="l10n/{locale}"):
    """truth table of the real Matcher: [locale index, file index, size of the dictionary
    returned by match] for every pair on which match is not None"""
    key = (text, env_l, ENV["root"])
    if key not in _table_cache:
        from compare_locales.paths.matcher import Matcher
        m = Matcher(text, env={"l": env_l}, root=ENV["root"])
        row = []
        for li, loc in enumerate(LOCS):
            if loc is None:
                continue
            bound = m.with_env({"locale": loc})
            for fi, f in enumerate(FILES):
                d = bound.match(fullpath(f))
                if d is not None:
                    row.append([li, fi, len(d)])
        _table_cache[key] = row
    return _table_cache[key]


def expected_row(text):
    return [[li, fi] for li, loc in enumerate(LOCS) if loc is not None
            for fi, f in enumerate(FILES) if PRED[text](f, loc)]


# ---------------------------------------------------------------- generator ---
def gen_key(rng, depth=0):
    r = rng.random()
    if r < 0.4:
        return rng.choice(LIT_KEYS)
    if r < 0.75:
        if rng.random() < 0.3:
            return rng.choice(RE_PREFIXY)
        return rng.choice(RE_KEYS[:5]) if rng.random() < 0.6 else rng.choice(RE_KEYS)
    n = rng.choice([0, 1, 2, 2, 3])
    return [gen_key(rng, depth + 1) if depth < 2 else rng.choice(LIT_KEYS + RE_KEYS + RE_PREFIXY) for _ in range(n)]


BROAD = ["{l}/**", "l10n/{locale}/**", "l10n/*/**", "{l}/a/**", "l10n/de/**", "l10n/{locale}/**/b.ftl",
         "l10n/*/a/*", "{l}/c/*", "{l}/c++/**", "l10n/*/c++/*.ftl", "{l}/a/b.ftl", "{l}/c++/b.ftl",
         "{l}/**/b.ftl", "l10n/{locale}/c++/*"]


def gen_pattern(rng, broad=0.35):
    if POOL["literal"] and rng.random() < 0.5:
        return rng.choice(LITERAL)
    r = rng.random()
    if r < broad:
        return rng.choice(BROAD)
    return rng.choice(COMMON) if r < 0.8 else rng.choice(NONLITERAL)


def gen_rule(rng, file_action=None):
    r = rng.random()
    if r < 0.7:
        path = gen_pattern(rng, 0.5)
    else:
        path = [gen_pattern(rng, 0.5) for _ in range(rng.choice([0, 1, 2, 2, 3]))]
    rule = {"path": path, "action": rng.choice(["error", "warning", "warning", "ignore", "ignore"])}
    if rng.random() < 0.6:
        rule["key"] = gen_key(rng)
    elif file_action is not None:
        rule["action"] = file_action
    return rule


def gen_locales(rng, wide=False):
    r = rng.random()
    if wide and r < 0.7:
        return rng.choice([["de", "fr"], ["fr", "de", "it"], ["de", "fr", "it"]])
    if r < 0.1:
        return []
    k = rng.choice([1, 2, 2, 3])
    return rng.sample(CONF_LOCS, k)


def gen_config(rng, depth=0, excludes=True, file_action=None, p_loc=0.85):
    c = {"locales": gen_locales(rng, depth == 0) if rng.random() < p_loc else None,
         "paths": [], "rules": [], "children": [], "excludes": []}
    for _ in range(rng.choice([0, 1, 1, 2, 2] if depth else [1, 1, 2, 2, 0])):
        c["paths"].append({"l10n": gen_pattern(rng, 0.85 if depth == 0 else 0.4),
                           "locales": gen_locales(rng) if rng.random() < 0.25 else None})
    for _ in range(rng.choice([0, 1, 2, 3, 4, 5] if depth == 0 else [0, 1, 2, 3])):
        c["rules"].append(gen_rule(rng, file_action))
    if depth < 2:
        for _ in range(rng.choice([0, 0, 0, 1, 1, 2] if depth == 0 else [0, 0, 0, 1])):
            c["children"].append(gen_config(rng, depth + 1, False, file_action, 0.4))
    if excludes and depth == 0:
        for _ in range(rng.choice([0, 0, 0, 0, 1, 1, 2])):
            c["excludes"].append(gen_config(rng, 1, False, "error", 0.9))
    return c


def all_keys_of(k):
    if isinstance(k, str):
        return [k]
    return [s for x in k for s in all_keys_of(x)]


def walk_nodes(c, path=()):
    yield path, c
    for i, ch in enumerate(c["children"]):
        yield from walk_nodes(ch, path + ((0, i),))
    for i, ex in enumerate(c["excludes"]):
        yield from walk_nodes(ex, path + ((1, i),))


# -------------------------------------------------------------- implementation ---
class BuildError(Exception):
    def __init__(self, tag):
        self.tag = tag


def rule_dicts(rules):
    return [copy.deepcopy(r) for r in rules]


def build_pc(desc, counter, registry=None, path=()):
    """mirror of TOMLParser.parse on the data of one configuration"""
    from compare_locales.paths import ProjectConfig
    pc = ProjectConfig(f"{ENV['root']}/c{next(counter)}.toml")
    pc.set_root(".")
    pc.add_environment(l="l10n/{locale}")
    for p in desc["paths"]:
        d = {"l10n": p["l10n"]}
        if p["locales"] is not None:
            d["locales"] = p["locales"]
        pc.add_paths(d)
    for r in rule_dicts(desc["rules"]):
        pc.add_rules(r)
    for i, ch in enumerate(desc["children"]):
        pc.add_child(build_pc(ch, counter, registry, path + ((0, i),)))
    for i, ex in enumerate(desc["excludes"]):
        pc.exclude(build_pc(ex, counter, registry, path + ((1, i),)))
    if desc["locales"] is not None:
        pc.set_locales(desc["locales"])
    if registry is not None:
        registry[path] = pc
    return pc


def exc_tag(e):
    if isinstance(e, re.error):
        return 7
    if isinstance(e, ValueError):
        return 5
    raise e


def mkfile(fi, li):
    from compare_locales.paths import File
    f = FILES[fi]
    return File(fullpath(f), f"{f[1]}/{f[2]}", locale=LOCS[li])


def impl_session(desc, ops):
    """-> Ok [verdict per query] | Raise tag (construction failed)"""
    registry = {}
    try:
        pc = build_pc(desc, itertools.count(), registry)
    except (re.error, ValueError) as e:
        return raised(exc_tag(e))
    out = []
    for op in ops:
        if op[0] == 0:
            _, li, fi, key = op
            out.append(s2l(pc.filter(mkfile(fi, li), entity=key) if key is not None
                           else pc.filter(mkfile(fi, li))))
        elif op[0] == 1:
            try:
                for r in rule_dicts(op[2]):
                    registry[op[1]].add_rules(r)
            except re.error as e:
                return raised(exc_tag(e))
        elif op[0] == 2:
            registry[op[1]].set_locales(list(op[2]))
        elif op[0] == 3:
            for p in op[2]:
                d = {"l10n": p["l10n"]}
                if p["locales"] is not None:
                    d["locales"] = p["locales"]
                registry[op[1]].add_paths(d)
    return ok(out)


# ----------------------------------------------------------------------- TOML ---
def flatten_keys(desc):
    """TOML arrays are homogeneous: key lists are flat in configuration files"""
    for _, node in walk_nodes(desc):
        for r in node["rules"]:
            if "key" in r and not isinstance(r["key"], str):
                r["key"] = all_keys_of(r["key"])
    return desc


def write_toml(desc, root, counter):
    """the configuration data as an l10n.toml (includes and excludes as files of their own);
    returns the file name"""
    import toml
    name = os.path.join(root, f"c{next(counter)}.toml")
    data = {"basepath": "."}
    if desc["locales"] is not None:
        data["locales"] = list(desc["locales"])
    data["env"] = {"l": "l10n/{locale}"}
    data["paths"] = []
    for p in desc["paths"]:
        d = {"l10n": p["l10n"]}
        if p["locales"] is not None:
            d["locales"] = list(p["locales"])
        data["paths"].append(d)
    data["filters"] = [copy.deepcopy(r) for r in desc["rules"]]
    data["includes"] = [{"path": os.path.basename(write_toml(ch, root, counter))}
                        for ch in desc["children"]]
    data["excludes"] = [{"path": os.path.basename(write_toml(ex, root, counter))}
                        for ex in desc["excludes"]]
    for k in ("paths", "filters", "includes", "excludes"):
        if not data[k]:
            del data[k]
    with open(name, "w") as fh:
        fh.write(toml.dumps(data))
    return name


_toml_counter = itertools.count()


def toml_session(desc, ops):
    """like impl_session, but the configuration is loaded by TOMLParser from files written
    into ENV['root'] (basepath "." makes that directory the root)"""
    from compare_locales.paths import TOMLParser
    name = write_toml(desc, ENV["root"], _toml_counter)
    try:
        pc = TOMLParser().parse(name, env={})
    except (re.error, ValueError) as e:
        return raised(exc_tag(e))
    out = []
    for _, li, fi, key in ops:
        out.append(s2l(pc.filter(mkfile(fi, li), entity=key) if key is not None
                       else pc.filter(mkfile(fi, li))))
    return ok(out)




# ------------------------------------------------------------------- encoding ---
def enc_locs(ls):
    return [] if ls is None else [[LOCS.index(x) for x in ls]]


def enc_key(k):
    if isinstance(k, str):
        return [0, s2l(k)]
    return [1, [enc_key(x) for x in k]]


def enc_rule(r):
    p = r["path"]
    path = [0, real_row(p)] if isinstance(p, str) else [1, [real_row(x) for x in p]]
    return [path, [enc_key(r["key"])] if "key" in r else [], s2l(r["action"])]


def enc_pathd(p):
    return [real_row(p["l10n"]), enc_locs(p["locales"])]


def enc_config(c):
    return [enc_locs(c["locales"]), [enc_pathd(p) for p in c["paths"]],
            [enc_rule(r) for r in c["rules"]],
            [enc_config(x) for x in c["children"]], [enc_config(x) for x in c["excludes"]]]


_re_cache = {}


def re_entry(pattern):
    """[pattern, [ast]] ; [] when re.compile raises"""
    if pattern not in _re_cache:
        try:
            re.compile(pattern)
        except re.error:
            _re_cache[pattern] = [s2l(pattern), []]
        else:
            ast_, _ = rx2coq.parse(pattern)
            _re_cache[pattern] = [s2l(pattern), [rx2coq.to_sx(ast_)]]
    return _re_cache[pattern]


def retable_of_rules(rules, acc):
    for r in rules:
        if "key" in r:
            for k in all_keys_of(r["key"]):
                if k.startswith("re:"):
                    acc[k[3:]] = re_entry(k[3:])


def retable(desc, ops=()):
    acc = {}
    for _, node in walk_nodes(desc):
        retable_of_rules(node["rules"], acc)
    for op in ops:
        if op[0] == 1:
            retable_of_rules(op[2], acc)
    return list(acc.values())


def enc_op(op):
    if op[0] == 0:
        return [0, op[1], op[2], [] if op[3] is None else [s2l(op[3])]]
    path = [[ex, i] for ex, i in op[1]]
    if op[0] == 1:
        return [1, path, [enc_rule(r) for r in op[2]]]
    if op[0] == 2:
        return [2, path, [LOCS.index(x) for x in op[2]]]
    return [3, path, [enc_pathd(p) for p in op[2]]]


# --------------------------------------------------------------------- oracle ---
def o_key_matches(k, ent):
    # own evaluation: the expression is the text after the literal 3-character prefix
    if k[:3] == "re:":
        return re.match(k[3:], ent) is not None
    return ent == k or ent == k + "\n"


def o_rule_applies(r, loc, f, ent):
    paths = [r["path"]] if isinstance(r["path"], str) else r["path"]
    if not any(PRED[p](f, loc) for p in paths):
        return False
    if "key" not in r:
        return ent is None
    return ent is not None and any(o_key_matches(k, ent) for k in all_keys_of(r["key"]))


def o_locales(c):
    out = set(c["locales"] or [])
    for p in c["paths"]:
        out |= set(p["locales"] or [])
    for ch in c["children"]:
        out |= o_locales(ch)
    return out


def o_verdicts(c, loc, f, ent):
    for ex in c["excludes"]:
        if loc in o_locales(ex) and o_verdicts(ex, loc, f, None):
            return []
    out = []
    if any(PRED[p["l10n"]](f, loc) and (p["locales"] is None or loc in p["locales"])
           for p in c["paths"]):
        mine = [r["action"] for r in c["rules"] if o_rule_applies(r, loc, f, ent)]
        out.append(mine[-1] if mine else "error")
    for ch in c["children"]:
        out += o_verdicts(ch, loc, f, ent)
    return out


def oracle(c, li, fi, ent):
    loc, f = LOCS[li], FILES[fi]
    if loc is None or loc not in o_locales(c):
        return "ignore"
    vs = o_verdicts(c, loc, f, ent)
    return max(vs, key=SEV.get) if vs else "ignore"


def exclude_nonerror(c, li, fi):
    """the known-finding predicate: an excluded configuration covers the file
    but its own file verdict is not `error`"""
    loc, f = LOCS[li], FILES[fi]
    for ex in c["excludes"]:
        if loc in o_locales(ex):
            vs = o_verdicts(ex, loc, f, None)
            if vs and max(vs, key=SEV.get) != "error":
                return True
    return False


def literal_hit(c, li, fi):
    """some pattern of the project matches the file with an empty dictionary (observed on
    the real Matcher): names the failure family of the repaired defect 1757672"""
    for _, node in walk_nodes(c):
        texts = [p["l10n"] for p in node["paths"]]
        for r in node["rules"]:
            texts += [r["path"]] if isinstance(r["path"], str) else r["path"]
        if any([li, fi, 0] in real_row(t) for t in texts):
            return True
    return False


# -------------------------------------------------------------------- queries ---
def gen_queries(rng, n):
    qs = []
    for fi, f in enumerate(FILES):
        own = LOCS.index(f[0]) if f[0] is not None else rng.randrange(3)
        for li in {own, rng.choice([0, 0, 1, 1, 2, 2, 3, 4]) if rng.random() < 0.3 else own}:
            for key in rng.sample(KEYS[:10], 3) + rng.sample(KEYS[10:], 2) + [None]:
                qs.append((0, li, fi, key))
    rng.shuffle(qs)
    return qs[:n]


def check_tables(chk, desc, ops=()):
    texts = set()
    for _, node in walk_nodes(desc):
        texts |= {p["l10n"] for p in node["paths"]}
        for r in node["rules"]:
            texts |= {r["path"]} if isinstance(r["path"], str) else set(r["path"])
    for t in texts:
        if [r[:2] for r in real_row(t)] != expected_row(t):
            chk.fail("matcher-table", {"pattern": t},
                     {"real": real_row(t), "expected": expected_row(t)})


NONE_LOCALE = "<none>"      # File.locale None: a locale no configuration lists


def enc_trule(r):
    p = r["path"]
    path = [0, s2l(p)] if isinstance(p, str) else [1, [s2l(x) for x in p]]
    return [path, [enc_key(r["key"])] if "key" in r else [], s2l(r["action"])]


def enc_slocs(ls):
    return [] if ls is None else [[s2l(x) for x in ls]]


def enc_tconfig(c):
    """the configuration with its pattern TEXTS, environ and root (Model/FilterE2E.v tconfig)"""
    return [[[s2l("l"), s2l("l10n/{locale}")]], [s2l(ENV["root"])], enc_slocs(c["locales"]),
            [[s2l(p["l10n"]), enc_slocs(p["locales"])] for p in c["paths"]],
            [enc_trule(r) for r in c["rules"]],
            [enc_tconfig(x) for x in c["children"]], [enc_tconfig(x) for x in c["excludes"]]]


def enc_tquery(op):
    _, li, fi, key = op
    return [s2l(LOCS[li] if LOCS[li] is not None else NONE_LOCALE), s2l(fullpath(FILES[fi])),
            [] if key is None else [s2l(key)]]


def run_filter_stream(chk, model, name, descs, nq, oracle_on=True, finding_stream=False,
                      session=None, e2e=False):
    rng = chk.rng
    cases, impl, reqs, reqs_spec, reqs_e2e = [], [], [], [], []
    for desc in descs:
        check_tables(chk, desc)
        ops = gen_queries(rng, nq)
        out = (session or impl_session)(desc, ops)
        cases.append({"config": desc, "ops": ops})
        impl.append(out)
        rt = retable(desc)
        reqs.append((0, [rt, enc_config(desc), [enc_op(o) for o in ops]]))
        reqs_spec.append((1, [rt, enc_config(desc), [enc_op(o)[1:] for o in ops]]))
        if e2e:
            reqs_e2e.append((4, [rt, enc_tconfig(desc), [enc_tquery(o) for o in ops]]))
        if out[0] != 0:
            chk.count((name, "raise", json.dumps(desc, sort_keys=True)))
            continue
        for qi, ((_, li, fi, key), got) in enumerate(zip(ops, out[1])):
            got = common.l2s(got)
            chk.count((name, json.dumps(desc, sort_keys=True), li, fi, key))
            chk.hist("verdicts", got)
            chk.hist("query_kind", "file" if key is None else "entity")
            if not oracle_on:
                continue
            exp = oracle(desc, li, fi, key)
            if got != exp:
                # the queries asked before this one on the same object (cache state)
                case = {"config": desc, "locale": LOCS[li], "file": fullpath(FILES[fi]),
                        "key": key, "li": li, "fi": fi, "suite": name,
                        "asked_before": [list(o) for o in ops[:qi]]}
                if literal_hit(desc, li, fi):
                    chk.fail("literal-path-empty-dict", case, {"got": got, "expected": exp})
                elif exclude_nonerror(desc, li, fi):
                    chk.fail("exclude-nonerror-verdict", case, {"got": got, "expected": exp})
                else:
                    chk.fail("filter-verdict", case, {"got": got, "expected": exp})
    if cases:
        c = cases[len(cases) // 2]
        if impl[len(cases) // 2][0] == 0:
            chk.sample({"suite": name, "config": c["config"],
                        "queries": [[LOCS[o[1]], fullpath(FILES[o[2]]), o[3]] for o in c["ops"][:5]],
                        "impl": [common.l2s(v) for v in impl[len(cases) // 2][1][:5]]})
    if model and e2e:
        # the pattern-text model: PatternParser, with_env, match_ on the engine instead of tables
        eouts = model.call(reqs_e2e, chunk=25)
        e2 = [o if o[0] != 0 else [0, [q[1] if q[0] == 0 else ["raise", q[1]] for q in o[1]]]
              for o in eouts]
        chk.correspond(name + "-e2e", cases, impl, e2)
    if model:
        outs = model.call(reqs, chunk=50)
        # stateful model: [st, pure] per query
        st = [o if o[0] != 0 else [0, [p[0] for p in o[1]]] for o in outs]
        chk.correspond(name, cases, impl, st)
        if not finding_stream:
            pure = [o if o[0] != 0 else [0, [p[1] for p in o[1]]] for o in outs]
            chk.correspond(name + "-cachefree", cases, impl, pure)
            souts = model.call(reqs_spec, chunk=50)
            spec = []
            for o in souts:
                if o[0] != 0:
                    spec.append(o)
                    continue
                rows, syn = o[1]
                # the theorem's hypothesis must hold on this stream, and then spec = model
                if not all(r[2] for r in rows):
                    chk.fail("spec-hypothesis", {"suite": name},
                             "excludes_error_only false outside the stream of the known finding")
                spec.append([0, [r[1] for r in rows]])
            chk.correspond(name + "-spec", cases, impl, spec)
        else:
            souts = model.call(reqs_spec, chunk=50)
            n_h = n_diff = 0
            for o, im in zip(souts, impl):
                if o[0] != 0:
                    continue
                for r, got in zip(o[1][0], im[1]):
                    if not r[2]:
                        n_h += 1
                        n_diff += r[1] != got
                    elif r[0] != r[1] or r[0] != got:
                        chk.fail("spec-vs-model", {"suite": name}, {"row": r, "impl": got})
            chk.notes.append(f"{name}: {n_h} queries outside the hypothesis excludes_error_only, "
                             f"{n_diff} of them with implementation != spec (the finding)")


# ---------------------------------------------------------------------- stale ---
def gen_stale(rng, desc):
    nodes = [p for p, _ in walk_nodes(desc)]
    ops = gen_queries(rng, 15)
    for _ in range(rng.choice([1, 2, 3])):
        last = [o for o in ops if o[0] == 0][-1]
        p = rng.choice(nodes) if rng.random() < 0.5 else ()
        k = rng.random()
        in_exclude = any(e for e, _ in p)
        if k < 0.6:
            rules = []
            for _ in range(rng.choice([1, 2])):
                r = gen_rule(rng, "error" if in_exclude else None)
                if rng.random() < 0.6:
                    r["path"] = rng.choice(["l10n/*/**", "{l}/**", "l10n/{locale}/a/**"])
                rules.append(r)
            ops.append((1, p, rules))
        elif k < 0.8:
            ops.append((2, p, gen_locales(rng)))
        else:
            ops.append((3, p, [{"l10n": rng.choice(["l10n/*/**", gen_pattern(rng)]), "locales": None}]))
        # first the locale of the last query (the slot every node still holds), other files
        # and keys; then other locales and back
        same = [(0, last[1], fi, key) for fi in rng.sample(range(len(FILES)), 5)
                for key in rng.sample(KEYS, 2)]
        ops += same + gen_queries(rng, 8) + rng.sample(same, 3)
    return ops


STALE_WITNESS = (
    {"locales": ["de", "fr"], "paths": [{"l10n": "l10n/{locale}/**", "locales": None}], "rules": [],
     "children": [], "excludes": []},
    [(0, 0, 0, None), (1, (), [{"path": "l10n/{locale}/**", "action": "ignore"}]),
     (0, 0, 0, None), (0, 1, 0, None), (0, 0, 0, None)])


# -------------------------------------------------------------------- compile ---
PROBES = ["reader-x", "ader-x", "edit-copy", "dit-copy", ":colon-a", "colon-a", "e", "eerie", "ie",
          "re:x", "x", "r", "", "k1", "k1\n", "k1\n\n", "k2", "k2x", "xk1", "kk", "k", "\n", "zz", "k12", "k.", "kx",
          "k(1)", "k.\n"]


def impl_compile(rules):
    from compare_locales.paths import ProjectConfig
    pc = ProjectConfig(f"{ROOT}/c.toml")
    pc.set_root(".")
    pc.add_environment(l="l10n/{locale}")
    try:
        for r in rule_dicts(rules):
            pc.add_rules(r)
    except re.error as e:
        return raised(exc_tag(e))
    out = []
    for r in pc.rules:
        row = []
        for li, loc in enumerate(LOCS):
            if loc is None:
                continue
            b = r["path"].with_env({"locale": loc})
            for fi, f in enumerate(FILES):
                d = b.match(fullpath(f))
                if d is not None:
                    row.append([li, fi, len(d)])
        key = [[int(r["key"].match(p) is not None) for p in PROBES]] if "key" in r else []
        out.append([row, key, s2l(r["action"])])
    return ok(out)


def expected_compile(rules):
    """the documented expansion: one rule per (path, key), paths outer, keys inner"""
    out = []
    for r in rules:
        paths = [r["path"]] if isinstance(r["path"], str) else r["path"]
        for p in paths:
            if "key" not in r:
                out.append([expected_row(p), [], s2l(r["action"])])
                continue
            for k in all_keys_of(r["key"]):
                if k.startswith("re:"):
                    try:
                        rx = re.compile(k[3:])
                    except re.error:
                        return raised(7)
                    row = [int(rx.match(p_) is not None) for p_ in PROBES]
                else:
                    row = [int(p_ == k or p_ == k + "\n") for p_ in PROBES]
                out.append([expected_row(p), [row], s2l(r["action"])])
    return ok(out)


def lit_ast(k):
    """the AST Model/Filter.v lit_rx builds for the literal key k"""
    out = ("Eol", False)
    for c in reversed(k):
        out = ("Cat", rx2coq.Chr(False, [(ord(c), ord(c))]), out)
    return out


def check_literal_asts(chk, rules):
    """re.escape(key) + "$", read by CPython's parser, is the literal characters then `$`"""
    for r in rules:
        for k in (all_keys_of(r["key"]) if "key" in r else []):
            if not k.startswith("re:"):
                got, _ = rx2coq.parse(re.escape(k) + "$")
                if got != lit_ast(k):
                    chk.fail("literal-key-ast", {"key": k}, {"got": repr(got), "expected": repr(lit_ast(k))})


# --------------------------------------------------------------------- in-file ---
PROP_KEYS = ["k1", "k2", "k2x", "xk1", "kk", "zz", "reader-x", "ader-x", "e"]


def run_infile_case(rng, tmp, idx):
    """one .properties pair compared under observers with filters"""
    from compare_locales.paths import ProjectConfig, File
    from compare_locales.compare.content import ContentComparer
    from compare_locales.compare.observer import Observer
    from compare_locales import parser
    base = os.path.join(tmp, f"p{idx}")
    ref_keys = rng.sample(PROP_KEYS, rng.randint(2, len(PROP_KEYS)))
    l10n_keys = [k for k in ref_keys if rng.random() < 0.35]
    os.makedirs(os.path.join(base, "en", "a"))
    os.makedirs(os.path.join(base, "l10n", "de", "a"))
    ref_path = os.path.join(base, "en", "a", "e.properties")
    l10n_path = os.path.join(base, "l10n", "de", "a", "e.properties")
    with open(ref_path, "w") as fh:
        fh.write("".join(f"{k} = value of {k}\n" for k in ref_keys))
    with open(l10n_path, "w") as fh:
        fh.write("".join(f"{k} = Wert {k}\n" for k in l10n_keys))
    merge_path = os.path.join(base, "merge", "de", "a", "e.properties")
    quiet = rng.choice([0, 0, 1, 2])
    nobs = rng.choice([1, 1, 1, 2, 0])
    filters, descs = [], []
    cc = ContentComparer(quiet=quiet)
    for j in range(nobs):
        if rng.random() < 0.15:
            cc.observers.append(Observer(quiet=quiet))
            filters.append(None)
            descs.append(None)
            continue
        rules = []
        for _ in range(rng.randint(0, 4)):
            r = {"path": rng.choice(["l10n/{locale}/a/e.properties", "l10n/{locale}/**",
                                     "l10n/{locale}/c/*"]),
                 "action": rng.choice(ACTIONS)}
            if rng.random() < 0.85:
                r["key"] = rng.choice([rng.choice(PROP_KEYS), rng.choice(PROP_KEYS),
                                       "re:k.*", "re:.*x$", "re:", "re:reader-.*", "re:e",
                                       [rng.choice(PROP_KEYS), "re:z"]])
            rules.append(r)
        covered = rng.random() < 0.85
        desc = {"locales": ["de"] if rng.random() < 0.9 else ["fr"],
                "paths": [{"l10n": "l10n/{locale}/**" if covered else "l10n/{locale}/c/**"}],
                "rules": rules}
        pc = ProjectConfig(os.path.join(base, f"l10n{j}.toml"))
        pc.set_root(".")
        pc.add_paths(*desc["paths"])
        pc.add_rules(*rule_dicts(rules))
        pc.set_locales(desc["locales"])
        cc.observers.append(Observer(quiet=quiet, filter=pc.filter))
        filters.append(desc)
        descs.append(desc)
    ref = File(ref_path, "a/e.properties")
    l10n = File(l10n_path, "a/e.properties", locale="de")
    with contextlib.redirect_stdout(io.StringIO()):
        cc.compare(ref, l10n, merge_path)
    merged = []
    if os.path.exists(merge_path):
        p = parser.getParser(merge_path)
        p.readFile(merge_path)
        merged = [e.key for e in p.parse() if isinstance(e, parser.Entity)]
    extra = merged[len(l10n_keys):] if merged[:len(l10n_keys)] == l10n_keys else ["?"] + merged

    def details_of(o):
        d = o.details.toJSON()
        # the tree has a single leaf (one file)
        while isinstance(d, dict) and d:
            d = next(iter(d.values()))
        return [x["missingEntity"] for x in (d or []) if "missingEntity" in x]

    def summary_of(o):
        s = o.summary.get("de", {})
        return [s.get("missing", 0), s.get("report", 0)]
    observed = [[s2l(k) for k in extra],
                [[[s2l(k) for k in details_of(o)], summary_of(o)] for o in cc.observers],
                [[s2l(k) for k in details_of(cc.observers)], summary_of(cc.observers)]]
    missing_keys = [k for k in ref_keys if k not in l10n_keys]
    return {"ref": ref_keys, "l10n": l10n_keys, "quiet": quiet, "filters": filters,
            "missing_keys": missing_keys}, observed


def infile_verdict(desc, key):
    """reference verdict of one single-configuration project for the l10n file (locale de)"""
    if desc is None:
        return "error"
    if "de" not in desc["locales"]:
        return "ignore"
    if desc["paths"][0]["l10n"] != "l10n/{locale}/**":
        return "ignore"
    v = "error"
    for r in desc["rules"]:
        path_ok = r["path"] in ("l10n/{locale}/a/e.properties", "l10n/{locale}/**")
        if not path_ok:
            continue
        if "key" not in r:
            if key is None:
                v = r["action"]
            continue
        if key is not None and any(o_key_matches(k, key) for k in all_keys_of(r["key"])):
            v = r["action"]
    return v


def infile_expected(case):
    """the in-file clause, stated directly"""
    filters, keys, shown = case["filters"], case["missing_keys"], case["quiet"] < 2
    vs = {k: [infile_verdict(d, k) for d in filters] for k in keys}

    def combined(k):
        if all(v == "ignore" for v in vs[k]):
            return "ignore"
        return "error" if "error" in vs[k] else "warning"
    merged = [k for k in keys if combined(k) == "error"]
    missing, report = len(merged), sum(combined(k) == "warning" for k in keys)
    obs = []
    for j, d in enumerate(filters):
        det = [k for k in keys if (d is None or vs[k][j] != "ignore")] if shown else []
        ours = d is None or infile_verdict(d, "") != "ignore"
        obs.append([[s2l(k) for k in det], [missing, report] if ours else [0, 0]])
    own_det = [k for k in keys if combined(k) != "ignore"] if shown else []
    return [[s2l(k) for k in merged], obs, [[s2l(k) for k in own_det], [missing, report]]]


def infile_request(case):
    fs = []
    for d in case["filters"]:
        if d is None:
            fs.append([])
        else:
            tbl = [[s2l(k), s2l(infile_verdict(d, k))] for k in case["missing_keys"] + [""]]
            fs.append([[s2l("error"), tbl]])
    return (3, [int(case["quiet"] < 2), fs, [s2l(k) for k in case["missing_keys"]]])


# ------------------------------------------------------------------------ run ---
D10_WITNESS = {
    "locales": ["de"], "paths": [{"l10n": "l10n/{locale}/**", "locales": None}], "rules": [],
    "children": [],
    "excludes": [{"locales": ["de"], "paths": [{"l10n": "l10n/{locale}/a/**", "locales": None}],
                  "rules": [{"path": "l10n/{locale}/a/b.ftl", "action": "warning"}],
                  "children": [], "excludes": []}]}


# a file-level filter whose `path` lists several patterns: each of them is filtered
TOML_WITNESS = {
    "locales": ["de", "fr"], "paths": [{"l10n": "l10n/{locale}/**", "locales": None}],
    "rules": [{"path": ["{l}/a/*", "{l}/c/*", "{l}/a/d/*"], "action": "ignore"},
              {"path": ["{l}/a/*", "{l}/c/*"], "action": "warning", "key": ["k1", "re:k2.*"]}],
    "children": [{"locales": None, "paths": [{"l10n": "{l}/c/**", "locales": None}],
                  "rules": [{"path": ["l10n/*/c/b.ftl", "l10n/*/c/e.properties"], "action": "ignore"}],
                  "children": [], "excludes": []}],
    "excludes": []}


LITERAL_WITNESS = {
    "locales": ["de"], "paths": [{"l10n": "l10n/{locale}/**", "locales": None}],
    "rules": [{"path": "l10n/de/a/b.ftl", "action": "ignore"}], "children": [], "excludes": []}


def run(chk, runner_ok):
    rng = chk.rng
    model = Model("C14") if runner_ok else None
    # pre-filter the regex pool: only expressions the translator supports
    for pool in (RE_KEYS, RE_PREFIXY):
        for k in list(pool):
            try:
                rx2coq.parse(k[3:])
            except rx2coq.Unsupported:
                pool.remove(k)
    # ---- corpus ---------------------------------------------------------
    cdir = os.path.join(common.VERIF, "corpus", "C14")
    corpus = []
    if os.path.isdir(cdir):
        for fn in sorted(os.listdir(cdir)):
            if fn.endswith(".json"):
                corpus.append(json.load(open(os.path.join(cdir, fn)))["config"])
    # ---- main stream ----------------------------------------------------
    n_cfg, nq = chk.n((2000, 60), (9000, 90))
    descs = corpus + [gen_config(rng) for _ in range(n_cfg)]
    run_filter_stream(chk, model, "FILTER", descs, nq)
    # ---- the dedicated stream of the known finding ------------------------
    descs = [D10_WITNESS]
    for _ in range(chk.n(80, 600)):
        d = gen_config(rng, excludes=False)
        for _ in range(rng.choice([1, 1, 2])):
            d["excludes"].append(gen_config(rng, 1, False, None, 0.9))
        descs.append(d)
    run_filter_stream(chk, model, "FILTER-exclude", descs, nq, finding_stream=True)
    # ---- patterns without variables or wildcards (empty match dictionaries) ----------
    POOL["literal"] = True
    descs = [LITERAL_WITNESS] + [gen_config(rng) for _ in range(chk.n(80, 600))]
    POOL["literal"] = False
    out = impl_session(LITERAL_WITNESS, [(0, 0, 0, None)])
    if out != ok([s2l("ignore")]):
        chk.fail("literal-path-empty-dict", {"config": LITERAL_WITNESS, "li": 0, "fi": 0, "key": None,
                                             "locale": "de", "file": fullpath(FILES[0])},
                 {"got": out, "expected": "ignore"})
    run_filter_stream(chk, model, "FILTER-literal", descs, nq)
    # ---- configurations loaded from l10n.toml files by TOMLParser ----------------------
    with tempfile.TemporaryDirectory(prefix="c14toml_") as tmp:
        ENV["root"] = os.path.realpath(tmp)
        try:
            descs = [flatten_keys(copy.deepcopy(TOML_WITNESS))] + \
                    [flatten_keys(gen_config(rng)) for _ in range(chk.n(300, 2000))]
            run_filter_stream(chk, model, "FILTER-toml", descs, chk.n(40, 60), session=toml_session,
                              e2e=True)
        finally:
            ENV["root"] = ROOT
    # ---- construction that raises ---------------------------------------
    descs = []
    for _ in range(chk.n(80, 600)):
        d = gen_config(rng)
        nodes = [n for _, n in walk_nodes(d)]
        if rng.random() < 0.5:
            n = rng.choice(nodes)
            n["rules"].insert(rng.randint(0, len(n["rules"])),
                              {"path": gen_pattern(rng), "key": rng.choice(
                                  [rng.choice(BAD_RE), ["k1", rng.choice(BAD_RE)]]),
                               "action": "ignore"})
        else:
            tgt = rng.choice(nodes[1:]) if len(nodes) > 1 else None
            if tgt is None:
                d["children"].append(gen_config(rng, 2, False))
                tgt = d["children"][-1]
            tgt["excludes"].append(gen_config(rng, 2, False, "error"))
        descs.append(d)
    cases, impl, reqs = [], [], []
    for d in descs:
        ops = gen_queries(rng, 5)
        out = impl_session(d, ops)
        cases.append({"config": d, "ops": ops})
        impl.append(out)
        chk.count(("build", json.dumps(d, sort_keys=True)))
        chk.hist("build_result", "ok" if out[0] == 0 else f"raise{out[1]}")
        if out[0] == 0:
            chk.fail("build-should-raise", {"config": d}, "construction was expected to raise")
        reqs.append((0, [retable(d), enc_config(d), [enc_op(o) for o in ops]]))
    if model:
        outs = model.call(reqs, chunk=50)
        outs = [o if o[0] != 0 else [0, [p[0] for p in o[1]]] for o in outs]
        chk.correspond("FILTER-build", cases, impl, outs)
    # ---- stale caches -----------------------------------------------------
    cases, impl, reqs = [], [], []
    stale_seen = 0
    for i in range(chk.n(300, 3000)):
        if i == 0:
            d, ops = copy.deepcopy(STALE_WITNESS[0]), list(STALE_WITNESS[1])
        else:
            d = gen_config(rng)
            ops = gen_stale(rng, d)
        out = impl_session(d, ops)
        if i == 0 and out != ok([s2l(v) for v in ("error", "error", "ignore", "ignore")]):
            chk.fail("stale-witness", {"config": d, "ops": ops}, {"got": out})
        cases.append({"config": d, "ops": ops})
        impl.append(out)
        for o in ops:
            chk.count(("stale", json.dumps(d, sort_keys=True), json.dumps(o)))
        reqs.append((0, [retable(d, ops), enc_config(d), [enc_op(o) for o in ops]]))
    if model:
        outs = model.call(reqs, chunk=50)
        st = []
        for o in outs:
            if o[0] != 0:
                st.append(o)
                continue
            stale_seen += sum(p[0] != p[1] for p in o[1])
            st.append([0, [p[0] for p in o[1]]])
        chk.correspond("FILTER-stale", cases, impl, st)
        chk.notes.append(f"FILTER-stale: {stale_seen} queries answered from a stale cache "
                         "(stateful model != cache-free model, implementation = stateful model)")
        if stale_seen == 0:
            chk.fail("stale-not-exercised", {}, "the stale stream never hit a stale cache slot")
    # ---- _compile_rule ------------------------------------------------------
    cases, impl, reqs = [], [], []
    for i in range(chk.n(1500, 12000)):
        rules = [gen_rule(rng) for _ in range(rng.choice([1, 1, 2, 3]))]
        if i % 10 == 0:
            rules.append({"path": gen_pattern(rng), "key": ["k1", [rng.choice(BAD_RE)]],
                          "action": "error"})
        out = impl_compile(rules)
        exp = expected_compile(rules)
        check_literal_asts(chk, rules)
        chk.count(("compile", json.dumps(rules, sort_keys=True)))
        chk.hist("compiled_rules", len(out[1]) if out[0] == 0 else "raise")
        stripped = out if out[0] != 0 else [0, [[[t[:2] for t in r[0]], r[1], r[2]] for r in out[1]]]
        if stripped != exp:
            chk.fail("compile-expansion", {"rules": rules}, {"got": stripped, "expected": exp})
        acc = {}
        retable_of_rules(rules, acc)
        cases.append(rules)
        impl.append(out)
        reqs.append((2, [list(acc.values()), [enc_rule(r) for r in rules], [s2l(p) for p in PROBES]]))
    if model:
        chk.correspond("COMPILE", cases, impl, model.call(reqs, chunk=500))
    # ---- in-file clause -------------------------------------------------------
    cases, impl, reqs = [], [], []
    with tempfile.TemporaryDirectory(prefix="c14_") as tmp:
        for i in range(chk.n(600, 5000)):
            case, observed = run_infile_case(rng, tmp, i)
            exp = infile_expected(case)
            chk.count(("infile", json.dumps(case, sort_keys=True)))
            chk.hist("infile_missing", len(case["missing_keys"]))
            if observed != exp:
                chk.fail("in-file", case, {"got": observed, "expected": exp})
            cases.append(case)
            impl.append(observed)
            reqs.append(infile_request(case))
    if cases:
        chk.sample({"suite": "INFILE", "case": cases[0], "observed": impl[0]})
    if model:
        outs = model.call(reqs, chunk=500)
        # model: [missings, missing, report, observers, own]; the implementation's missing and
        # report counters are read from the ObserverList's own summary
        m2 = [[o[0], o[3], o[4]] for o in outs]
        chk.correspond("INFILE", cases, impl, m2)
        for o in outs:
            if [o[1], o[2]] != o[4][1]:
                chk.fail("in-file-counters", {}, {"model": o})
    chk.trusted.append("paths.matcher.Matcher is a parameter of the model: truth tables computed by the "
                       "real Matcher per run (and checked against the patterns' construction)")
    chk.trusted.append("re.compile of user `re:` keys: translated by tr/rx2coq.py at run time")


def replay(chk, path):
    data = json.load(open(path))
    rc = 0
    for f in data.get("failures", []):
        c = f["case"]
        if "config" in c and "li" in c:
            before = [tuple(o) for o in c.get("asked_before", [])]
            if c.get("suite", "").startswith("FILTER-toml"):
                with tempfile.TemporaryDirectory(prefix="c14toml_") as tmp:
                    ENV["root"] = os.path.realpath(tmp)
                    try:
                        out = toml_session(c["config"], before + [(0, c["li"], c["fi"], c["key"])])
                    finally:
                        ENV["root"] = ROOT
            else:
                out = impl_session(c["config"], before + [(0, c["li"], c["fi"], c["key"])])
            got = common.l2s(out[1][-1]) if out[0] == 0 else out
            exp = oracle(c["config"], c["li"], c["fi"], c["key"])
            print("signature", f["signature"], "query", c["locale"], c["file"], repr(c["key"]),
                  "impl", got, "expected", exp)
            rc |= got != exp
        else:
            print("failure", f["signature"], json.dumps(c)[:400], f["detail"])
            rc = 1
    for d in data.get("disagreements", []):
        print("disagreement", json.dumps(d)[:600])
        rc = 1
    return int(rc)
