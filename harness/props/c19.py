"""C19 — lint flags every duplicate, every unparsed region and every changed ID.

Suites
  RX[c19]         the parser dispatch regexes: engine + translator against CPython re
  HASPARSER       parser.hasParser / the parser getParser picks, against the model on the
                  generated dispatch table (token paths exhaustively, random paths)
  LINT-position   position() / value_position() of Entity, DTDEntity, FluentMessage,
                  AndroidEntity, Junk, XMLJunk with EntityPos / int / tuple offsets
  LINT-entity-small  EntityLinter on every entity list up to length 3 (4) over two keys x two
                  values + junk against every reference up to length 2 and the dict {}
  LINT-entity     EntityLinter on hand-made entity lists (all classes, junk, keys colliding
                  with junk keys, missing value spans) with arbitrary mock checkers and
                  references ({} or KeyedTuple): "for all entity lists and all checkers"
  LINT-file       L10nLinter().lint_file on real temp files printed from record lists with
                  injected duplicates, junk and check-violating values, for .properties, .dtd,
                  .ftl, .ini, strings.xml, .inc, .po; references by re-valuing / dropping /
                  adding / repeating records; no reference, missing reference, directory
  LINT-lint       L10nLinter().lint over small projects incl. files without a parser, with
                  default / mirror_reference_and_tests / l10n_base_reference_and_tests
  LINT-inc-sequence  several .inc files in one process (one lint() call in varying order, or
                  lint_file calls one after the other, references included) where some leave
                  `#filter emptyLines` on: each file's results expected from its own text only
  LINT-project    reference-project mode end to end: a project configuration with 2-4 `paths`
                  entries, ProjectFiles.iter_reference, mirror_reference_and_tests, one changed
                  string per file; L10nLinter().lint as cli.py drives it, and lint.cli.main()
  LINT-properties-text, LINT-ini-text, LINT-dtd-text
                  files of the format against the end-to-end model (Model/LintText.v), which
                  gets only the two texts (it parses them itself), Junk.junkid and the real
                  checker's results by entity start offset
The model is fed the implementation's own parse (keys, junk flags, classes, spans),
Entity.equals for every (file entity, reference entity) pair and the real checker's
results for (e, e); its findings are rendered to the message texts and compared with the
implementation's result dicts as lists.
Oracle (implementation only): the complete expected result list, known by construction
from the records (which keys repeat, where the junk lines are, which records were
re-valued in the reference, which values violate which check), and the reference path
expected from the project layout.
"""
import json
import os
import re
import shutil
import tempfile
import time
import traceback
import warnings

from harness import common, rxsuite
from harness.common import Model, canon

FACTS = ("tables", "parser", "c02", "c06", "c19")
RUNNERS = ["RX"]

RULE = ("record lists (3-9 records over a small key pool so that keys repeat) printed in 7 formats "
        "with injected junk lines, duplicates and check-violating values; reference versions by "
        "re-valuing / dropping / adding / repeating records, absent, missing or a directory; "
        "projects of 2-6 such files plus files without a parser under three reference lookups; "
        "hand-made entity lists with mock checkers, and every entity list up to length 3/4 over "
        "two keys x two values + junk against every reference up to length 2; distinct by (suite, file texts, reference "
        "texts, extra tests); non-trivial = at least one finding expected")

LEVEL = {"error": 0, "warning": 1}
LOCAL_TAGS = dict(common.TAGS, UserWarning=11)
MOCHI = "\ufffd"
# characters str.splitlines() breaks at but that are no line ends: only "\n" ends a line
EXOTIC = ["\x0b", "\x0c", "\x1c", "\x1d", "\x1e", "\x85", "\u2028", "\u2029"]


# ------------------------------------------------------------------ helpers ---
def linecol(text, p):
    """independent statement of a 1-based (line, column)"""
    return (text.count("\n", 0, p) + 1, p - (text.rfind("\n", 0, p) + 1) + 1)


def run_impl(fn):
    try:
        return [0, fn()]
    except Exception as e:  # noqa
        code = LOCAL_TAGS.get(type(e).__name__)
        if code is None:
            return [1, -1, type(e).__name__ + ": " + str(e)]
        return [1, code]


def key_text(key):
    """how the linter's f-string renders a key (PO keys are tuples)"""
    return f"{key}"


# ------------------------------------------------------------------ formats ---
class Fmt:
    name = ext = ""
    header = footer = ""
    blank_ok = True          # blank lines between records are whitespace
    junk_text = "junk text"  # a line the parser cannot parse
    exotic = EXOTIC          # what may stand in values, comments and junk of the format

    def jtext(self, rec):
        return "junk" + rec.get("exo", "") + " text"

    def ctext(self, rec):
        return "a" + rec.get("cexo", "") + " comment"
    viols = ("mochi",)
    android = False
    extras = (None,)

    def filename(self, rng):
        return rng.choice(["a", "b", "sub/c", "strings"]) + self.ext

    def key_of(self, rec):
        return rec["key"]

    def comment(self, rec):
        return ""

    def value(self, rec):
        """(spelling of the value in the file, expected check results [(level, message)])"""
        v, viol = rec["val"] + rec.get("exo", ""), rec["viol"]
        if viol == "mochi":
            return v + MOCHI + "z", [("warning", f"{MOCHI} in: {key_text(self.key_of(rec))}")]
        return v, []

    def equal(self, a, b):
        return self.value(a)[0] == self.value(b)[0]

    def junk(self, rec):
        """(chunk, text of the junk as lint reports it or None if only the prefix is known)"""
        return self.jtext(rec) + "\n", self.jtext(rec) + "\n"


class Props(Fmt):
    name, ext = "properties", ".properties"
    viols = ("mochi", "escape", "plural", "percent", "plural-ok")

    def comment(self, rec):
        if rec["viol"] in ("plural", "plural-ok"):
            return "# LOCALIZATION NOTE: see Localization_and_Plurals\n"
        return "# " + self.ctext(rec) + "\n" if rec["comment"] else ""

    def value(self, rec):
        v, viol = rec["val"] + rec.get("exo", ""), rec["viol"]
        if viol == "escape":
            return v + "\\q" + "z", [("warning", "unknown escape sequence, \\q")]
        if viol == "plural":
            return v + ";b;c", [("warning", "expecting 2 plurals, found 3")]
        if viol == "plural-ok":
            return v + ";others", []
        if viol == "percent":
            # a lone % makes the reference's own specs unusable: no result
            return v + " 5% of %S", []
        return super().value(rec)

    def entity(self, rec):
        c = self.comment(rec)
        v, checks = self.value(rec)
        return c + rec["key"] + rec["sep"] + v + "\n", len(c), checks


class Dtd(Fmt):
    name, ext = "dtd", ".dtd"
    exotic = ["\x85", "\u2028", "\u2029"]   # the others are no XML characters
    viols = ("mochi", "amp", "amp2", "ref")
    extras = (None, None, ["android-dtd"])

    def value(self, rec):
        v, viol = rec["val"] + rec.get("exo", ""), rec["viol"]
        if viol == "amp":
            return v + " & z", [("warning", "can't parse en-US value"),
                                ("error", "not well-formed (invalid token)")]
        if viol == "amp2":
            return v + "\nline & z", [("warning", "can't parse en-US value"),
                                      ("error", "not well-formed (invalid token)")]
        if viol == "ref":
            # an entity reference is known because the file is its own reference
            return v + " &brandName; z", []
        if viol == "apos":
            return v + "it's", [("error", "Apostrophes in Android DTDs need escaping with "
                                 "\\' or \\u0027, or use \u2019, or put string in quotes.")]
        return super().value(rec)

    def entity(self, rec):
        c = "<!-- " + self.ctext(rec) + " -->\n" if rec["comment"] else ""
        v, checks = self.value(rec)
        return c + '<!ENTITY %s "%s">\n' % (rec["key"], v), len(c), checks


class Ftl(Fmt):
    name, ext = "ftl", ".ftl"
    viols = ("mochi", "dupattr", "dupvar", "attrs", "term-attrs", "selref", "ref", "attr-selref")

    def key_of(self, rec):
        return ("-" if rec.get("term") else "") + rec["key"]

    def parts(self, rec):
        v, viol = rec["val"] + rec.get("exo", ""), rec["viol"]
        attrs, checks = [], []
        if viol == "mochi":
            v, checks = v + MOCHI + "z", [("warning", f"{MOCHI} in: {self.key_of(rec)}")]
        elif viol == "dupattr":
            attrs = [("a", "x"), ("b", "y"), ("a", v)]
            checks = [("warning", 'Attribute "a" is duplicated')] * 2
        elif viol == "dupvar":
            v = "{ $n ->\n    [one] %s\n    [one] b\n   *[other] c\n  }" % v
            checks = [("warning", 'Variant key "one" is duplicated')] * 2
        elif viol in ("attrs", "term-attrs"):
            attrs = [("a", rec["val2"])]
        elif viol == "selref":
            # well-formed: term and message references inside select variants; against itself
            # nothing is missing or obsolete
            v = ("{ $n ->\n    [one] %s { -brand } one\n   *[other] %s { -brand } { other-msg.title }\n  }"
                 % (v, v))
        elif viol == "ref":
            v = "%s { -brand } and { other-msg } { $var }" % v
        elif viol == "attr-selref":
            attrs = [("a", "{ $n ->\n        [one] %s { -brand }\n       *[other] { msg-two }\n      }" % v)]
        return v, attrs, checks

    def value(self, rec):
        v, attrs, checks = self.parts(rec)
        return v, checks

    def equal(self, a, b):
        va, aa, _ = self.parts(a)
        vb, ab, _ = self.parts(b)
        if a.get("term") != b.get("term"):
            return False
        if a.get("term"):
            return va == vb          # FluentTerm ignores attributes
        return (va, aa) == (vb, ab)

    def entity(self, rec):
        # the span of a Fluent entry starts at its attached comment
        c = "# " + self.ctext(rec) + "\n" if rec["comment"] else ""
        v, attrs, checks = self.parts(rec)
        text = c + self.key_of(rec) + " = " + v + "\n"
        for n, av in attrs:
            text += "    .%s = %s\n" % (n, av)
        return text, 0, checks

    def junk(self, rec):
        return self.jtext(rec) + "\n", self.jtext(rec)   # trailing white-space is stripped


class Ini(Fmt):
    name, ext = "ini", ".ini"
    header = "[Strings]\n"

    def entity(self, rec):
        c = "; " + self.ctext(rec) + "\n" if rec["comment"] else ""
        v, checks = self.value(rec)
        return c + rec["key"] + "=" + v + "\n", len(c), checks


class Inc(Fmt):
    name, ext = "inc", ".inc"
    blank_ok = False

    def entity(self, rec):
        c = "# " + self.ctext(rec) + "\n" if rec["comment"] else ""
        v, checks = self.value(rec)
        return c + "#define " + rec["key"] + " " + v + "\n", len(c), checks


class Po(Fmt):
    name, ext = "po", ".po"
    blank_ok = False

    def filename(self, rng):
        return rng.choice(["a.po", "sub/b.pot"])

    def key_of(self, rec):
        return (rec["key"], "ctx" if rec.get("term") else None)

    def equal(self, a, b):
        return self.value(a)[0] == self.value(b)[0]

    def entity(self, rec):
        c = "#. " + self.ctext(rec) + "\n" if rec["comment"] else ""
        v, checks = self.value(rec)
        ctx = 'msgctxt "ctx"\n' if rec.get("term") else ""
        return c + ctx + 'msgid "%s"\nmsgstr "%s"\n\n' % (rec["key"], v), len(c), checks

    def junk(self, rec):
        return self.jtext(rec) + "\n\n", None


class Android(Fmt):
    name, ext = "android", ".xml"
    header = '<?xml version="1.0" encoding="utf-8"?>\n<resources>\n'
    footer = "</resources>\n"
    viols = ("mochi", "apos")
    android = True
    exotic = []              # positions are (0, offset): no line index

    def filename(self, rng):
        return rng.choice(["strings.xml", "values/strings.xml", "strings-extra.xml"])

    def value(self, rec):
        if rec["viol"] == "apos":
            return rec["val"] + "it's", [("error", "Apostrophe must be escaped")]
        return super().value(rec)

    def entity(self, rec):
        c = "  <!-- a comment -->\n" if rec["comment"] else ""
        v, checks = self.value(rec)
        return c + '  <string name="%s">%s</string>\n' % (rec["key"], v), None, checks

    def junk(self, rec):
        return "  <other/>\n", "<other/>"


FORMATS = [Props(), Dtd(), Ftl(), Ini(), Android(), Inc(), Po()]
KEYS = ["k1", "k2", "k3", "k4", "k5", "key_six", "k7"]


def gen_records(fmt, rng, extra):
    n = rng.randint(0, 9) if rng.random() < 0.1 else rng.randint(3, 9)
    pool = rng.sample(KEYS, rng.randint(2, len(KEYS)))
    recs = []
    clean = rng.random() < 0.15

    def exo():
        return rng.choice(fmt.exotic) if fmt.exotic and rng.random() < 0.3 else ""
    for i in range(n):
        r = rng.random()
        if not clean and r < 0.15 and not (recs and recs[-1]["t"] != "ent"):
            recs.append({"t": "junk", "exo": exo()})
            continue
        if fmt.blank_ok and r < 0.22 and recs and recs[-1]["t"] == "ent":
            recs.append({"t": "blank"})
            continue
        key = rng.choice(pool)
        if clean:
            free = [k for k in KEYS if k not in {x.get("key") for x in recs}]
            if not free:
                break
            key = rng.choice(free)
        viols = list(fmt.viols) + (["apos"] if extra and "android-dtd" in extra else [])
        rec = {"t": "ent", "key": key, "val": "v%d" % rng.randint(0, 5),
               "val2": "w%d" % rng.randint(0, 3),
               "viol": rng.choice(viols) if (not clean and rng.random() < 0.3) else None,
               "comment": rng.random() < 0.25, "sep": rng.choice([" = ", "=", ": ", ":"]),
               "term": fmt.name in ("ftl", "po") and rng.random() < 0.2,
               "exo": exo(), "cexo": exo()}
        if rec["viol"] == "term-attrs":
            rec["term"] = True
        recs.append(rec)
    return recs


def derive_reference(fmt, recs, rng):
    """a reference version: re-value, drop, add, repeat records of the file"""
    out = []
    for r in recs:
        if r["t"] != "ent":
            if r["t"] == "junk" and rng.random() < 0.3:
                out.append(dict(r))
            continue
        x = rng.random()
        if x < 0.2:
            continue                                   # dropped
        r2 = dict(r)
        r2["comment"] = rng.random() < 0.25            # comments do not matter
        if x < 0.45:
            r2["val"] = "r%d" % rng.randint(0, 3)      # re-valued
        elif x < 0.55:
            r2["viol"] = None if r["viol"] else rng.choice(fmt.viols)
        elif x < 0.62:
            r2["val2"] = "q"                           # attribute re-valued (Fluent)
        out.append(r2)
        if rng.random() < 0.15:                        # a second, different entry with the key
            r3 = dict(r2)
            r3["val"] = "s%d" % rng.randint(0, 2)
            if rng.random() < 0.5:
                out.insert(rng.randint(0, len(out) - 1), r3)
            else:
                out.append(r3)
    if rng.random() < 0.3:
        out.append({"t": "ent", "key": "refonly", "val": "v", "val2": "w", "viol": None,
                    "comment": False, "sep": "=", "term": False})
    if rng.random() < 0.15:
        rng.shuffle(out)
    # never two junk records in a row
    out = [r for i, r in enumerate(out) if not (r["t"] == "junk" and i and out[i - 1]["t"] == "junk")]
    return out


def print_file(fmt, recs, broken=False, bom=False):
    """text and, per record, what the oracle needs"""
    text = ("\ufeff" if bom else "") + fmt.header
    info = []
    for r in recs:
        start = len(text)
        if r["t"] == "blank":
            text += "\n"
            info.append(None)
        elif r["t"] == "junk":
            chunk, jt = fmt.junk(r)
            text += chunk
            info.append({"start": start, "junk": jt})
        else:
            chunk, off, checks = fmt.entity(r)
            text += chunk
            info.append({"start": start, "pos": None if off is None else start + off,
                         "checks": checks})
    text += fmt.footer
    if broken:
        text = text.replace("</resources>", "")
    return text, info


def expected_results(fmt, recs, text, info, ref_recs, broken=False):
    """the complete expected list [(lineno, column, level, message | (prefix,))] by construction"""
    if broken:
        return [(0, 0, "error",
                 'Unparsed content "%s" from line 0 column 0 to line 0 column -1' % text)]
    ents = [r for r in recs if r["t"] == "ent"]
    count = {}
    for r in ents:
        count[fmt.key_of(r)] = count.get(fmt.key_of(r), 0) + 1
    last_ref = {}
    for r in ref_recs or []:
        if r["t"] == "ent":
            last_ref[fmt.key_of(r)] = r
    out = []
    for r, inf in zip(recs, info):
        if r["t"] == "blank":
            continue
        if r["t"] == "junk":
            if fmt.android:
                out.append((0, 0, "error", 'Unparsed content "%s" from line 0 column 0 '
                            'to line 0 column -1' % inf["junk"]))
                continue
            l, c = linecol(text, inf["start"])
            if inf["junk"] is None:
                out.append((l, c, "error", ('Unparsed content "' + fmt.jtext(r),)))
            else:
                l2, c2 = linecol(text, inf["start"] + len(inf["junk"]))
                out.append((l, c, "error", 'Unparsed content "%s" from line %d column %d '
                            'to line %d column %d' % (inf["junk"], l, c, l2, c2)))
            continue
        key = fmt.key_of(r)
        l, c = (0, 0) if fmt.android else linecol(text, inf["pos"])
        if count[key] > 1:
            out.append((l, c, "error", "Duplicate string with ID: " + key_text(key)))
        if key in last_ref and not fmt.equal(r, last_ref[key]):
            out.append((l, c, "warning", "Changes to string require a new ID: " + key_text(key)))
        for lvl, msg in inf["checks"]:
            out.append((None, None, lvl, msg))
    return out


def matches_expected(got, exp):
    if len(got) != len(exp):
        return False
    for g, (l, c, lvl, msg) in zip(got, exp):
        if g[3] != lvl:
            return False
        if l is not None and (g[1], g[2]) != (l, c):
            return False
        if isinstance(msg, tuple):
            if not g[4].startswith(msg[0]):
                return False
        elif g[4] != msg:
            return False
    return True


# ------------------------------------------------ implementation -> model ---
def entity_class(e):
    """which position()/value_position() pair the object has; fail closed"""
    from compare_locales.parser import base, dtd, fluent, android
    t = type(e)
    pos, vpos = t.position, getattr(t, "value_position", None)
    if pos is android.AndroidEntity.position or pos is android.XMLJunk.position:
        ok = vpos in (android.AndroidEntity.value_position, android.XMLJunk.value_position)
        cls = 3
    elif pos is base.Entry.position or pos is base.Junk.position:
        if vpos is dtd.DTDEntityMixin.value_position:
            ok, cls = True, 1
        elif vpos is fluent.FluentEntity.value_position:
            ok, cls = True, 2
        else:
            ok, cls = vpos in (base.Entry.value_position, None), 0
    else:
        ok, cls = False, -1
    if not ok:
        raise RuntimeError("entity class with unknown position methods: %r" % t)
    return cls


def wire_span(sp):
    if sp is None:
        return None
    a, b = sp
    return [0 if a is None else a, 0 if b is None else b]


class Wire:
    """assigns ids to entities, keys and messages of one model request"""

    def __init__(self):
        self.keys, self.key_list = {}, []
        self.msgs, self.vals = [], {}
        self.next_id = 0
        self.ents = {}          # id(entity object) -> wire id

    def key_id(self, k):
        if k not in self.keys:
            self.keys[k] = len(self.key_list)
            self.key_list.append(k)
        return self.keys[k]

    def entity(self, e):
        from compare_locales import parser
        i = self.next_id
        self.next_id += 1
        self.ents[id(e)] = i
        junk = isinstance(e, parser.Junk)
        if junk:
            self.vals[i] = e.val
        vs = getattr(e, "val_span", None)
        return [i, self.key_id(e.key), int(junk), entity_class(e), wire_span(e.span),
                [] if vs is None else [wire_span(vs)]]

    def cres(self, r):
        from compare_locales import checks
        tp, pos, msg, cat = r
        self.msgs.append(msg)
        m = len(self.msgs) - 1
        if isinstance(pos, checks.EntityPos):
            return [LEVEL[tp], 0, int(pos), 0, m, 0]
        if isinstance(pos, tuple):
            return [LEVEL[tp], 2, pos[0], pos[1], m, 0]
        return [LEVEL[tp], 1, pos, 0, m, 0]

    def eqs(self, cur, ref):
        from compare_locales import parser
        out = []
        for a in cur:
            if isinstance(a, parser.Junk):
                continue
            for b in ref:
                try:
                    same = a.equals(b)
                except AttributeError:
                    same = False   # a Fluent entity against reference junk: keys never coincide
                if same:
                    out.append([self.ents[id(a)], self.ents[id(b)]])
        return out

    def render(self, f, path=None):
        """a model finding as the implementation's dict fields"""
        lineno, col, lvl, m = f
        if m[0] == 0:
            msg = "Duplicate string with ID: " + key_text(self.key_list[m[1]])
        elif m[0] == 1:
            msg = "Changes to string require a new ID: " + key_text(self.key_list[m[1]])
        elif m[0] == 2:
            msg = ('Unparsed content "%s" from line %d column %d to line %d column %d'
                   % ((self.vals.get(m[1]),) + tuple(m[2:6])))
        else:
            msg = self.msgs[m[1]]
        out = [lineno, col, "error" if lvl == 0 else "warning", msg]
        return out if path is None else [path] + out

    def decode(self, out, with_path):
        if out[0] != 0:
            return out
        if with_path:
            return [0, [self.render(f, common.l2s(p)) for p, f in out[1]]]
        return [0, [self.render(f) for f in out[1]]]


def impl_dicts(results):
    out = []
    for r in results:
        if set(r) - {"path", "lineno", "column", "level", "message"}:
            raise RuntimeError("unexpected result fields: %r" % (r,))
        row = [r["lineno"], r["column"], r["level"], r["message"]]
        out.append(([r["path"]] if "path" in r else []) + row)
    return out


def parse_for_model(wire, path, ref, extra_tests):
    """what lint_file reads, taken from the implementation: the parse of both files,
    equals for every pair, the checker getChecker builds and its results for (e, e).
    -> (parses, isfile list, eqs, checker entry, results)"""
    from compare_locales import parser, checks
    from compare_locales.paths import File, REFERENCE_LOCALE
    try:
        p = parser.getParser(path)
    except UserWarning:
        return [], [], [], [canon(path), []], []
    parses, files, ref_ents = [], [], []
    if ref is not None and os.path.isfile(ref):
        files.append(canon(ref))
        p.readFile(ref)
        ref_ents = list(p.parse())
        parses.append([canon(path), canon(ref), canon(p.ctx.contents),
                       [wire.entity(e) for e in ref_ents]])
    p.readFile(path)
    current = p.parse()
    parses.append([canon(path), canon(path), canon(p.ctx.contents),
                   [wire.entity(e) for e in current]])
    checker = checks.getChecker(File(path, path, locale=REFERENCE_LOCALE), extra_tests=extra_tests)
    results = []
    if checker:
        if checker.needs_reference:
            checker.set_reference(current)
        for e in current:
            if isinstance(e, parser.Junk):
                continue
            res = [wire.cres(r) for r in checker.check(e, e)]
            if res:
                results.append([wire.ents[id(e)], res])
    chk_entry = [canon(path), [int(bool(checker.needs_reference))] if checker else []]
    return parses, files, wire.eqs(current, ref_ents), chk_entry, results


def opt(x, conv=lambda v: v):
    return [] if x is None else [conv(x)]


# ------------------------------------------------------------------- suites ---
def suite_hasparser(chk, model):
    from compare_locales import parser
    import itertools
    table = [type(c[1]) for c in parser.__dict__["__constructors"]]
    toks = ["strings", ".xml", ".dtd", ".properties", ".ini", ".inc", ".ftl", ".po", ".pot",
            "t", "/", "x", "\n", ".", "s.xml"]
    paths = ["".join(c) for n in range(chk.n(4, 5)) for c in itertools.product(toks, repeat=n)]
    rng = chk.rng
    for _ in range(chk.n(2000, 20000)):
        paths.append("".join(rng.choice(toks + ["a", "é", "\x00", " ", "\r", "POT", ".PO"])
                             for _ in range(rng.randint(0, 8))))
    impl = []
    for p in paths:
        has = parser.hasParser(p)
        idx = [table.index(type(parser.getParser(p)))] if has else []
        impl.append([int(has), idx])
        chk.count(("hp", p))
        # oracle: a path has a parser iff it ends (before an optional final newline) in one
        # of the known suffixes; strings*.xml needs "strings" earlier on the same line
        q = p[:-1] if p.endswith("\n") else p
        exp = any(q.endswith(s) for s in (".dtd", ".properties", ".ini", ".inc", ".ftl", ".po", ".pot"))
        if q.endswith(".xml"):
            line = q[q.rfind("\n") + 1:]
            exp = exp or "strings" in line[:-4]
        if has != exp:
            chk.fail("hasparser-suffix", {"path": p}, {"got": has, "expected": exp})
    chk.sample({"suite": "HASPARSER", "path": paths[40], "impl [has, index of the parser]": impl[40]})
    if model:
        outs = model.call([(3, canon(p)) for p in paths])
        chk.correspond("HASPARSER", paths, impl, outs)
    return paths


def synth_entity(rng, cls, ctx, text, words, key=None):
    """an entity object of class cls over ctx with spans picked from the text"""
    from compare_locales.parser import base, dtd, fluent, android
    n = len(text)
    a = rng.randint(0, n)
    b = rng.randint(a, n)
    w = rng.choice(words)            # (start, end) of a word: the key
    vs = rng.choice([None, (-1, -1), (a, b), (rng.randint(0, n), n)]) if rng.random() < 0.3 \
        else (rng.randint(a, b), b)
    if cls == "junk":
        return base.Junk(ctx, (a, b))
    if cls == "entity":
        return base.Entity(ctx, None, None, (a, b), w, vs)
    if cls == "dtd":
        # DTDEntity.val unescapes raw_val: a missing value span is a TypeError in equals
        return dtd.DTDEntity(ctx, None, None, (a, b), w, vs or (-1, -1))
    if cls == "fluent":
        e = fluent.FluentMessage.__new__(fluent.FluentMessage)
        e.ctx, e.span, e.key_span, e.val_span, e.pre_comment, e.entry = ctx, (a, b), w, vs, None, None
        return e
    if cls == "android":
        k = text[w[0]:w[1]]
        v = text[a:b]
        return android.AndroidEntity(ctx, None, None, None, "", k, v, v)
    if cls == "xmljunk":
        return android.XMLJunk(text[a:b])
    raise ValueError(cls)


def rand_pos(rng, allow_tuple):
    from compare_locales import checks
    r = rng.random()
    n = rng.choice([0, 1, 2, 3, 5, 8, 13, -1, -4, 40])
    if r < 0.35:
        return checks.EntityPos(n)
    if r < 0.8 or not allow_tuple:
        return n
    return (rng.choice([0, 1, 2, 3]), rng.choice([0, 1, 4, 9]))


def synth_text(rng):
    words = ["aa", "bb", "aa", "cc", "bb", "dd"]
    parts, spans, text = [], [], ""
    for w in rng.sample(words, rng.randint(2, 6)):
        spans.append((len(text), len(text) + len(w)))
        text += w + rng.choice([" ", "\n", " = ", "\n\n"] + EXOTIC[:4] + EXOTIC[5:7])
    text += "".join(rng.choice(list("xy \n\n") + EXOTIC) for _ in range(rng.randint(0, 12)))
    return text, spans


def suite_position(chk, model):
    from compare_locales.parser import base
    rng = chk.rng
    cases, impl = [], []
    for _ in range(chk.n(3000, 30000)):
        text, words = synth_text(rng)
        ctx = base.Parser.Context(text)
        cls = rng.choice(["entity", "dtd", "fluent", "android", "junk", "xmljunk"])
        e = synth_entity(rng, cls, ctx, text, words)
        pos = rand_pos(rng, True)
        w = Wire()
        we = w.entity(e)
        c = w.cres(("error", pos, "m", "c"))
        if cls in ("junk", "xmljunk") and c[1] != 0:
            c[1], c[3] = 0, 0       # junk has no value_position (never asked for by lint)
            pos = int(pos) if not isinstance(pos, tuple) else pos[0]
            c[2] = pos
            fn = (lambda e=e, pos=pos: list(e.position(pos)))
        elif c[1] == 0:
            fn = (lambda e=e, pos=pos: list(e.position(pos)))
        else:
            fn = (lambda e=e, pos=pos: list(e.value_position(pos)))
        got = run_impl(fn)
        if got[0] == 0 and not all(isinstance(x, int) for x in got[1]):
            got = [1, LOCAL_TAGS["TypeError"]]   # AndroidEntity returns (0, <tuple>): no position
        cases.append([canon(text), we[3], we[4], we[5], c[1], c[2], c[3]])
        impl.append(got)
        chk.count(("pos", text, cls, we[4], we[5], repr(pos)))
        # oracle: a resolved offset position addresses span start + offset in the text
        if got[0] == 0 and cls in ("entity", "fluent", "junk") and c[1] == 0 and pos >= 0:
            p = e.span[0] + pos
            if tuple(got[1]) != linecol(text, p) and p <= len(text):
                chk.fail("position-offset", {"text": text, "span": list(e.span), "offset": pos},
                         {"got": got[1], "expected": linecol(text, p)})
    chk.sample({"suite": "LINT-position", "case": cases[5], "impl": impl[5]})
    if model:
        outs = model.call([(4, c) for c in cases])
        chk.correspond("LINT-position", cases, impl, outs)


class MockChecker:
    def __init__(self, table):
        self.table = table

    def check(self, ref, l10n):
        assert ref is l10n
        yield from self.table.get(id(l10n), [])


def entity_case(chk, cur, ref_ents, reference, checker, table, text, rtext):
    """run EntityLinter on one hand-made case; oracle; -> (model request, impl result, wire)"""
    from compare_locales.parser import base, android
    from compare_locales.lint.linter import EntityLinter

    def go():
        el = EntityLinter(cur, checker, reference)
        return impl_dicts([r for e in cur for r in el.lint_entity(e)])
    got = run_impl(go)
    w = Wire()
    wcur = [w.entity(e) for e in cur]
    wref = None if ref_ents is None else [w.entity(e) for e in ref_ents]
    eqs = w.eqs(cur, ref_ents or [])
    results = None
    if table is not None:
        results = [[w.ents[id(e)], [w.cres(r) for r in table[id(e)]]] for e in cur if id(e) in table]
    case = [canon(text), canon(rtext), wcur, opt(wref), eqs, opt(results)]
    chk.count(("ent", case))
    # oracle: junk gives exactly one result; a key occurring twice gives a duplicate error
    # per non-junk occurrence, at the start of that occurrence; changed iff the last reference
    # entity with the key differs, at the same place; plus one result per checker result
    if got[0] == 0:
        keys = [e.key for e in cur]
        nj = [e for e in cur if not isinstance(e, base.Junk)]

        def where(e):
            if isinstance(e, android.AndroidEntity):
                return [0, 0]
            return list(linecol(text, e.span[0]))
        dup = [r for r in got[1] if r[3].startswith("Duplicate string with ID: ")]
        exp_dup = [where(e) + [e.key] for e in nj if keys.count(e.key) > 1]
        chg = [r for r in got[1] if r[3].startswith("Changes to string require a new ID: ")]
        exp_chg = []
        for e in nj:
            last = [r for r in (ref_ents or []) if r.key == e.key]
            if last and not (last[-1].key == e.key and last[-1].val == e.val):
                exp_chg.append(where(e) + [e.key])
        junk = [r for r in got[1] if r[3].startswith("Unparsed content")]
        nres = sum(len(table.get(id(e), [])) for e in nj) if table else 0
        nd, nc = len("Duplicate string with ID: "), len("Changes to string require a new ID: ")
        if ([r[:2] + [r[3][nd:]] for r in dup] != exp_dup
                or [r[:2] + [r[3][nc:]] for r in chg] != exp_chg
                or any(r[2] != "error" for r in dup + junk) or any(r[2] != "warning" for r in chg)
                or len(junk) != len(cur) - len(nj)
                or len(got[1]) != len(dup) + len(chg) + len(junk) + nres):
            chk.fail("entitylinter-clauses", {"text": text, "ref_text": rtext,
                                              "entities": [repr(e) for e in cur]},
                     {"got": got, "expected_duplicates": exp_dup, "expected_changed": exp_chg})
    return case, got, w


def suite_entity_small(chk, model):
    """every entity list up to length 3 over two keys x two values + junk, against every
    reference up to length 2 (and the dict {}), without a checker"""
    import itertools
    from compare_locales.parser import base
    from compare_locales.keyedtuple import KeyedTuple
    text = "aa bb\nx y\nzz\n"
    spans = {"aa": (0, 2), "bb": (3, 5), "x": (6, 7), "y": (8, 9)}
    kinds = [("aa", "x"), ("aa", "y"), ("bb", "x"), ("bb", "y")]
    n = chk.n(3, 4)
    cases, impl, wires = [], [], []
    refs = [None] + [r for m in range(3) for r in itertools.product(kinds, repeat=m)]
    for m in range(n + 1):
        for combo in itertools.product(kinds + ["junk"], repeat=m):
            for ref in refs:
                ctx, rctx = base.Parser.Context(text), base.Parser.Context(text)
                cur = []
                for i, k in enumerate(combo):
                    if k == "junk":
                        cur.append(base.Junk(ctx, (10, 12)))
                    else:
                        cur.append(base.Entity(ctx, None, None, (spans[k[0]][0], 9), spans[k[0]], spans[k[1]]))
                ref_ents = None if ref is None else [
                    base.Entity(rctx, None, None, (spans[k[0]][0], 9), spans[k[0]], spans[k[1]]) for k in ref]
                reference = {} if ref is None else KeyedTuple(ref_ents)
                case, got, w = entity_case(chk, cur, ref_ents, reference, None, None, text, text)
                cases.append(case)
                impl.append(got)
                wires.append(w)
    chk.sample({"suite": "LINT-entity-small", "case": cases[700], "impl": impl[700]})
    if model:
        outs = model.call([(0, c) for c in cases])
        outs = [w.decode(o, False) for w, o in zip(wires, outs)]
        chk.correspond("LINT-entity-small", cases, impl, outs)


def suite_entity(chk, model):
    """EntityLinter on arbitrary entity lists with arbitrary checkers"""
    from compare_locales.parser import base
    from compare_locales.keyedtuple import KeyedTuple
    from compare_locales.lint.linter import EntityLinter
    rng = chk.rng
    cases, impl, wires = [], [], []
    for _ in range(chk.n(6000, 60000)):
        text, words = synth_text(rng)
        rtext, rwords = synth_text(rng)
        family = rng.choice([["entity", "junk"], ["dtd", "junk"], ["android", "xmljunk"],
                             ["entity", "dtd", "junk"]])
        # sometimes a key that collides with the key the next Junk will get
        collide = rng.random() < 0.1 and family[-1] == "junk"
        if collide:
            a = rng.randint(0, 3)
            jk = "_junk_%d_%d-%d" % (base.Junk.junkid + 1, a, a + 2)
            words = words + [(len(text), len(text) + len(jk))]
            text += jk + "\n"
            rwords = rwords + [(len(rtext), len(rtext) + len(jk))]
            rtext += jk
        ctx, rctx = base.Parser.Context(text), base.Parser.Context(rtext)
        cur = []
        if collide:
            cur.append(base.Junk(ctx, (a, a + 2)))
            cur.append(synth_entity(rng, family[0], ctx, text, [words[-1]]))
        for _i in range(rng.randint(0, 6)):
            cls = rng.choice(family + family[:1] * 2)
            cur.append(synth_entity(rng, cls, ctx, text, words))
        rng.shuffle(cur)
        if rng.random() < 0.25:
            reference, ref_ents = {}, None
        else:
            ref_ents = [synth_entity(rng, rng.choice(family + family[:1] * 2), rctx, rtext, rwords)
                        for _i in range(rng.randint(0, 5))]
            reference = KeyedTuple(ref_ents)
        if rng.random() < 0.15:
            checker, table = None, None
        else:
            table = {}
            for e in cur:
                if rng.random() < 0.5:
                    table[id(e)] = [(rng.choice(["error", "warning"]),
                                     rand_pos(rng, "dtd" in family and rng.random() < 0.7),
                                     "msg%d" % rng.randint(0, 3), "cat")
                                    for _j in range(rng.randint(1, 3))]
            checker = MockChecker(table)

        case, got, w = entity_case(chk, cur, ref_ents, reference, checker, table, text, rtext)
        cases.append(case)
        impl.append(got)
        wires.append(w)
        chk.hist("entity_list_len", len(cur))
    chk.sample({"suite": "LINT-entity", "case": cases[3], "impl": impl[3]})
    if model:
        outs = model.call([(0, c) for c in cases])
        outs = [w.decode(o, False) for w, o in zip(wires, outs)]
        chk.correspond("LINT-entity", cases, impl, outs)


def write_file(path, text, rng):
    os.makedirs(os.path.dirname(path), exist_ok=True)
    data = text.encode("utf-8")
    if rng.random() < 0.5:
        data = data.replace(MOCHI.encode("utf-8"), b"\xff")   # undecodable byte -> U+FFFD
    if rng.random() < 0.1:
        data = data.replace(b"\n", b"\r\n")                   # read with universal newlines
    with open(path, "wb") as f:
        f.write(data)


def gen_file_case(rng, root, sub, extra="random", ref_at=None, lookup_finds=True, fmts=None,
                  bom=False):
    """writes one file and maybe a reference version; returns the case description.
    ref_at: where the reference lookup will look (None: next to the file's directory);
    lookup_finds=False: the lookup never returns a reference"""
    fmt = rng.choice(fmts or FORMATS)
    if extra == "random":
        extra = rng.choice(fmt.extras)
    recs = gen_records(fmt, rng, extra)
    broken = fmt.android and rng.random() < 0.08
    text, info = print_file(fmt, recs, broken, bom)
    path = os.path.join(root, sub, fmt.filename(rng))
    write_file(path, text, rng)
    mode = rng.choice(["none", "file", "file", "file", "file", "missing", "dir", "same"])
    ref_recs, ref_text = None, None
    rel = os.path.relpath(path, os.path.join(root, sub))
    ref_path = ref_at(path) if ref_at else os.path.join(root, "ref-" + sub, rel)
    if mode in ("file", "same"):
        ref_recs = list(recs) if mode == "same" else derive_reference(fmt, recs, rng)
        ref_text, _ = print_file(fmt, ref_recs)
        write_file(ref_path, ref_text, rng)
    elif mode == "missing":
        if not ref_at:
            ref_path = os.path.join(root, "ref-" + sub, "nothing-here" + fmt.ext)
    elif mode == "dir":
        os.makedirs(ref_path, exist_ok=True)
    elif not ref_at:
        ref_path = None
    exp = expected_results(fmt, recs, text, info, ref_recs if lookup_finds else None, broken)
    if text == "\ufeff":
        # a DTD that is only a byte order mark is one empty Junk behind the mark
        exp = [(1, 2, "error", 'Unparsed content "" from line 1 column 2 to line 1 column 2')]
    return {"fmt": fmt.name, "path": path, "ref": ref_path, "extra": extra, "text": text,
            "ref_text": ref_text, "mode": mode, "expected": exp, "broken": broken}


def describe(c):
    return {k: c[k] for k in ("fmt", "text", "ref_text", "mode", "extra")}


def check_expected(chk, c, got, root):
    if got[0] != 0:
        chk.fail("lint-raises", describe(c), {"got": got})
        return
    rows = [r for r in got[1] if r[0] == c["path"]]
    if not matches_expected(rows, c["expected"]):
        dup_g = [r[1:] for r in rows if r[4].startswith("Duplicate")]
        dup_e = [list(e) for e in c["expected"] if isinstance(e[3], str) and e[3].startswith("Duplicate")]
        jk_g = [r[1:3] for r in rows if r[4].startswith("Unparsed")]
        jk_e = [list(e[:2]) for e in c["expected"] if (e[3][0] if isinstance(e[3], tuple) else e[3]).startswith("Unparsed")]
        ch_g = [r[1:] for r in rows if r[4].startswith("Changes")]
        ch_e = [list(e) for e in c["expected"] if isinstance(e[3], str) and e[3].startswith("Changes")]
        if dup_g != dup_e:
            sig = "lint-duplicates"
        elif jk_g != jk_e:
            sig = "lint-junk"
        elif ch_g != ch_e:
            sig = "lint-changed"
        elif not c["expected"] and rows:
            sig = "lint-clean"
        else:
            sig = "lint-checks"
        chk.fail(sig, describe(c), {"got": [r[1:] for r in rows],
                                    "expected": [list(e) for e in c["expected"]]})


def suite_file(chk, model, tmp):
    from compare_locales.lint.linter import L10nLinter
    rng = chk.rng
    cases, impl, reqs, wires = [], [], [], []
    n = chk.n(2000, 24000)
    for i in range(n):
        c = gen_file_case(rng, tmp, "f%d" % i)
        got = run_impl(lambda: impl_dicts(L10nLinter().lint_file(c["path"], c["ref"], c["extra"])))
        check_expected(chk, c, got, tmp)
        w = Wire()
        parses, files, eqs, chk_entry, results = parse_for_model(w, c["path"], c["ref"], c["extra"])
        env = [parses, files, eqs, [chk_entry], results]
        reqs.append((1, [env, canon(c["path"]), opt(c["ref"], canon), opt(None if c["extra"] is None else 1)]))
        cases.append(describe(c))
        impl.append(got)
        wires.append(w)
        chk.count(("file", c["fmt"], c["text"], c["ref_text"], c["mode"], c["extra"]))
        chk.hist("format", c["fmt"])
        chk.hist("reference", c["mode"])
        chk.hist("findings", min(len(c["expected"]), 8))
        for e in c["expected"]:
            m = e[3][0] if isinstance(e[3], tuple) else e[3]
            chk.hist("expected_kind", "duplicate" if m.startswith("Duplicate") else
                     "changed" if m.startswith("Changes") else
                     "junk" if m.startswith("Unparsed") else "check: " + m.replace(MOCHI, "U+FFFD")[:40])
        if i in (3, 11) or (c["fmt"] == "ftl" and len(c["expected"]) > 3 and len(chk.samples) < 5):
            chk.sample({"suite": "LINT-file", "format": c["fmt"], "text": c["text"],
                        "reference": c["ref_text"], "impl": got})
        shutil.rmtree(os.path.join(tmp, "f%d" % i), ignore_errors=True)
        shutil.rmtree(os.path.join(tmp, "ref-f%d" % i), ignore_errors=True)
    # a file without a parser given to lint_file directly: UserWarning
    for name in ("README.txt", "x.json"):
        p = os.path.join(tmp, name)
        write_file(p, "k = v\n", rng)
        got = run_impl(lambda: impl_dicts(L10nLinter().lint_file(p, None, None)))
        if got != [1, LOCAL_TAGS["UserWarning"]]:
            chk.fail("lint-file-no-parser", {"path": name}, {"got": got})
        reqs.append((1, [[[], [], [], [], []], canon(p), [], []]))
        cases.append({"path": name})
        impl.append(got)
        wires.append(Wire())
        os.remove(p)
    if model:
        outs = model.call(reqs, chunk=500)
        outs = [w.decode(o, True) for w, o in zip(wires, outs)]
        chk.correspond("LINT-file", cases, impl, outs)


TOML = """\
basepath = "."
locales = ["de"]
[[paths]]
    reference = "en/**"
    l10n = "{l10n_base}/{locale}/**"
    test = ["android-dtd"]
"""


def suite_lint(chk, model, tmp):
    """L10nLinter.lint over projects, with the three reference lookups of lint/util.py"""
    from compare_locales.lint.linter import L10nLinter
    from compare_locales.lint import util
    from compare_locales import paths, parser
    rng = chk.rng
    cases, impl, reqs, wires = [], [], [], []
    for i in range(chk.n(300, 2500)):
        proj = os.path.join(tmp, "p%d" % i)
        how = rng.choice(["default", "mirror", "l10n-base"])
        # references live where the lookup will look: <refroot>/en/... (mirror) or
        # <l10n_base>/de/... (l10n base)
        files, descr = [], []
        nfiles = rng.randint(2, 6)
        for j in range(nfiles):
            if rng.random() < 0.25:
                name = os.path.join(proj, "en", "d%d" % j, rng.choice(
                    ["README.txt", "notes.json", "strings.txt", "a.properties.orig", "Makefile"]))
                write_file(name, "k1 = v\nk1 = w\njunk\n", rng)
                files.append(name)
                descr.append({"path": os.path.relpath(name, tmp), "parser": False})
                continue
            en = os.path.join(proj, "en")
            if how == "mirror":
                ref_at = (lambda p, en=en: os.path.join(proj, "refroot", "en", os.path.relpath(p, en)))
            else:
                ref_at = (lambda p, en=en: os.path.join(proj, "base", "de", os.path.relpath(p, en)))
            tests = None if how == "default" else ["android-dtd"]
            c = gen_file_case(rng, en, "d%d" % j, extra=tests, ref_at=ref_at,
                              lookup_finds=how != "default")
            c["want_ref"] = None if how == "default" else c["ref"]
            files.append(c["path"])
            descr.append(c)
        toml = os.path.join(proj, "l10n.toml")
        write_file(toml, TOML, rng)
        if how == "default":
            getref = util.default_reference_and_tests
        elif how == "mirror":
            pc = paths.TOMLParser().parse(toml, env={"l10n_base": "."})
            pf = paths.ProjectFiles(None, [pc])
            getref = util.mirror_reference_and_tests(pf, os.path.join(proj, "refroot"))
        else:
            pc = paths.TOMLParser().parse(toml, env={"l10n_base": os.path.join(proj, "base")})
            pc.set_locales(["de"], deep=True)
            pf = paths.ProjectFiles("de", [pc])
            getref = util.l10n_base_reference_and_tests(pf)
        rng.shuffle(files)
        got = run_impl(lambda: impl_dicts(L10nLinter().lint(iter(files), getref)))
        w = Wire()
        env = [[], [], [], [], []]
        table = []
        for d in descr:
            if d.get("parser") is False:
                if got[0] == 0 and any(r[0] == os.path.join(tmp, d["path"]) for r in got[1]):
                    chk.fail("lint-skip", {"path": d["path"]}, {"got": got})
                continue
            ref, tests = getref(d["path"])
            if ref != d["want_ref"] or (None if tests is None else sorted(tests)) != d["extra"]:
                chk.fail("lint-reference-path", {"how": how, "path": os.path.relpath(d["path"], tmp)},
                         {"got": [ref, repr(tests)], "expected": [d["want_ref"], d["extra"]]})
            check_expected(chk, d, got, tmp)
            parses, isf, eqs, chk_entry, results = parse_for_model(w, d["path"], ref, tests)
            env[0] += parses
            env[1] += isf
            env[2] += eqs
            env[3].append(chk_entry)
            env[4] += results
            table.append([canon(d["path"]), opt(ref, canon), opt(None if tests is None else 1)])
        if got[0] == 0:
            order = [r[0] for r in got[1]]
            seen = [p for k, p in enumerate(order) if k == 0 or order[k - 1] != p]
            if seen != [f for f in files if f in set(order)]:
                chk.fail("lint-file-order", {"files": files}, {"got": seen})
        reqs.append((2, [env, [canon(f) for f in files], table]))
        cases.append({"how": how, "files": [os.path.relpath(f, tmp) for f in files],
                      "texts": [d.get("text") for d in descr]})
        impl.append(got)
        wires.append(w)
        chk.count(("lint", how, [(d.get("text"), d.get("ref_text"), d.get("mode")) for d in descr]))
        chk.hist("lookup", how)
        if i == 1:
            chk.sample({"suite": "LINT-lint", "lookup": how, "files": cases[-1]["files"], "impl": got})
        shutil.rmtree(proj, ignore_errors=True)
    if model:
        outs = model.call(reqs, chunk=200)
        outs = [w.decode(o, True) for w, o in zip(wires, outs)]
        chk.correspond("LINT-lint", cases, impl, outs)


# ------------------------------------------------ .inc files in sequence ---
def gen_inc(rng, unclosed=None, ref_of=None):
    """an .inc file as lines, each followed by 1 + b newlines (b blank lines):
    #define lines, `#filter emptyLines` / `#unfilter emptyLines`.  -> (text, lines)
    lines: [(kind, key, val, b)].  unclosed: force / forbid a filter left open."""
    lines = []
    if ref_of is None:
        keys = rng.sample(KEYS, rng.randint(2, 5))
        if rng.random() < 0.3:
            keys.append(rng.choice(keys))
        defs = [(k, "v%d" % rng.randint(0, 4)) for k in keys]
    else:
        defs = [(k, v if rng.random() < 0.6 else "r%d" % rng.randint(0, 3))
                for kind, k, v, _ in ref_of if kind == "def" and rng.random() < 0.8]
    mode = rng.choice(["none", "none", "closed", "open"]) if unclosed is None else \
        ("open" if unclosed else rng.choice(["none", "closed"]))
    n = len(defs)
    at_on = rng.randint(0, n) if mode != "none" else None
    at_off = rng.randint(at_on, n) if mode == "closed" else None

    def blanks():
        return rng.choice([0, 0, 1, 1, 2, 3])
    for i in range(n + 1):
        if at_on == i:
            lines.append(("on", None, None, blanks()))
        if at_off == i:
            lines.append(("off", None, None, blanks()))
        if i < n:
            lines.append(("def", defs[i][0], defs[i][1], blanks()))
    lead = rng.choice([0, 0, 0, 0, 1, 2])
    text = "\n" * lead
    for kind, k, v, b in lines:
        text += {"on": "#filter emptyLines", "off": "#unfilter emptyLines",
                 "def": "#define %s %s" % (k, v)}[kind] + "\n" * (1 + b)
    return text, lines, lead


def expected_inc(text, lines, lead, ref_lines):
    """expected results of one .inc file from ITS OWN text only: a run of two or more newlines
    is unparsed content unless the file's own `#filter emptyLines` is on at that point; leading
    newlines always are"""
    out = []
    count = {}
    for kind, k, v, b in lines:
        if kind == "def":
            count[k] = count.get(k, 0) + 1
    last_ref = {}
    for kind, k, v, b in ref_lines or []:
        if kind == "def":
            last_ref[k] = v

    def junk(start, n):
        l, c = linecol(text, start)
        l2, c2 = linecol(text, start + n)
        return (l, c, "error", 'Unparsed content "%s" from line %d column %d to line %d column %d'
                % ("\n" * n, l, c, l2, c2))
    pos = 0
    if lead:
        out.append(junk(0, lead))
        pos = lead
    filtering = False
    for kind, k, v, b in lines:
        body = {"on": "#filter emptyLines", "off": "#unfilter emptyLines",
                "def": "#define %s %s" % (k, v)}[kind]
        if kind == "on":
            filtering = True
        elif kind == "off":
            filtering = False
        else:
            l, c = linecol(text, pos)
            if count[k] > 1:
                out.append((l, c, "error", "Duplicate string with ID: " + k))
            if k in last_ref and last_ref[k] != v:
                out.append((l, c, "warning", "Changes to string require a new ID: " + k))
        if b >= 1 and not filtering:
            out.append(junk(pos + len(body), 1 + b))
        pos += len(body) + 1 + b
    return out


def suite_inc_sequence(chk, model, tmp):
    """several .inc files in one process: a `#filter emptyLines` left open in one file (linted
    earlier in the same lint() call, or used as the reference) must not change what is
    unparsed content in another"""
    from compare_locales.lint.linter import L10nLinter
    rng = chk.rng
    cases, impl, reqs, wires = [], [], [], []
    for i in range(chk.n(400, 4000)):
        root = os.path.join(tmp, "s%d" % i)
        nfiles = rng.randint(2, 4)
        descr = []
        for j in range(nfiles):
            # at least one file leaves the filter on and at least one has none
            text, lines, lead = gen_inc(rng, unclosed=True if j == 0 else False if j == 1 else None)
            path = os.path.join(root, "f%d" % j, rng.choice(["defines.inc", "a.inc"]))
            write_file(path, text, rng)
            ref_path = ref_lines = ref_text = None
            if rng.random() < 0.5:
                ref_text, ref_lines, _ = gen_inc(rng, unclosed=rng.random() < 0.6, ref_of=lines)
                ref_path = os.path.join(root, "ref%d" % j, os.path.basename(path))
                write_file(ref_path, ref_text, rng)
            descr.append({"fmt": "inc", "path": path, "ref": ref_path, "text": text,
                          "ref_text": ref_text, "mode": "file" if ref_path else "none",
                          "extra": None,
                          "expected": expected_inc(text, lines, lead, ref_lines)})
        order = list(descr)
        rng.shuffle(order)
        refs = {d["path"]: d["ref"] for d in descr}
        if rng.random() < 0.5:
            # one lint() call over all files
            files = [d["path"] for d in order]
            getref = (lambda p, refs=refs: (refs.get(p), None))
            got = run_impl(lambda: impl_dicts(L10nLinter().lint(iter(files), getref)))
            gots = [(d, got) for d in order]
            kind = "lint"
        else:
            # lint_file one after the other in the same process
            gots = [(d, run_impl(lambda d=d: impl_dicts(L10nLinter().lint_file(d["path"], d["ref"], None))))
                    for d in order]
            kind = "lint_file"
        for d, got in gots:
            if got[0] != 0:
                chk.fail("lint-raises", describe(d), {"got": got})
                continue
            rows = [r for r in got[1] if r[0] == d["path"]]
            if not matches_expected(rows, d["expected"]):
                chk.fail("lint-inc-sequence",
                         {"call": kind, "order": [os.path.relpath(x["path"], root) for x in order],
                          "file": os.path.relpath(d["path"], root),
                          "texts": {os.path.relpath(x["path"], root): [x["text"], x["ref_text"]]
                                    for x in order}},
                         {"got": [r[1:] for r in rows], "expected": [list(e) for e in d["expected"]]})
        # the model on the same calls
        if kind == "lint":
            w = Wire()
            env = [[], [], [], [], []]
            table = []
            for d in order:
                parses, isf, eqs, chk_entry, results = parse_for_model(w, d["path"], d["ref"], None)
                env[0] += parses
                env[1] += isf
                env[2] += eqs
                env[3].append(chk_entry)
                env[4] += results
                table.append([canon(d["path"]), opt(d["ref"], canon), []])
            reqs.append((2, [env, [canon(d["path"]) for d in order], table]))
            cases.append({"call": kind, "texts": [[d["text"], d["ref_text"]] for d in order]})
            impl.append(gots[0][1])
            wires.append(w)
        else:
            for d, got in gots:
                w = Wire()
                parses, isf, eqs, chk_entry, results = parse_for_model(w, d["path"], d["ref"], None)
                reqs.append((1, [[parses, isf, eqs, [chk_entry], results], canon(d["path"]),
                                 opt(d["ref"], canon), []]))
                cases.append({"call": kind, "text": d["text"], "ref_text": d["ref_text"]})
                impl.append(got)
                wires.append(w)
        chk.count(("incseq", kind, [(d["text"], d["ref_text"]) for d in order]))
        chk.hist("inc_sequence_call", kind)
        if i == 2:
            chk.sample({"suite": "LINT-inc-sequence", "call": kind,
                        "texts": [[d["text"], d["ref_text"]] for d in order], "impl": gots[-1][1]})
        shutil.rmtree(root, ignore_errors=True)
    if model:
        outs = model.call(reqs, chunk=300)
        outs = [w.decode(o, True) for w, o in zip(wires, outs)]
        chk.correspond("LINT-inc-sequence", cases, impl, outs)


# ------------------------------------------- a project, real entry point ---
def suite_project(chk, model, tmp):
    """moz-l10n-lint end to end, in reference-project and in l10n-reference mode: a project
    configuration with 2-4 `paths` entries (each its own subtree, l10n location and `test`
    annotation), sometimes behind a generic entry that overlaps them all (the last configured
    entry that matches decides the reference location and the tests), files enumerated by
    ProjectFiles.iter_reference, references found by mirror_reference_and_tests /
    l10n_base_reference_and_tests; every file
    has exactly one string changed in the reference project, so every file gets exactly one
    changed-ID warning whichever entry covers it.  Both L10nLinter().lint as lint/cli.py
    drives it and lint.cli.main() itself (printed lines, return code)."""
    import contextlib
    import io
    import sys
    from compare_locales.lint.linter import L10nLinter
    from compare_locales.lint import util, cli
    from compare_locales import paths, parser
    rng = chk.rng
    cases, impl, reqs, wires = [], [], [], []
    fmts = [f for f in FORMATS if f.name in ("properties", "dtd", "ftl", "ini", "inc")]
    for i in range(chk.n(150, 1500)):
        proj = os.path.join(tmp, "j%d" % i)
        refroot = os.path.join(tmp, "j%d-ref" % i)
        subs = rng.sample(["browser", "toolkit", "mobile", "devtools", "dom"], rng.randint(2, 4))
        how = rng.choice(["mirror", "l10n-base"])
        base = os.path.join(tmp, "j%d-base" % i)
        # sometimes a generic entry FIRST that overlaps all the specific ones (the last
        # configured entry that matches wins): other l10n location, other tests
        overlap = rng.random() < 0.5
        toml = 'basepath = "."\nlocales = ["de"]\n'
        tests_of = {}
        if overlap:
            tests_of[None] = rng.choice([None, ["other"]])
            toml += '[[paths]]\n    reference = "en/**"\n    l10n = "{l10n_base}/{locale}/**"\n'
            if tests_of[None] is not None:
                toml += "    test = %s\n" % json.dumps(tests_of[None])
        for sub in subs:
            tests_of[sub] = rng.choice([None, ["android-dtd"], ["android-dtd", "other"]])
            toml += ('[[paths]]\n    reference = "en/%s/**"\n    l10n = "{l10n_base}/{locale}/x-%s/**"\n'
                     % (sub, sub))
            if tests_of[sub] is not None:
                toml += "    test = %s\n" % json.dumps(tests_of[sub])
        write_file(os.path.join(proj, "l10n.toml"), toml, rng)
        os.makedirs(os.path.join(base, "de"), exist_ok=True)
        descr = []
        for sub in subs + (["generic-only"] if overlap else []):
            entry = sub if sub in tests_of else None
            for j in range(rng.randint(1, 2)):
                fmt = rng.choice(fmts)
                keys = rng.sample(KEYS, rng.randint(2, 4))
                if rng.random() < 0.3:
                    keys.append(keys[0])                         # a duplicate: errors
                recs = [{"t": "ent", "key": k, "val": "v%d" % n, "val2": "w", "viol": None,
                         "comment": rng.random() < 0.2, "sep": " = ", "term": False}
                        for n, k in enumerate(keys)]
                if fmt.name == "dtd" and "android-dtd" in (tests_of[entry] or []) and rng.random() < 0.6:
                    recs[0]["viol"] = "apos"     # an error only the entry's android-dtd test finds
                if fmt.name == "ftl" and rng.random() < 0.5:
                    recs[0]["viol"] = rng.choice(["selref", "ref", "attr-selref"])
                text, info = print_file(fmt, recs)
                inner = rng.choice(["", "deep/"]) + "f%d%s" % (j, fmt.ext)
                rel = os.path.join("en", sub, inner)
                path = os.path.join(proj, rel)
                write_file(path, text, rng)
                ref_recs = [dict(r) for r in recs]
                ref_recs[-1]["val"] = "changed"                  # the one changed string
                ref_text, _ = print_file(fmt, ref_recs)
                if how == "mirror":
                    ref_path = os.path.join(refroot, rel)
                elif entry is None:
                    ref_path = os.path.join(base, "de", sub, inner)
                else:
                    ref_path = os.path.join(base, "de", "x-" + sub, inner)
                write_file(ref_path, ref_text, rng)
                descr.append({"fmt": fmt.name, "path": path, "rel": rel, "ref": ref_path, "text": text,
                              "ref_text": ref_text, "mode": "file", "extra": tests_of[entry],
                              "expected": expected_results(fmt, recs, text, info, ref_recs)})
        if rng.random() < 0.4:
            write_file(os.path.join(proj, "en", subs[0], "README.txt"), "k = v\nk = w\n", rng)
        with_w = rng.random() < 0.5
        # 1. the steps of lint/cli.py with the real functions
        if how == "mirror":
            pc = paths.TOMLParser().parse(os.path.join(proj, "l10n.toml"), env={"l10n_base": "."})
            pf = paths.ProjectFiles(None, [pc])
            getref = util.mirror_reference_and_tests(pf, refroot)
        else:
            pc = paths.TOMLParser().parse(os.path.join(proj, "l10n.toml"), env={"l10n_base": base})
            pc.set_locales(["de"], deep=True)
            pf = paths.ProjectFiles("de", [pc])
            getref = util.l10n_base_reference_and_tests(pf)
        files = [f for f, _, _, _ in pf.iter_reference() if parser.hasParser(f)]
        got = run_impl(lambda: impl_dicts(L10nLinter().lint(iter(files), getref)))
        if sorted(files) != sorted(d["path"] for d in descr):
            chk.fail("project-enumeration", {"toml": toml, "files": [d["rel"] for d in descr]},
                     {"got": [os.path.relpath(f, proj) for f in files]})
        w = Wire()
        env = [[], [], [], [], []]
        table = []
        for d in descr:
            ref, tests = getref(d["path"])
            # an entry without `test` gives an empty collection of tests
            if ref != d["ref"] or sorted(tests or []) != sorted(d["extra"] or []):
                chk.fail("lint-reference-path", {"how": "project " + how, "toml": toml, "path": d["rel"]},
                         {"got": [None if ref is None else os.path.relpath(ref, tmp), repr(tests)],
                          "expected": [os.path.relpath(d["ref"], tmp), d["extra"]]})
            case = dict(describe(d), toml=toml, path=d["rel"])
            if got[0] != 0:
                chk.fail("lint-raises", case, {"got": got})
            else:
                rows = [r for r in got[1] if r[0] == d["path"]]
                if not matches_expected(rows, d["expected"]):
                    nchg = len([r for r in rows if r[4].startswith("Changes to string")])
                    chk.fail("project-changed-id" if nchg != 1 else "lint-checks", case,
                             {"got": [r[1:] for r in rows], "expected": [list(e) for e in d["expected"]]})
            parses, isf, eqs, chk_entry, results = parse_for_model(w, d["path"], ref, tests)
            env[0] += parses
            env[1] += isf
            env[2] += eqs
            env[3].append(chk_entry)
            env[4] += results
            table.append([canon(d["path"]), opt(ref, canon), opt(None if tests is None else 1)])
        reqs.append((2, [env, [canon(f) for f in files], table]))
        cases.append({"toml": toml, "files": [[d["rel"], d["text"], d["ref_text"]] for d in descr]})
        impl.append(got)
        wires.append(w)
        # 2. the command itself
        argv, cwd, out = sys.argv, os.getcwd(), io.StringIO()
        try:
            os.chdir(proj)
            sys.argv = ["moz-l10n-lint"] + (["-W"] if with_w else []) + \
                (["--reference-project", refroot] if how == "mirror" else
                 ["--l10n-reference", os.path.join(base, "de")]) + ["l10n.toml"]
            with contextlib.redirect_stdout(out):
                rv = run_impl(cli.main)
        finally:
            sys.argv = argv
            os.chdir(cwd)
        exp_lines, any_error = [], False
        for d in sorted(descr, key=lambda d: d["path"]):
            for (l, c, lvl, msg) in d["expected"]:
                # the position of a checker result is not fixed by the oracle
                exp_lines.append("%s (%s): %s" % (d["rel"], "*" if l is None else "%d:%d" % (l, c), msg))
                any_error = any_error or lvl == "error"
        exp_rv = 1 if (any_error or (with_w and exp_lines)) else 0
        lines = out.getvalue().splitlines()
        same = len(lines) == len(exp_lines) and all(
            g == e or ("(*)" in e and re.fullmatch(re.escape(e).replace(r"\(\*\)", r"\(\d+:\d+\)"), g))
            for g, e in zip(lines, exp_lines))
        if rv != [0, exp_rv] or not same:
            chk.fail("project-cli", {"toml": toml, "W": with_w, "how": how,
                                     "files": [[d["rel"], d["text"], d["ref_text"]] for d in descr]},
                     {"got": [rv, lines], "expected": [exp_rv, exp_lines]})
        chk.count(("project", toml, [(d["rel"], d["text"]) for d in descr]))
        chk.hist("project_entries", len(subs) + int(overlap))
        chk.hist("project_mode", how + (" overlapping" if overlap else ""))
        if i == 1:
            chk.sample({"suite": "LINT-project", "toml": toml, "files": [d["rel"] for d in descr],
                        "cli output": lines, "cli rv": rv})
        shutil.rmtree(proj, ignore_errors=True)
        shutil.rmtree(refroot, ignore_errors=True)
        shutil.rmtree(base, ignore_errors=True)
    if model:
        outs = model.call(reqs, chunk=200)
        outs = [w.decode(o, True) for w, o in zip(wires, outs)]
        chk.correspond("LINT-project", cases, impl, outs)


# -------------------------------------- .properties from the TEXT alone ---
TEXT_FORMATS = [("properties", 0, "LINT-properties-text"), ("ini", 1, "LINT-ini-text"),
                ("dtd", 2, "LINT-dtd-text")]


def suite_props_text(chk, model, tmp):
    for fmt_name, code, suite in TEXT_FORMATS:
        suite_text(chk, model, tmp, fmt_name, code, suite)


def suite_text(chk, model, tmp, fmt_name, code, suite):
    """the end-to-end model (Model/LintProps.v: parser model, entity objects, Entry.equals over
    the unescaped values, junk keys, the linter) fed nothing but the two TEXTS, the value of
    Junk.junkid and the real checker's results by entity start offset"""
    from compare_locales import parser, checks
    from compare_locales.paths import File, REFERENCE_LOCALE
    from compare_locales.lint.linter import L10nLinter
    rng = chk.rng
    cases, impl, reqs, decs = [], [], [], []

    def read(path):
        with open(path, encoding="utf-8", errors="replace", newline=None) as f:
            return f.read()
    for i in range(chk.n(350, 2500)):
        c = gen_file_case(rng, tmp, "t%d" % i, fmts=[FMT_BY_NAME[fmt_name]],
                          extra="random" if fmt_name == "dtd" else None,
                          bom=fmt_name == "dtd" and rng.random() < 0.2)
        j0 = parser.Junk.junkid
        got = run_impl(lambda: impl_dicts(L10nLinter().lint_file(c["path"], c["ref"], c["extra"])))
        check_expected(chk, c, got, tmp)
        if got[0] == 0:
            got = [0, [r[1:] for r in got[1]]]
        text = read(c["path"])
        ref_text = read(c["ref"]) if c["ref"] is not None and os.path.isfile(c["ref"]) else None
        p = parser.getParser(c["path"])
        p.readUnicode(text)
        current = p.parse()
        checker = checks.getChecker(File(c["path"], c["path"], locale=REFERENCE_LOCALE),
                                    extra_tests=c["extra"])
        if checker.needs_reference:
            checker.set_reference(current)
        msgs, results, junk_vals = [], [], {}
        for e in current:
            if isinstance(e, parser.Junk):
                junk_vals[e.span[0]] = e.val
                continue
            res = []
            for tp, pos, msg, cat in checker.check(e, e):
                msgs.append(msg)
                if isinstance(pos, tuple):
                    res.append([LEVEL[tp], 2, pos[0], pos[1], len(msgs) - 1, 0])
                else:
                    kind = 0 if isinstance(pos, checks.EntityPos) else 1
                    res.append([LEVEL[tp], kind, int(pos), 0, len(msgs) - 1, 0])
            if res:
                results.append([e.span[0], res])
        table = []
        if fmt_name == "dtd":
            # html.unescape is a parameter of the model: its values on the raw values at hand
            import html
            raws = {e.raw_val for e in current if not isinstance(e, parser.Junk)}
            if ref_text is not None:
                p.readUnicode(ref_text)
                raws |= {e.raw_val for e in p.parse() if not isinstance(e, parser.Junk)}
            table = [[canon(r), canon(html.unescape(r))] for r in sorted(raws)]
        reqs.append((5, [j0, canon(text), opt(ref_text, canon), [results], code, table]))

        def dec(out, msgs=msgs, junk_vals=junk_vals):
            if out[0] != 0:
                return out
            rows = []
            for lineno, col, lvl, m in out[1]:
                if m[0] == 0:
                    msg = "Duplicate string with ID: " + common.l2s(m[1])
                elif m[0] == 1:
                    msg = "Changes to string require a new ID: " + common.l2s(m[1])
                elif m[0] == 2:
                    msg = ('Unparsed content "%s" from line %d column %d to line %d column %d'
                           % ((junk_vals.get(m[1]),) + tuple(m[2:6])))
                else:
                    msg = msgs[m[1]]
                rows.append([lineno, col, "error" if lvl == 0 else "warning", msg])
            return [0, rows]
        decs.append(dec)
        cases.append(describe(c))
        impl.append(got)
        chk.count(("text", fmt_name, c["text"], c["ref_text"], c["mode"]))
        if i == 4:
            chk.sample({"suite": suite, "text": text, "reference": ref_text, "impl": got})
        shutil.rmtree(os.path.join(tmp, "t%d" % i), ignore_errors=True)
        shutil.rmtree(os.path.join(tmp, "ref-t%d" % i), ignore_errors=True)
    if model:
        outs = model.call(reqs, chunk=500)
        outs = [d(o) for d, o in zip(decs, outs)]
        chk.correspond(suite, cases, impl, outs)


FMT_BY_NAME = {f.name: f for f in FORMATS}


def run(chk, runner_ok):
    model = Model("C19") if runner_ok else None
    try:
        with warnings.catch_warnings():
            warnings.simplefilter("ignore")
            from pkg_resources import iter_entry_points
            eps = list(iter_entry_points("compare_locales.parsers"))
    except ImportError:
        eps = []
    if eps:
        chk.obligations.append(common.Obligation(
            "no compare_locales.parsers entry points installed", "environment", False, repr(eps)))
    chk.assumptions.append("getParser's entry-point plugins (pkg_resources) are a parameter of the "
                           "model (plugins); the harness runs with none installed")
    if runner_ok:
        rxsuite.run_rx(chk, groups=["c19"])
    # record at most 8 failing inputs per failure family, so that every family shows
    seen, record = {}, chk.fail

    def fail(signature, case, detail):
        seen[signature] = seen.get(signature, 0) + 1
        if seen[signature] <= 8 or any(k["signature"] == signature for k in chk.known):
            record(signature, case, detail)
    chk.fail = fail
    tmp = tempfile.mkdtemp(prefix="verif_c19_")
    try:
        for suite, args in ((suite_hasparser, ()), (suite_position, ()), (suite_entity_small, ()),
                            (suite_entity, ()),
                            (suite_file, (tmp,)), (suite_lint, (tmp,)),
                            (suite_inc_sequence, (tmp,)), (suite_project, (tmp,)),
                            (suite_props_text, (tmp,))):
            t_suite = time.time()
            try:
                suite(chk, model, *args)
                chk.notes.append("suite %s: %.1f s" % (suite.__name__, time.time() - t_suite))
            except Exception:  # noqa: a suite that cannot run is a failed check, not a crash
                chk.fail("suite-crashed-" + suite.__name__, {"suite": suite.__name__},
                         traceback.format_exc()[-1500:])
    finally:
        shutil.rmtree(tmp, ignore_errors=True)
    chk.trusted.append("Entity.equals, the parsers, os.path.isfile and the format checkers are "
                       "parameters of the model; the harness supplies the implementation's values")


def replay(chk, path):
    data = json.load(open(path))
    rc = 0
    for f in data.get("failures", []):
        print("failure", f["signature"], json.dumps(f["case"])[:2000])
        c = f["case"]
        if "fmt" in c and "text" in c:
            from compare_locales.lint.linter import L10nLinter
            fmt = FMT_BY_NAME[c["fmt"]]
            tmp = tempfile.mkdtemp(prefix="verif_c19_")
            try:
                name = "strings.xml" if fmt.android else "a" + fmt.ext
                p = os.path.join(tmp, "cur", name)
                os.makedirs(os.path.dirname(p))
                open(p, "w", encoding="utf-8").write(c["text"])
                rp = None
                if c.get("ref_text") is not None:
                    rp = os.path.join(tmp, "ref", name)
                    os.makedirs(os.path.dirname(rp))
                    open(rp, "w", encoding="utf-8").write(c["ref_text"])
                got = run_impl(lambda: impl_dicts(L10nLinter().lint_file(p, rp, c.get("extra"))))
                rows = got[1] if got[0] == 0 else got
                print("  impl now:", [r[1:] for r in rows] if got[0] == 0 else rows)
                print("  expected then:", f["detail"].get("expected"))
                exp = f["detail"].get("expected")
                if got[0] != 0 or exp is None:
                    rc = 1
                else:
                    exp = [(e[0], e[1], e[2], tuple(e[3]) if isinstance(e[3], list) else e[3]) for e in exp]
                    rc |= int(not matches_expected(rows, exp))
            finally:
                shutil.rmtree(tmp, ignore_errors=True)
        elif f["signature"] == "hasparser-suffix":
            from compare_locales import parser
            has = parser.hasParser(c["path"])
            print("  impl now:", has, "expected:", f["detail"]["expected"])
            rc |= int(has != f["detail"]["expected"])
        else:
            rc = 1      # hand-made entity lists / projects are not stored: re-run the check
    for d in data.get("disagreements", []):
        print("disagreement", json.dumps(d, default=str)[:2000])
        rc = 1
    return int(rc)
