"""C08 — Fluent: structural mismatches are errors, text differences never are.

Suites
  RX[c08]     engine + translator on `_css_spec`, `_css_sep` (created by
              CSSCheckMixin.parse_css_spec) and base.mochibake
  CSS-parse   parse_css_spec on strings over the CSS token alphabet against the model
  CSS-style   check_style(parse(ref) or {}, *parse(l10n)) on pairs of such strings
  PLURALS     plurals.get_plural for every locale of the table, region variants, unknown
              locales and None against the model over the generated tables
  FTL-CHECK   pairs of entries from a shape grammar, printed to FTL text by the printer
              below, parsed by the real FluentParser (getParser('x.ftl')); the parsed
              fluent.syntax AST is converted (not re-parsed) to the model's term;
              getChecker(File('x.ftl','x.ftl',locale=L)).check(refEntity, l10nEntity)
              against the extracted model, for a handful of locales
  FTL-E2E     the same grammar end to end: reference and localized `x.ftl` files written to a
              temporary directory; ContentComparer().compare(File(ref), File(l10n, locale=L), None)
              with a recording Observer for several locales, and L10nLinter().lint_file(l10n, ref,
              []); ids in several styles (plain, containing key/Key), localized entries that ARE
              the reference entry (verbatim copies: [one]/*[other] under ru, duplicated attributes
              and bad style on both sides), terms; every notification "<msg> at line L, column C
              for <key>" is mapped back to its entry and offset through the text written to disk
              and judged by the same by-construction oracle; the model (fed the parsed entries)
              must predict the same notifications (FTL-E2E-compare, FTL-E2E-lint)
Oracle (implementation only): while printing, the printer records by construction what
the entry contains at the level of the property's wording (value or not, attribute
names with offsets, references that stand in a pattern of the value / of an attribute,
select expressions with their keys, style attributes built from a list of CSS specs or
deliberately broken); the expected issues (severity, offset, kind, argument) follow from
these records by set operations — no AST, no visitor, no regular expression.
"""
import copy
import json
import os
import re

from harness import common, rxsuite
from harness.common import Model, canon, impl_result

RUNNERS = ["RX"]
FACTS = ("tables", "c08")

RULE = ("entry pairs from a shape grammar: value present or not, 0-4 attributes from a small "
        "name pool (so names collide and repeat) including `style` with CSS built from spec "
        "lists / broken on purpose / non-plain, patterns of text, message / term / attribute "
        "references, variables, literals, function calls with arguments, nested placeables and "
        "select expressions (plural-category, numeric and other keys, duplicated keys, nested "
        "selects, references hidden in selectors and term arguments), attached comments, "
        "U+FFFD in text, messages and terms on either side; the localized entry is a mutated "
        "copy of the reference (0-4 shape edits) or independent; each pair is checked for "
        "several locales with different plural categories (and no locale). A case is distinct "
        "by (reference text, localized text, locale); non-trivial = at least one issue reported")

# ------------------------------------------------------------------ shapes ---
MSG_IDS = ["foo", "bar", "baz-qux", "menu"]
MSG_ATTRS = ["title", "label"]
TERM_IDS = ["brand", "vendor-name"]
ATTR_NAMES = ["title", "label", "style", "accesskey"]
VARS = ["n", "count"]
FUNS = ["NUMBER", "DATETIME", "PLATFORM"]
CATS = ["zero", "one", "two", "few", "many", "other"]
WORDKEYS = ["masculine", "feminine", "a"]
NUMKEYS = ["0", "1", "1.0", "2"]
WORDS = ["Hello", "world", "a b", "x", "Füße", "10px", "it's", "q: r", "�", "o�ps", "-", "="]
LOCALES = ["en-US", "de", "ru", "ar", "ja", "cy", "lt", "ga-IE", "pl", "x-unknown", None]

PROPS = ["width", "height", "min-width", "max-width", "min-height", "max-height"]
UNITS = ["ch", "em", "ex", "rem", "px", "cm", "mm", "in", "pc", "pt"]
LENGTHS = ["1", "10", "0.5", ".5", "12.25"]


# characters Python's \s matches that are NOT CSS white space (CSS: space, tab, CR, LF only)
NOT_CSS_WS = ["\u00a0", "\u2003", "\u3000", "\u202f", "\f", "\v"]


def gen_css(rng):
    """('text', css text, info); info = ('good', {prop: unit}) | ('bad',)"""
    specs = [(rng.choice(PROPS[:3] if rng.random() < 0.7 else PROPS), rng.choice(LENGTHS),
              rng.choice(UNITS[:3] if rng.random() < 0.7 else UNITS)) for _ in range(rng.randint(1, 3))]
    ws = lambda: rng.choice(["", " ", "  "])  # noqa: E731
    r = rng.random()
    if r < 0.15:
        # valid EXCEPT for one foreign white-space character: next to a colon, next to a separating
        # semicolon, or after the last declaration -- not a CSS size spec
        bad = rng.choice(NOT_CSS_WS)
        where = rng.choice(["colon-before", "colon-after", "sep-before", "sep-after", "end", "end-semi"])
        if where.startswith("sep") and len(specs) < 2:
            where = rng.choice(["colon-before", "colon-after", "end", "end-semi"])
        k = rng.randrange(len(specs))                   # which declaration / separator
        parts = []
        for i, (p, ln, u) in enumerate(specs):
            a = (bad if where == "colon-before" and i == k else "") + ws()
            b = ws() + (bad if where == "colon-after" and i == k else "")
            parts.append(p + a + ":" + b + ln + u)
        ksep = rng.randrange(1, len(specs)) if len(specs) > 1 else 0
        text = parts[0]
        for i, part in enumerate(parts[1:], 1):
            text += ws() + (bad if where == "sep-before" and i == ksep else "") + ";" + \
                (bad if where == "sep-after" and i == ksep else "") + ws() + part
        if where == "end":
            text += bad
        elif where == "end-semi":
            text += ws() + ";" + bad
        return ("text", text, ("bad",))
    parts = [p + ws() + ":" + ws() + ln + u for p, ln, u in specs]
    if r < 0.65:
        text = parts[0]
        for p in parts[1:]:
            text += ws() + ";" + ws() + p
        if rng.random() < 0.5:
            text += ws() + ";"
        m = {}
        for p, _, u in specs:
            m[p] = u
        return ("text", text, ("good", m))
    if r < 0.73 and len(parts) > 1:                     # a separator without the semicolon
        k = rng.randrange(1, len(parts))
        text = parts[0]
        for i, p in enumerate(parts[1:], 1):
            text += (" " if i == k else "; ") + p
        return ("text", text, ("bad",))
    if r < 0.87:                                       # foreign content somewhere
        k = rng.randint(0, len(parts))
        items = parts[:k] + [rng.choice(["foo", "width", "10px", "color: red", "width: 10"])] + parts[k:]
        return ("text", "; ".join(items), ("bad",))
    if r < 0.94:                                       # unknown unit / glued garbage
        return ("text", parts[0] + rng.choice(["x", "q", "%"]), ("bad",))
    return ("text", rng.choice(["auto", "none", "10", "width", "wide: 1px"]), ("bad",))


def gen_text(rng):
    return ("text", rng.choice(WORDS), None)


def gen_inline(rng, depth, where):
    """an inline expression; where: 'placeable' | 'arg' | 'selector'"""
    r = rng.random()
    if where == "selector":
        if r < 0.55:
            return ("var", rng.choice(VARS))
        if r < 0.7:
            return ("fun", rng.choice(FUNS), gen_args(rng, depth + 1), gen_named(rng))
        if r < 0.8:
            return ("term", rng.choice(TERM_IDS), rng.choice(MSG_ATTRS),
                    None if rng.random() < 0.6 else (gen_args(rng, depth + 1), gen_named(rng)))
        if r < 0.9:
            return ("num", rng.choice(NUMKEYS))
        return ("str", rng.choice(["", "s", "a\\\"b"]))
    if r < 0.3:
        return ("msg", rng.choice(MSG_IDS), rng.choice(MSG_ATTRS) if rng.random() < 0.35 else None)
    if r < 0.5:
        attr = rng.choice(MSG_ATTRS) if where == "arg" and rng.random() < 0.3 else None
        args = None if rng.random() < 0.7 else (gen_args(rng, depth + 1), gen_named(rng))
        return ("term", rng.choice(TERM_IDS), attr, args)
    if r < 0.65:
        return ("var", rng.choice(VARS))
    if r < 0.72:
        return ("num", rng.choice(NUMKEYS))
    if r < 0.78:
        return ("str", rng.choice(["", "s", "{", "\\u00e9"]))
    if r < 0.9 and depth < 3:
        return ("fun", rng.choice(FUNS), gen_args(rng, depth + 1), gen_named(rng))
    if depth < 3:
        return ("place", gen_select(rng, depth + 1) if rng.random() < 0.5 else gen_inline(rng, depth + 1, "placeable"))
    return ("var", rng.choice(VARS))


def gen_args(rng, depth):
    return [gen_inline(rng, depth, "arg") for _ in range(rng.choice([0, 1, 1, 2]))]


def gen_named(rng):
    return [(rng.choice(["style", "kind"]), rng.choice([("num", "1"), ("str", "long")]))
            for _ in range(rng.choice([0, 0, 1]))]


def gen_keys(rng):
    r = rng.random()
    if r < 0.55:
        keys = [("id", c) for c in CATS if rng.random() < 0.45]
        if rng.random() < 0.3:
            keys.append(("num", rng.choice(NUMKEYS)))
    elif r < 0.75:
        keys = [rng.choice([("id", rng.choice(WORDKEYS)), ("num", rng.choice(NUMKEYS))])
                for _ in range(rng.randint(1, 3))]
    else:
        keys = [("id", rng.choice(CATS + WORDKEYS)) for _ in range(rng.randint(1, 4))]
    if not keys:
        keys = [("id", "other")]
    while rng.random() < 0.25:                          # duplicated keys
        keys.insert(rng.randint(0, len(keys)), rng.choice(keys))
    rng.shuffle(keys)
    return keys


def gen_select(rng, depth):
    keys = gen_keys(rng)
    d = rng.randrange(len(keys))
    return ("sel", gen_inline(rng, depth, "selector"),
            [[k, i == d, gen_pattern(rng, depth + 1)] for i, k in enumerate(keys)])


def gen_pattern(rng, depth=0):
    n = rng.choice([1, 1, 2, 3, 4])
    out = []
    for _ in range(n):
        if (not out or out[-1][0] != "text") and rng.random() < 0.5:
            out.append(gen_text(rng))
        elif rng.random() < 0.25 and depth < 2:
            out.append(("place", gen_select(rng, depth)))
        else:
            out.append(("place", gen_inline(rng, depth, "placeable")))
    return out


def gen_attr(rng, name=None):
    name = name or rng.choice(ATTR_NAMES)
    if name == "style" and rng.random() < 0.85:
        return [name, [gen_css(rng)]]
    return [name, gen_pattern(rng)]


def gen_entry(rng, term=None):
    term = (rng.random() < 0.12) if term is None else term
    attrs = [gen_attr(rng) for _ in range(rng.choice([0, 0, 1, 1, 2, 3, 4]))]
    value = gen_pattern(rng) if term or not attrs or rng.random() < 0.8 else None
    return {"term": term, "comment": rng.random() < 0.2, "value": value, "attrs": attrs}


def all_patterns(e):
    out = []

    def pat(p):
        out.append(p)
        for el in p:
            if el[0] == "place":
                ex(el[1])

    def ex(x):
        if x[0] == "sel":
            ex(x[1])
            for v in x[2]:
                pat(v[2])
        elif x[0] == "place":
            ex(x[1])
        elif x[0] == "fun":
            for a in x[2]:
                ex(a)
        elif x[0] == "term" and x[3]:
            for a in x[3][0]:
                ex(a)
    if e["value"]:
        pat(e["value"])
    for a in e["attrs"]:
        pat(a[1])
    return out


def all_selects(e):
    out = []

    def walk(x):
        if isinstance(x, (list, tuple)):
            if x and x[0] == "sel":
                out.append(x)
            for y in x:
                walk(y)
    walk(e["value"])
    walk(e["attrs"])
    return out


def normalise(p):
    """no adjacent texts, never empty"""
    out = []
    for el in p:
        if el[0] == "text" and out and out[-1][0] == "text":
            continue
        out.append(el)
    return out or [("text", "t", None)]


def mutate(rng, e):
    e = copy.deepcopy(e)
    for _ in range(rng.choice([0, 1, 1, 2, 3, 4])):
        op = rng.randrange(11)
        pats = all_patterns(e)
        if op == 0:                                    # other text everywhere
            for p in pats:
                for i, el in enumerate(p):
                    if el[0] == "text" and el[2] is None:
                        p[i] = gen_text(rng)
        elif op == 1:                                  # value appears / disappears
            if e["value"] is None:
                e["value"] = gen_pattern(rng)
            elif e["attrs"] and not e["term"]:
                e["value"] = None
        elif op == 2 and e["attrs"]:                   # drop an attribute
            del e["attrs"][rng.randrange(len(e["attrs"]))]
            if not e["attrs"] and e["value"] is None:
                e["value"] = gen_pattern(rng)
        elif op == 3:                                  # add an attribute (maybe a repeated name)
            e["attrs"].insert(rng.randint(0, len(e["attrs"])), gen_attr(rng))
        elif op == 4 and e["attrs"]:                   # repeat an attribute name
            a = rng.choice(e["attrs"])
            e["attrs"].insert(rng.randint(0, len(e["attrs"])), gen_attr(rng, a[0]))
        elif op == 5 and pats:                         # a placeable more
            p = rng.choice(pats)
            if not (len(p) == 1 and p[0][0] == "text" and p[0][2]):
                p.insert(rng.randint(0, len(p)), ("place", gen_inline(rng, 2, "placeable")))
        elif op == 6 and pats:                         # a placeable less
            p = rng.choice(pats)
            ix = [i for i, el in enumerate(p) if el[0] == "place"]
            if ix:
                del p[rng.choice(ix)]
                p[:] = normalise(p)
        elif op == 7:                                  # variants
            sels = all_selects(e)
            if sels:
                s = rng.choice(sels)
                r = rng.random()
                if r < 0.4 and len(s[2]) > 1:
                    k = rng.choice([i for i, v in enumerate(s[2]) if not v[1]])
                    del s[2][k]
                elif r < 0.7:
                    s[2].insert(rng.randint(0, len(s[2])),
                                [rng.choice(s[2])[0], False, gen_pattern(rng, 2)])
                else:
                    s[2].insert(rng.randint(0, len(s[2])),
                                [("id", rng.choice(CATS)), False, gen_pattern(rng, 2)])
        elif op == 8:                                  # the style attribute
            st = [a for a in e["attrs"] if a[0] == "style"]
            if st:
                rng.choice(st)[1] = [gen_css(rng)] if rng.random() < 0.8 else gen_pattern(rng)
            else:
                e["attrs"].append(gen_attr(rng, "style"))
        elif op == 9 and e["attrs"]:                   # rename an attribute
            rng.choice(e["attrs"])[0] = rng.choice(ATTR_NAMES)
        elif op == 10:
            e["comment"] = not e["comment"]
    for a in e["attrs"]:
        a[1] = normalise(a[1])
    if e["value"] is not None:
        e["value"] = normalise(e["value"])
    return e


# ----------------------------------------------------------------- printer ---
class Printer:
    """prints an entry and records, by construction, what the property speaks about.
    All offsets are relative to the start of the entry text."""

    def __init__(self):
        self.buf = []
        self.pos = 0
        self.key = None            # None = value, else attribute name: where references count
        self.hidden = 0            # > 0 inside a selector or the arguments of a term reference
        self.refs = []             # (key, offset, name, is_term) in a pattern of the value / an attribute
        self.selects = []          # (hidden, [(key kind, key text, offset)])

    def w(self, s):
        self.buf.append(s)
        self.pos += len(s)

    def pattern(self, p, indent):
        for el in p:
            if el[0] == "text":
                self.w(el[1])
            else:
                self.w("{ ")
                self.expr(el[1], indent)
                self.w(" }")

    def args(self, positional, named, indent):
        self.w("(")
        first = True
        for a in positional:
            if not first:
                self.w(", ")
            first = False
            self.expr(a, indent)
        for n, v in named:
            if not first:
                self.w(", ")
            first = False
            self.w(n + ": ")
            self.expr(v, indent)
        self.w(")")

    def expr(self, x, indent):
        k = x[0]
        if k == "var":
            self.w("$" + x[1])
        elif k == "num":
            self.w(x[1])
        elif k == "str":
            self.w('"' + x[1] + '"')
        elif k == "msg":
            name = x[1] + ("." + x[2] if x[2] else "")
            if not self.hidden:
                self.refs.append((self.key, self.pos, name, False))
            self.w(name)
        elif k == "term":
            if not self.hidden and x[2] is None:
                self.refs.append((self.key, self.pos, "-" + x[1], True))
            self.w("-" + x[1] + ("." + x[2] if x[2] else ""))
            if x[3] is not None:
                self.hidden += 1
                self.args(x[3][0], x[3][1], indent)
                self.hidden -= 1
        elif k == "fun":
            self.w(x[1])
            self.args(x[2], x[3], indent)
        elif k == "place":
            self.w("{ ")
            self.expr(x[1], indent)
            self.w(" }")
        elif k == "sel":
            self.hidden += 1
            self.expr(x[1], indent)
            self.hidden -= 1
            self.w(" ->")
            keys = []
            pad = " " * (indent + 4)
            for key, dflt, pat in x[2]:
                self.w("\n" + pad + ("*" if dflt else " ") + "[")
                keys.append((key[0], key[1], self.pos))
                self.w(key[1] + "] ")
                self.pattern(pat, indent + 4)
            self.w("\n" + " " * indent)
            self.selects.append((self.hidden > 0, keys))
        else:
            raise ValueError(k)

    def entry(self, e, ident):
        if e["comment"]:
            self.w("# about " + ident + "\n")
        self.w(("-" if e["term"] else "") + ident + " =")
        self.value_off = None
        if e["value"] is not None:
            self.w(" ")
            self.value_off = self.pos
            self.key = None
            self.pattern(e["value"], 4)
        self.attrs = []
        for name, pat in e["attrs"]:
            self.w("\n    ")
            off = self.pos
            self.w("." + name + " = ")
            self.key = name
            plain = len(pat) == 1 and pat[0][0] == "text"
            self.attrs.append({"name": name, "off": off, "plain": plain,
                               "css": pat[0][2] if plain else None})
            self.pattern(pat, 8)
        return "".join(self.buf)


# ------------------------------------------------------------------ oracle ---
def plural_cats(locale):
    """the locale's plural categories from the PINNED plural data (harness/plural_snapshot.py), not from the tree"""
    from harness import plural_snapshot
    return plural_snapshot.categories(locale)


def expected(rp, r, lp, l, locale):
    """rp, lp: Printer records of the reference / localized entry (r, l their shapes).
    -> sorted list of (severity, offset, kind, argument); argument None = not judged"""
    out = []
    cats = plural_cats(locale)

    def select_issues(keys):
        seen = {}
        for kk, kt, off in keys:
            seen.setdefault((kk, kt), []).append(off)
        for (kk, kt), offs in seen.items():
            if len(offs) > 1:
                for off in offs:
                    out.append(("warning", off, "duplicate-variant", kt))
        if cats:
            given = {kt for _, kt, _ in keys}
            if given & (set(cats) - {"other"}) and set(cats) - given:
                out.append(("warning", keys[0][2], "missing-plural", ", ".join(sorted(set(cats) - given))))

    names = [a["name"] for a in lp.attrs]
    for a in lp.attrs:
        if names.count(a["name"]) > 1:
            out.append(("warning", a["off"], "duplicate-attribute", a["name"]))
    if l["term"]:
        for _, keys in lp.selects:
            select_issues(keys)
        return sorted(out, key=skey)
    for hidden, keys in lp.selects:
        if not hidden:
            select_issues(keys)
    # value and attributes
    r_has_value = r["value"] is not None and not r["term"]
    if l["value"] is not None and not r_has_value:
        out.append(("error", lp.value_off, "obsolete-value", ""))
    if l["value"] is None and r_has_value:
        out.append(("error", 0, "missing-value", ""))
    rnames = {a["name"] for a in rp.attrs}
    for n in rnames - set(names):
        out.append(("error", 0, "missing-attribute", n))
    for n in set(names) - rnames:
        out.append(("error", [a["off"] for a in lp.attrs if a["name"] == n][-1], "obsolete-attribute", n))
    # style
    rstyles = [a for a in rp.attrs if a["name"] == "style"]
    # the reference's map: of its last style attribute.  Built from a spec list: that map;
    # absent, not plain text or plain words: empty.  Broken on purpose: whatever specs are still
    # found in it (the reference's own errors are ignored by the checker) -- CSS warnings are
    # then not judged (they are C07's subject; C08 is about the errors)
    rmap, rknown = {}, True
    if rstyles and rstyles[-1]["plain"] and rstyles[-1]["css"]:
        if rstyles[-1]["css"][0] == "good":
            rmap = rstyles[-1]["css"][1]
        else:
            rknown = False
    lstyles = [a for a in lp.attrs if a["name"] == "style" and a["plain"]]
    good = [a for a in lstyles if a["css"] and a["css"][0] == "good"]
    for a in lstyles:
        if a not in good:
            out.append(("error", 0, "css-error", ""))
    if len(good) == 1 and rknown:
        if good[0]["css"][1] != rmap:
            out.append(("warning", 0, "css-warning", None))
    elif good:
        # repeated style attribute (check_style pops from the reference's map) or a broken
        # reference spec: not judged
        out.append(("any", 0, "css-warning", None))
    # references
    keys = [None] + [a["name"] for a in rp.attrs]
    for k in dict.fromkeys(keys):
        rset = {(n, t) for kk, _, n, t in rp.refs if kk == k}
        lset = {n for kk, _, n, _ in lp.refs if kk == k}
        for n, t in rset:
            if n not in lset:
                out.append(("warning", 0, "missing-term-ref" if t else "missing-msg-ref", n))
    for k, off, n, t in lp.refs:
        if n not in {nn for kk, _, nn, _ in rp.refs if kk == k}:
            out.append(("warning", off, "obsolete-term-ref" if t else "obsolete-msg-ref", n))
    return sorted(out, key=skey)


def skey(x):
    return (x[1], x[2], x[0], x[3] or "")


_kinds = None


def kinds():
    """(literal prefix, MSGS key, literal suffix) of every MSGS template (read from the implementation)"""
    global _kinds
    if _kinds is None:
        from compare_locales.checks import fluent as cf
        ks = []
        for k, t in cf.MSGS.items():
            if k == "plain-message":
                continue
            if "{" in t:
                ks.append((t[:t.index("{")], k, t[t.index("}") + 1:], True))
            else:
                ks.append((t, k, "", False))
        _kinds = sorted(ks, key=lambda x: -len(x[0]))
    return _kinds


def classify(sev, msg, cat):
    """-> (kind, argument)"""
    if cat == "encodings":
        return "encoding", ""
    for prefix, k, suffix, has_arg in kinds():
        if has_arg and msg.startswith(prefix) and msg.endswith(suffix) and \
                len(msg) >= len(prefix) + len(suffix):
            return k, msg[len(prefix):len(msg) - len(suffix)]
        if not has_arg and msg == prefix:
            return k, ""
    return ("css-error" if sev == "error" else "css-warning"), None


def judge(chk, info, want, raw, text):
    """the property on the implementation's own answer (raw: the tuples of check())"""
    got = []
    enc = []
    for sev, pos, msg, cat in raw:
        k, arg = classify(sev, msg, cat)
        if k == "encoding":
            enc.append(int(pos))
            continue
        if cat != "fluent" or sev not in ("error", "warning"):
            chk.fail("category", info, str((sev, pos, msg, cat)))
        got.append((sev, int(pos), k, arg if k not in ("css-error", "css-warning") else
                    ("" if k == "css-error" else None)))
    judge_got(chk, info, want, got, enc, text)


def judge_got(chk, info, want, got, enc, text, prefix=""):
    """got: (severity, offset, kind, argument) in the order reported; enc: offsets of the
    encoding warnings; prefix: prepended to the signature (end-to-end streams)"""
    if enc != [i for i, c in enumerate(text) if c == "\ufffd"]:
        chk.fail(prefix + "encoding-warnings", info, {"got": enc})
    poss = [p for _, p, _, _ in got]
    if poss != sorted(poss):
        chk.fail(prefix + "not-sorted-by-position", info, {"got": got})
    free = [w for w in want if w[0] == "any"]
    want = [w for w in want if w[0] != "any"]
    g = sorted(got, key=skey)
    if free:
        g = [x for x in g if x[2] != "css-warning"]
    if g == want:
        return
    gerr = sorted((k, a or "") for s, _, k, a in g if s == "error")
    werr = sorted((k, a or "") for s, _, k, a in want if s == "error")
    if werr and not gerr:
        sig = "error-missed:" + werr[0][0]
    elif gerr and not werr:
        sig = "false-error:" + gerr[0][0]
    elif gerr != werr:
        sig = "errors-differ"
    elif sorted((s, k, a or "") for s, _, k, a in g) == sorted((s, k, a or "") for s, _, k, a in want):
        sig = "positions-differ"
    elif not g and want:
        sig = "warnings-missed"
    else:
        sig = "warnings-differ"
    chk.fail(prefix + sig, info, {"got": g, "expected": want})


# --------------------------------------------------------- implementation ---
def parse_entities(texts, terms=None, batch=6):
    """texts: entry texts (with ids k<i>) -> FluentEntity list; parsed from documents of a few
    entries each, so that span starts are non-zero but small (the model counts in unary)"""
    from compare_locales import parser
    out = []
    for b in range(0, len(texts), batch):
        part = texts[b:b + batch]
        src = "\n".join(part) + "\n"
        p = parser.getParser("x.ftl")
        p.readUnicode(src)
        ents = list(p.walk(only_localizable=True))
        bad = [e for e in ents if not isinstance(e, parser.FluentEntity)]
        if bad or len(ents) != len(part):
            raise RuntimeError("printer produced text the Fluent parser rejects: %r" %
                               (bad[0].all if bad else src[:300]))
        for e, t in zip(ents, part):
            if e.all != t:
                raise RuntimeError("entity text differs from the printed entry: %r vs %r" % (e.all, t))
        out.extend(ents)
    return out


def ostr(x):
    return [] if x is None else [canon(x)]


def expr_sx(n):
    from fluent.syntax import ast as ftl
    if isinstance(n, ftl.StringLiteral):
        return [0, canon(n.value)]
    if isinstance(n, ftl.NumberLiteral):
        return [1, canon(n.value)]
    if isinstance(n, ftl.VariableReference):
        return [2, canon(n.id.name)]
    if isinstance(n, ftl.MessageReference):
        return [3, n.span.start, canon(n.id.name), ostr(n.attribute.name if n.attribute else None)]
    if isinstance(n, ftl.TermReference):
        return [4, n.span.start, canon(n.id.name), ostr(n.attribute.name if n.attribute else None),
                [] if n.arguments is None else [args_sx(n.arguments)]]
    if isinstance(n, ftl.FunctionReference):
        return [5, canon(n.id.name), args_sx(n.arguments)]
    if isinstance(n, ftl.SelectExpression):
        return [6, expr_sx(n.selector),
                [[0 if isinstance(v.key, ftl.Identifier) else 1,
                  canon(v.key.name if isinstance(v.key, ftl.Identifier) else v.key.value),
                  v.key.span.start, int(v.default), pattern_sx(v.value)] for v in n.variants]]
    if isinstance(n, ftl.Placeable):
        return [7, expr_sx(n.expression)]
    raise TypeError(type(n))


def args_sx(a):
    return [expr_sx(x) for x in a.positional] + [expr_sx(x.value) for x in a.named]


def pattern_sx(p):
    from fluent.syntax import ast as ftl
    return [[0, canon(el.value)] if isinstance(el, ftl.TextElement) else [1, expr_sx(el.expression)]
            for el in p.elements]


def entry_sx(entry):
    from fluent.syntax import ast as ftl
    return [int(isinstance(entry, ftl.Term)), entry.span.start,
            [] if entry.value is None else [[entry.value.span.start, pattern_sx(entry.value)]],
            [[canon(a.id.name), a.span.start, pattern_sx(a.value)] for a in entry.attributes]]


def get_checker(locale):
    from compare_locales.checks import getChecker
    from compare_locales.paths import File
    return getChecker(File("x.ftl", "x.ftl", locale=locale))


def canon_issues(issues):
    """wire form; runs of missing-/obsolete-attribute errors with the same position come from
    iterating a Python set of strings (hash order): compared as multisets"""
    from compare_locales.checks import EntityPos
    out = [[int(s == "error"), [int(isinstance(p, EntityPos)), int(p)], canon(m), canon(c)]
           for s, p, m, c in issues]
    return canon_runs(out)


def attr_prefixes():
    from compare_locales.checks import fluent as cf
    return [canon(cf.MSGS[k].split("{")[0]) for k in ("missing-attribute", "obsolete-attribute")]


def canon_runs(items):
    pre = attr_prefixes()

    def cls(it):
        for i, p in enumerate(pre):
            if it[0] == 1 and it[2][:len(p)] == p:
                return (i, tuple(it[1]))
        return None
    out, i = [], 0
    while i < len(items):
        c = cls(items[i])
        j = i + 1
        if c is not None:
            while j < len(items) and cls(items[j]) == c:
                j += 1
        out.extend(sorted(items[i:j]) if c is not None else items[i:j])
        i = j
    return out


def show(issues):
    return [[s, int(p), m, c] for s, p, m, c in issues]


def run_pairs(chk, model, suite, pairs, locales_per_pair, oracle=True):
    """pairs: list of (reference shape, localized shape)"""
    rng = chk.rng
    rtexts, ltexts, rps, lps = [], [], [], []
    for i, (r, l) in enumerate(pairs):
        rp, lp = Printer(), Printer()
        rtexts.append(rp.entry(r, "k%d" % i))
        ltexts.append(lp.entry(l, "k%d" % i))
        rps.append(rp)
        lps.append(lp)
    rents = parse_entities(rtexts, None)
    lents = parse_entities(ltexts, None)
    checkers = {}
    cases, impl, reqs = [], [], []
    for i, (r, l) in enumerate(pairs):
        rsx, lsx = entry_sx(rents[i].entry), entry_sx(lents[i].entry)
        locs = rng.sample(LOCALES, locales_per_pair)
        for loc in locs:
            ck = checkers.get(loc) or checkers.setdefault(loc, get_checker(loc))
            raw = []

            def go():
                raw.extend(ck.check(rents[i], lents[i]))
                return canon_issues(raw)
            res = impl_result(go, conv=lambda x: x)
            info = {"reference": rtexts[i], "localized": ltexts[i], "locale": loc}
            cases.append(info)
            impl.append(res)
            reqs.append((0, [ostr(loc), rsx, lsx, canon(lents[i].all), canon(lents[i].key)]))
            chk.evaluations += 1
            if raw:
                chk.distinct.add(common.hashlib.sha1(repr((rtexts[i], ltexts[i], loc)).encode()).digest()[:8])
            if res[0] != 0:
                chk.fail("check-raises", info, res)
                continue
            if oracle:
                judge(chk, info, expected(rps[i], r, lps[i], l, loc), raw, ltexts[i])
            errs = sorted({classify(s, m, c)[0] for s, _, m, c in raw if s == "error"})
            chk.hist("error_kinds", "+".join(errs) or ("warnings-only" if raw else "none"))
            for s, _, m, c in raw:
                if s == "warning":
                    chk.hist("warning_kinds", classify(s, m, c)[0])
        chk.hist("entry_kinds", ("term" if r["term"] else "msg") + "/" + ("term" if l["term"] else "msg"))
    k = len(cases) // 2
    chk.sample({"suite": suite, **cases[k],
                "impl": impl[k] if impl[k][0] else
                [[i[0], i[1], common.l2s(i[2]), common.l2s(i[3])] for i in impl[k][1]]})
    if model:
        outs = model.call(reqs)
        outs = [[o[0], canon_runs(o[1])] if o and o[0] == 0 else o for o in outs]
        chk.correspond(suite, cases, impl, outs)


# -------------------------------------------------------------------- CSS ---
CSS_TOKENS = ["width", "height", "min-", "max-", ":", ";", " ", "\t", "\n", "\r", "1", "10", ".5", "1.",
              "px", "em", "rem", "ch", "x", "foo", "\ufffd",
              "\u00a0", "\u2003", "\u3000", "\u202f", "\f", "\v", "\x1f", "\x85"]


def css_strings(chk, rng):
    out = ["", " ", ";", "width:1px", "width: 1px;", " width : 1px ; height:2em ", "width:1px height:2em",
           ";width:1px", "width:1px;;height:1em", "width:1px;foo;height:1em", "foo", "width:1pxx",
           "min-width:.5rem;max-height:10ch", "width:1px;width:2em", "widthwidth:1px", "width:1.px",
           "width:1px\n", "width:1px\n\n", "\nwidth:1px", "width:1px;\n",
           "width:\u00a030em", "width\u2003: 30em", "width: 30em;\u3000", "width: 30em\u202f",
           "width: 1px\f; height: 2em", "width: 1px;\vheight: 2em"]
    for _ in range(chk.n(1500, 15000)):
        if rng.random() < 0.5:
            out.append(gen_css(rng)[1])
        else:
            out.append("".join(rng.choice(CSS_TOKENS) for _ in range(rng.randint(0, 9))))
    for _ in range(chk.n(500, 5000)):                 # well-formed with mutations
        s = gen_css(rng)[1]
        j = rng.randrange(len(s) + 1)
        out.append(rng.choice([s[:j] + s[j + 1:], s[:j] + rng.choice(CSS_TOKENS) + s[j:]]))
    return out


def run_css(chk, model):
    from compare_locales.checks.base import CSSCheckMixin
    rng = chk.rng
    o = CSSCheckMixin()
    strs = css_strings(chk, rng)
    impl, reqs = [], []
    for s in strs:
        m, e = o.parse_css_spec(s)
        impl.append([[] if m is None else [[[canon(k), ostr(v)] for k, v in m.items()]],
                     [] if e is None else [[[x["pos"], ["css-bad-content", "css-missing-semicolon"].index(x["code"])]
                                            for x in e]]])
        reqs.append((1, [canon(s)]))
        chk.count(("css", s))
        chk.hist("css_parse", "none" if m is None else ("errors" if e else "ok"))
    # by construction: a rendered spec list parses to its map without errors
    for _ in range(chk.n(500, 5000)):
        t = gen_css(rng)
        m, e = o.parse_css_spec(t[1])
        if t[2][0] == "good" and (m != t[2][1] or e):
            chk.fail("css-good-rejected", {"text": t[1]}, {"map": m, "errors": e})
        if t[2][0] == "bad" and m and not e:
            chk.fail("css-bad-accepted", {"text": t[1]}, {"map": m})
    for bad in NOT_CSS_WS:
        for text in ("width:" + bad + "30em", "width" + bad + ": 30em", "width: 30em;" + bad,
                     "width: 30em" + bad, "width: 1px" + bad + "; height: 2em",
                     "width: 1px;" + bad + "height: 2em"):
            m, e = o.parse_css_spec(text)
            chk.count(("css-ws", text))
            if m and not e:
                chk.fail("css-bad-accepted", {"text": text}, {"map": m})
    if model:
        chk.correspond("CSS-parse", strs, impl, model.call(reqs))
    pairs = [(rng.choice(strs), rng.choice(strs)) for _ in range(chk.n(1500, 15000))]
    impl, reqs = [], []
    for a, b in pairs:
        rm = o.parse_css_spec(a)[0] or {}
        msgs = list(o.check_style(rm, *o.parse_css_spec(b)))
        impl.append([[[int(s == "error"), p, canon(m)] for s, p, m, _ in msgs],
                     [[[canon(k), ostr(v)] for k, v in rm.items()]]])
        reqs.append((3, [canon(a), canon(b)]))
        chk.count(("style", a, b))
    if model:
        chk.correspond("CSS-style", pairs, impl, model.call(reqs))


def run_plurals(chk, model):
    from compare_locales import plurals
    from harness import plural_snapshot
    plural_snapshot.check_table(chk)
    locs = list(plurals.CATEGORIES_BY_LOCALE) + [k + "-XX" for k in list(plurals.CATEGORIES_BY_LOCALE)[::5]] + \
        ["", "-", "x-unknown", "en-US-posix", "zz", None, "EN", "en_US"]
    impl, reqs = [], []
    for loc in locs:
        impl.append(impl_result(lambda: (lambda v: [] if v is None else [[canon(c) for c in v]])
                                (plurals.get_plural(loc)), conv=lambda x: x))
        reqs.append((2, [ostr(loc)]))
        chk.count(("plural", loc))
    if model:
        chk.correspond("PLURALS", locs, impl, model.call(reqs))


# ------------------------------------------------------------- end to end ---
ID_STYLES = ["m%d", "menu-key%d", "accessKey%d", "Key%d-label", "btn%d", "x%d-keys"]
E2E_LOCALES = ["ru", "en-US", "ar", "ja", "cy", "de", None]
NOTE = re.compile(r"^(.*) at line (\d+), column (\d+) for (\S+)$", re.S)
LINT_OTHER = ("Changes to string require a new ID", "Duplicate string with ID")


def build_file(shapes, idents, rng):
    """-> (text, entry starts, Printer records, entry texts); between entries a newline, sometimes a
    blank line or a group comment (never attached to an entry)"""
    text, starts, ps, texts = "", [], [], []
    for e, ident in zip(shapes, idents):
        r = rng.random()
        if r < 0.15:
            text += "\n"
        elif r < 0.25:
            text += "## section\n\n"
        p = Printer()
        t = p.entry(e, ident)
        starts.append(len(text))
        text += t + "\n"
        ps.append(p)
        texts.append(t)
    return text, starts, ps, texts


def abs_pos(text, line, col):
    """offset of 1-based (line, column), counting the newlines of the text written to disk"""
    pos = 0
    for _ in range(line - 1):
        pos = text.find("\n", pos) + 1
        if pos == 0:
            return None                      # no such line in the localized file
    return pos + col - 1


def e2e_pairs(rng, n):
    """same-kind pairs: verbatim copies, mutated copies, independent entries"""
    out = []
    for _ in range(n):
        r = gen_entry(rng)
        x = rng.random()
        if x < 0.3:
            l = copy.deepcopy(r)
        elif x < 0.85:
            l = mutate(rng, r)
        else:
            l = gen_entry(rng, term=r["term"])
        out.append((r, l))
    return out


def e2e_corners():
    """what must be reported although the localized entry IS the reference entry"""
    T = lambda s: ("text", s, None)  # noqa: E731
    P = lambda x: ("place", x)  # noqa: E731
    sel = ("sel", ("var", "n"), [[("id", "one"), False, [T("one")]], [("id", "other"), True, [T("many")]]])
    dsel = ("sel", ("var", "n"), [[("id", "one"), False, [T("a")]], [("id", "one"), False, [T("b")]],
                                  [("id", "other"), True, [T("c")]]])
    bad = ("text", "width: 10px height: 2em", ("bad",))
    E = lambda v, attrs=(), term=False: {"term": term, "comment": False, "value": v,  # noqa: E731
                                         "attrs": [list(a) for a in attrs]}
    same = [
        E([P(sel)]),                                                   # [one] *[other]: incomplete under ru, ar, cy
        E([T("v")], [("title", [T("1")]), ("title", [T("2")])]),       # duplicated attribute on both sides
        E([T("v")], [("style", [bad])]),                               # bad style on both sides
        E([P(dsel)], [("label", [P(sel)])]),                           # duplicated variant key
        E([P(dsel)], [("title", [T("1")]), ("title", [P(sel)])], term=True),
    ]
    pairs = [(e, copy.deepcopy(e)) for e in same]
    okcss = ("text", "width: 30em", ("good", {"width": "em"}))
    pairs.append((E([T("v")], [("style", [okcss])]),
                  E([T("v")], [("style", [("text", "width:\u00a030em", ("bad",))])])))
    pairs.append((E([T("v")], [("style", [okcss])]),
                  E([T("v")], [("style", [("text", "width: 30em;\u3000", ("bad",))])])))
    pairs.append((E([T("v")], [("title", [T("t")])]), E(None, [("label", [P(("msg", "foo", None))])])))
    pairs.append((E([P(("msg", "foo", None))]), E([P(("msg", "bar", None)), T("\ufffd")])))
    return pairs


class Recorder:
    """an Observer that keeps every notification"""

    def __new__(cls):
        from compare_locales.compare.observer import Observer

        class Rec(Observer):
            def __init__(self):
                super().__init__()
                self.seen = []

            def notify(self, category, file, data):
                self.seen.append((category, data))
                return super().notify(category, file, data)
        return Rec()


def by_entry(starts, pos):
    import bisect
    return bisect.bisect_right(starts, pos) - 1


def e2e_got(sev, msg, off, key):
    """-> ('enc', offset) | (severity, offset, kind, argument)"""
    if msg == "\ufffd in: " + key:
        return ("enc", off)
    k, arg = classify(sev, msg, "fluent")
    return (sev, off, k, arg if k not in ("css-error", "css-warning") else ("" if k == "css-error" else None))


def run_e2e(chk, model):
    """ContentComparer.compare and L10nLinter.lint_file on real files"""
    import shutil
    import tempfile
    from compare_locales.compare.content import ContentComparer
    from compare_locales.lint.linter import L10nLinter
    from compare_locales.paths import File
    from compare_locales import parser
    rng = chk.rng
    tmp = tempfile.mkdtemp(prefix="verif_c08_")
    cases, impl, reqs = [], [], []
    lcases, limpl, lreqs = [], [], []
    try:
        nfiles = chk.n(32, 320)
        for fi in range(nfiles):
            pairs = e2e_corners() if fi % 16 == 0 else e2e_pairs(rng, 10)
            idents = []
            for i, (r, l) in enumerate(pairs):
                style = ID_STYLES[(i + fi) % len(ID_STYLES)] if fi % 16 == 0 else rng.choice(ID_STYLES)
                idents.append(style % (fi * 100 + i))
            rtext, rstarts, rps, rtexts = build_file([r for r, _ in pairs], idents, rng)
            ltext, lstarts, lps, ltexts = build_file([l for _, l in pairs], idents, rng)
            d = os.path.join(tmp, "f%d" % fi)
            os.makedirs(os.path.join(d, "ref"))
            os.makedirs(os.path.join(d, "l10n"))
            rpath, lpath = os.path.join(d, "ref", "x.ftl"), os.path.join(d, "l10n", "x.ftl")
            for path, text in ((rpath, rtext), (lpath, ltext)):
                with open(path, "w", encoding="utf-8", newline="") as f:
                    f.write(text)
            keys = [("-" if r["term"] else "") + ident for (r, _), ident in zip(pairs, idents)]
            index = {k: i for i, k in enumerate(keys)}
            # the model's terms: the files parsed by the real parser
            ents = []
            for text in (rtext, ltext):
                p = parser.getParser("x.ftl")
                p.readUnicode(text)
                es = [e for e in p.walk(only_localizable=True)]
                if len(es) != len(pairs) or any(not isinstance(e, parser.FluentEntity) for e in es):
                    raise RuntimeError("printer produced text the Fluent parser rejects: %r" % text[:300])
                ents.append(es)
            rsx = [entry_sx(e.entry) for e in ents[0]]
            lsx = [entry_sx(e.entry) for e in ents[1]]
            locs = (["ru", "en-US", "ar"] if fi % 16 == 0 else rng.sample(E2E_LOCALES, 2))
            for loc in locs:
                cc = ContentComparer()
                obs = Recorder()
                cc.observers.append(obs)
                cc.compare(File(rpath, "x.ftl"), File(lpath, "x.ftl", locale=loc), None)
                per = [[] for _ in pairs]
                for cat, data in obs.seen:
                    m = NOTE.match(data) if cat in ("error", "warning") and isinstance(data, str) else None
                    if not m or m.group(4) not in index:
                        chk.fail("e2e-unexpected-notification", {"reference": rtext, "localized": ltext,
                                                                 "locale": loc}, str((cat, data))[:300])
                        continue
                    i = index[m.group(4)]
                    pos = abs_pos(ltext, int(m.group(2)), int(m.group(3)))
                    if pos is None:
                        chk.fail("e2e-position-outside-file", {"reference": rtexts[i], "localized": ltexts[i],
                                                               "locale": loc, "id": keys[i]}, data[:300])
                        pos = len(ltext)
                    per[i].append((cat, m.group(1), pos))
                for i, (r, l) in enumerate(pairs):
                    info = {"reference": rtexts[i], "localized": ltexts[i], "locale": loc, "id": keys[i],
                            "same": rtexts[i] == ltexts[i], "via": "ContentComparer.compare"}
                    items = [e2e_got(s, m, pos - lstarts[i], keys[i]) for s, m, pos in per[i]]
                    judge_got(chk, info, expected(rps[i], r, lps[i], l, loc),
                              [x for x in items if x[0] != "enc"], [x[1] for x in items if x[0] == "enc"],
                              ltexts[i], prefix="e2e-")
                    chk.evaluations += 1
                    if per[i]:
                        chk.distinct.add(common.hashlib.sha1(
                            repr(("e2e", rtexts[i], ltexts[i], loc)).encode()).digest()[:8])
                    chk.hist("e2e_id_style", ("key" if re.search("[kK]ey", keys[i]) else "plain") + "/" +
                             ("same" if info["same"] else "different") + "/" +
                             ("reported" if per[i] else "silent"))
                    cases.append(info)
                    impl.append(sorted([int(s == "error"), pos, canon(m)] for s, m, pos in per[i]))
                    reqs.append((0, [ostr(loc), rsx[i], lsx[i], canon(ents[1][i].all), canon(ents[1][i].key)]))
            # the linter: every entry of the localized file against itself, locale en-US
            res = list(L10nLinter().lint_file(lpath, rpath, []))
            per = [[] for _ in pairs]
            for x in res:
                if x["message"].startswith(LINT_OTHER):
                    continue
                pos = abs_pos(ltext, x["lineno"], x["column"])
                if pos is None:
                    chk.fail("lint-position-outside-file", {"localized": ltext}, str(x)[:300])
                    pos = len(ltext)
                i = by_entry(lstarts, pos)
                per[i].append((x["level"], x["message"], pos))
            for i, (r, l) in enumerate(pairs):
                info = {"reference": ltexts[i], "localized": ltexts[i], "locale": "en-US", "id": keys[i],
                        "via": "L10nLinter.lint_file"}
                items = [e2e_got(s, m, pos - lstarts[i], keys[i]) for s, m, pos in per[i]]
                judge_got(chk, info, expected(lps[i], l, lps[i], l, "en-US"),
                          [x for x in items if x[0] != "enc"], [x[1] for x in items if x[0] == "enc"],
                          ltexts[i], prefix="lint-")
                chk.evaluations += 1
                lcases.append(info)
                limpl.append(sorted([int(s == "error"), pos, canon(m)] for s, m, pos in per[i]))
                lreqs.append((0, [ostr("en-US"), lsx[i], lsx[i], canon(ents[1][i].all), canon(ents[1][i].key)]))
    finally:
        shutil.rmtree(tmp, ignore_errors=True)
    k = 3
    chk.sample({"suite": "FTL-E2E", **cases[k], "notifications": [[e, p, common.l2s(m)] for e, p, m in impl[k]]})
    if model:
        def conv(outs, rq):
            res = []
            for o, (_, payload) in zip(outs, rq):
                start = payload[2][1]
                res.append(sorted([it[0], start + it[1][1], it[2]] for it in o[1]) if o and o[0] == 0 else o)
            return res
        chk.correspond("FTL-E2E-compare", cases, impl, conv(model.call(reqs), reqs))
        chk.correspond("FTL-E2E-lint", lcases, limpl, conv(model.call(lreqs), lreqs))


# ------------------------------------------------------------------- corpus ---
def edge_pairs():
    """hand-written shapes for the corners (run first, every tier)"""
    T = lambda s: ("text", s, None)  # noqa: E731
    P = lambda x: ("place", x)  # noqa: E731
    msg = lambda v, attrs=(), term=False, comment=False: {  # noqa: E731
        "term": term, "comment": comment, "value": v, "attrs": [list(a) for a in attrs]}
    good = ("text", "width: 10px; height: 2em", ("good", {"width": "px", "height": "em"}))
    good2 = ("text", "width: 3em", ("good", {"width": "em"}))
    bad = ("text", "width: 10px height: 2em", ("bad",))
    sel = lambda keys, d=0: ("sel", ("var", "n"), [[k, i == d, [T("v")]] for i, k in enumerate(keys)])  # noqa: E731
    return [
        (msg([T("a")]), msg([T("b")])),
        (msg([T("a")]), msg(None, [("title", [T("t")])])),
        (msg(None, [("title", [T("t")])]), msg([T("a")], [("title", [T("t")])])),
        (msg([T("a")], [("title", [T("t")]), ("label", [T("t")])]), msg([T("a")], [("label", [T("t")])])),
        (msg([T("a")], [("title", [T("t")])]),
         msg([T("a")], [("label", [T("1")]), ("title", [T("t")]), ("label", [T("2")]), ("label", [T("3")])])),
        (msg([T("a")], [("style", [good])]), msg([T("a")], [("style", [bad])])),
        (msg([T("a")], [("style", [good])]), msg([T("a")], [("style", [good2])])),
        (msg([T("a")], [("style", [good])]), msg([T("a")], [("style", [good]), ("style", [good])])),
        (msg([T("a")], [("style", [T("x"), P(("var", "n"))])]), msg([T("a")], [("style", [good2])])),
        (msg([T("a")], [("style", [good])]), msg([T("a")], [("style", [T("x"), P(("var", "n"))])])),
        (msg([T("a")], [("style", [T("auto")])]), msg([T("a")], [("style", [T("auto")])])),
        (msg([T("a")], [("style", [good2])]), msg([T("a")], [("style", [("text", "width:\u00a030em", ("bad",))])])),
        (msg([T("a")], [("style", [good2])]), msg([T("a")], [("style", [("text", "width: 30em;\u3000", ("bad",))])])),
        (msg([T("a")], [("style", [good])]),
         msg([T("a")], [("style", [("text", "width: 10px;\u2003height: 2em", ("bad",))])])),
        (msg([T("a")], [("style", [good2])]), msg([T("a")], [("style", [("text", "width\f: 3em", ("bad",))])])),
        (msg([T("a")], [("style", [("text", "width: 10; width:  1ex", ("bad",))])]),
         msg([T("a")], [("style", [("text", "width: 2ex", ("good", {"width": "ex"}))])])),
        (msg([T("a")], [("style", [("text", "height  :  0.5chx", ("bad",))])]),
         msg([T("a")], [("style", [("text", "height: 1em", ("good", {"height": "em"}))])])),
        (msg([P(("msg", "foo", None)), T(" "), P(("term", "brand", None, None))],
             [("title", [P(("msg", "foo", "title"))])]),
         msg([P(("msg", "bar", None))], [("title", [P(("msg", "foo", None)), P(("msg", "foo", None))])])),
        (msg([P(("msg", "foo", None))], [("title", [T("t")]), ("title", [P(("msg", "bar", None))])]),
         msg([P(("msg", "foo", None))], [("title", [P(("msg", "bar", None))]), ("title", [T("t")])])),
        (msg([P(sel([("id", "one"), ("id", "other")], 1))]),
         msg([P(sel([("id", "one"), ("id", "one"), ("id", "few"), ("num", "1"), ("num", "1"), ("num", "1.0")], 2))])),
        (msg([P(sel([("id", "other")]))]),
         msg([P(("sel", ("fun", "NUMBER", [("msg", "foo", None), ("place", sel([("id", "one"), ("id", "one")]))], []),
                 [[("id", "one"), True, [P(("term", "brand", None, ([("msg", "bar", None)], [])))]]]))])),
        (msg([T("a")]), msg([P(sel([("id", "one"), ("id", "one")]))], [("a", [T("1")]), ("a", [T("2")])], term=True)),
        (msg([T("a")], term=True), msg([T("b")], [("title", [T("t")])])),
        (msg([T("a")], [("title", [T("t")])], term=True), msg([T("b � c")], comment=True, term=True)),
        (msg([T("a")], comment=True), msg([T("�"), P(("msg", "foo", None))], [("title", [T("�")])], comment=True)),
    ]


def run(chk, runner_ok):
    rng = chk.rng
    model = Model("C08") if runner_ok else None
    if runner_ok:
        rxsuite.run_rx(chk, groups=["c08"], per_regex=chk.n(150, 1200))
    run_css(chk, model)
    run_plurals(chk, model)
    run_pairs(chk, model, "FTL-CHECK-corners", edge_pairs(), len(LOCALES))
    pairs = []
    for i in range(chk.n(3000, 40000)):
        r = gen_entry(rng)
        if rng.random() < 0.8:
            l = mutate(rng, r)
        else:
            l = gen_entry(rng, term=r["term"] if rng.random() < 0.9 else None)
        pairs.append((r, l))
    run_pairs(chk, model, "FTL-CHECK", pairs, chk.n(3, 4))
    run_e2e(chk, model)
    chk.trusted.append("fluent.syntax 0.19: FluentParser (spans) and Visitor.generic_visit's field order "
                       "(modelled as constructor argument order; tied by FTL-CHECK only)")
    chk.notes.append("missing-/obsolete-attribute errors come out in the iteration order of a Python set of "
                     "str (hash order); runs of them at one position are compared as multisets")


def replay(chk, path):
    data = json.load(open(path))
    rc = 0
    for f in data.get("failures", []):
        c = f["case"]
        print("signature", f["signature"])
        if "reference" in c:
            ents = parse_entities([c["reference"]], None) + parse_entities([c["localized"]], None)
            raw = list(get_checker(c["locale"]).check(ents[0], ents[1]))
            print("reference:\n" + c["reference"] + "\nlocalized:\n" + c["localized"], "\nlocale", c["locale"])
            print("impl", show(raw))
            print("recorded", f["detail"])
            rc = 1
        else:
            print("case", c, f["detail"])
            rc = 1
    for d in data.get("disagreements", []):
        print("disagreement", d)
        rc = 1
    return int(rc)
