"""C03 — comparison reports exactly the missing, obsolete and changed strings.

Suites
  RX[c03]            engine + translator on keyRE against CPython re
  KEYNAME            isinstance(k, str) and keyRE.search(k) on str and tuple keys
  COMPARE-<fmt>      (reference records, edit script) pairs rendered as real files in a
                     temporary directory; ContentComparer.compare with an Observer appended
                     (with / without a random filter, with / without a merge file, quiet level 0
                     for two thirds and 1-4 for the rest, given to the comparer and the observer
                     as compareProjects does: the numbers may not depend on it); the model is fed
                     the implementation's own parse
  COMPARE-small      exhaustive pairs of short key sequences (duplicates included)
  COMPARE-junkkey    a localization key equal to the generated key of a reference Junk
  E2E-dtd            likewise for .dtd through compare_dtd (html.unescape passed as its graph on the raw values)
  E2E-properties     the same .properties cases through the TEXT-level model compare_properties (parser
                     model, unescape, count_words, Junk keys, comparison): only the two texts, the
                     filter and the checker's findings are passed
  ADD-<fmt>          ContentComparer.add for a missing file
  COUNTWORDS         Entry.count_words against its model (regex engine on re_br / re_sgml regenerated
                     from the source): values assembled from words and markup chunks (count known by
                     construction) and random mixes of tags, tag fragments and blanks of all kinds
  COUNTWORDS-<fmt>   every count_words() the compare model was fed, for the formats using the base counter
  (accumulate)       one observer over several files: summary = sum of the per-file summaries
  (multifile)        ONE ContentComparer / observer over 3-5 files in shuffled order whose paths share
                     directory prefixes: per-path missing / obsolete keys and the summed summary
  (project)          compareProjects on a generated l10n.toml project over one to four locales in
                     ONE run (the configuration's filter is the observer's filter; missing files
                     go through ContentComparer.add): summaries per locale and missing / obsolete
                     keys per file by construction; implementation-only
Oracle (implementation only): the expected missing / obsolete / changed / unchanged / keys
sets and word counts follow from the edit script by construction, no parser involved.
"""
import json
import os
import re
import shutil
import tempfile

from harness import common, rxsuite
from harness.common import Model, s2l

FACTS = ("tables", "parser", "c02", "c03", "c06")
RUNNERS = ["RX"]

RULE = ("per format (properties, dtd, ini, inc, ftl, android strings.xml, po): seeded (reference records, "
        "edit script) pairs - drop, keep, re-value, escape-equivalent re-value, empty values, markup in values "
        "(break tags, other tags, entity references; word counts by construction), Fluent attribute-only edits, "
        "add, reorder, duplicate on "
        "either side, junk on either side, keys containing key/Key and near misses - each run with a "
        "random filter / no filter and with / without a merge file; plus every pair of key sequences of "
        "length <= 3 over three keys; a case is distinct by (format, both file texts, filter, merge); "
        "non-trivial = at least one entity on either side")

FORMATS = ["properties", "dtd", "ini", "inc", "ftl", "android", "po"]
FILE = {"properties": "a.properties", "dtd": "a.dtd", "ini": "a.ini", "inc": "a.inc", "ftl": "a.ftl",
        "android": "strings.xml", "po": "a.po"}
STATS = ["missing", "missing_w", "report", "obsolete", "changed", "changed_w",
         "unchanged", "unchanged_w", "keys"]
VCODE = {"error": 0, "ignore": 1, "warning": 2}

WORDS = ["alpha", "beta", "gamma", "delta", "one", "two", "tres", "vier", "x", "Zed"]
PLAIN_KEYS = ["title", "label", "menu", "a", "b", "tab", "ok", "name", "ke", "KEY", "kEy",
              "k.e.y", "ey", "Ke.y", "keY"]
KEY_KEYS = ["accesskey", "commandkey", "open.Key", "Keyboard", "monkey", "key", "Key",
            "x.key.y", "label.accesskey", "KeyKey"]


# ------------------------------------------------------------ generation ---
EMPTY_OK = ("properties", "dtd", "ini", "inc", "android")     # formats with empty-valued records
MARKUP_OK = ("properties", "dtd", "ini", "inc", "po")   # formats counted by Entry.count_words, markup in values
ATTR_NAMES = ["label", "tooltiptext", "placeholder", "title", "aria-label"]


def rec(key, words, flags=(), attrs=()):
    """an item of an edit script: ('rec', key, value words, flags, attributes);
    flags: 'esc' (rendered with an escape, same logical value), 'spice' (checker bait);
    attributes (Fluent only): ((name, words), ...)"""
    return ("rec", key, [w if isinstance(w, str) else (w[0], w[1]) for w in words], frozenset(flags),
            tuple((n, tuple(w)) for n, w in attrs))


# An element of a value is a plain word (a str, one word) or a chunk (text, words): text without
# leading / trailing blanks that carries markup, and the number of words it counts for BY
# CONSTRUCTION: a break tag separates words, any other tag is removed without separating, an
# entity reference is ordinary text.
def w_text(w):
    return w if isinstance(w, str) else w[0]


def w_count(w):
    return 1 if isinstance(w, str) else w[1]


def has_markup(it):
    return any(not isinstance(w, str) for w in it[2])


def chunk(rng, fmt):
    a, b, c = (rng.choice(WORDS) for _ in range(3))
    br = rng.choice(["<br>", "<br/>", "<br />", "<br\t/>", "<br  >"] + (["<br\n/>", "<br\n>"] if fmt == "dtd" else []))
    if fmt == "properties" and rng.random() < 0.35:
        # printf material, also malformed: a stray %, ordered arguments mixed with plain ones or
        # with gaps (the checker's verdicts on them are C06's subject; compare must not raise)
        return (rng.choice(["100%", "%", "%S", "%d", "%%", "%1$S", "%3$S", "%1$S%S", "%2$S%1$S",
                            f"{a}%", f"%{a}", "%1$", "%$S", "100%;", "%ld"]), 1)
    return rng.choice([
        (f"{a}{br}{b}", 2), (f"{a}{br}{br}{b}", 2), (f"{a}{br}", 1), (br, 0), (f"{a}{br}{b}{br}{c}", 3),
        (f"{a}<b>{b}</b>", 1), (f"<i>{a}</i>", 1), (f"{a}<a href='x'>{b}</a>{c}", 1),
        (f"<span class='c d'>{a}</span>", 1), (f"{a}<span class='c d'>{b}</span>", 1), ("<hr/>", 0),
        (f"{a}<BR/>{b}", 1), (f"{a}<brx/>{b}", 1), (f"{a}<b>{br}</b>{b}", 2),
        (f"{a}&amp;{b}", 1), ("&amp;", 1), (f"{a}</p>{b}", 1), (f"<b>{a}</b>{br}<b>{b}</b>", 2),
    ])


def is_term(fmt, k):
    return fmt == "ftl" and k.startswith("-")


def rec_words(fmt, it):
    """word count of a record by construction: the value; for a Fluent message also its
    attributes (the attributes of a term are private and not counted)"""
    n = sum(w_count(w) for w in it[2])
    if fmt == "ftl" and not is_term(fmt, it[1]):
        n += sum(len(w) for _, w in it[4])
    return n


def logical(fmt, it):
    """what decides changed / unchanged by construction: the value; for a Fluent message
    also its attributes (a term's attributes are ignored by design)"""
    if fmt == "ftl" and not is_term(fmt, it[1]):
        return (list(it[2]), it[4])
    return (list(it[2]), ())


def words_of(rng, avoid=None, fmt=None):
    """one to four elements; for the formats counted by Entry.count_words a quarter of them
    carry markup"""
    for _ in range(20):
        w = [chunk(rng, fmt) if fmt in MARKUP_OK and rng.random() < 0.25 else rng.choice(WORDS)
             for _ in range(rng.randint(1, 4))]
        if w != avoid:
            return w
    return list(avoid or []) + ["more"]


def fresh_key(rng, fmt, used):
    while True:
        base = rng.choice(KEY_KEYS if rng.random() < 0.3 else PLAIN_KEYS)
        if rng.random() < 0.7:
            base += str(rng.randint(0, 30))
        if fmt == "ftl":
            base = base.replace(".", "-")
            if rng.random() < 0.2:
                base = "-" + base                       # a term
        if fmt == "inc":
            base = base.replace(".", "_")
        if fmt == "po":
            ws = base.replace(".", " ").split() + (words_of(rng, fmt=fmt) if rng.random() < 0.7 else [])
            k = (" ".join(map(w_text, ws)), rng.choice([None, None, "ctx", "key"]))
        else:
            k, ws = base, None
        if k not in used:
            used.add(k)
            return k, ws


def fresh_record(rng, fmt, used):
    """(key, value words, attributes) of a new record"""
    k, ws = fresh_key(rng, fmt, used)
    if fmt == "po":
        return k, ws, ()                                # the reference value is the msgid
    words, attrs = words_of(rng, fmt=fmt), ()
    if fmt == "ftl" and rng.random() < 0.4:
        attrs = tuple((n, tuple(words_of(rng))) for n in rng.sample(ATTR_NAMES, rng.randint(1, 2)))
        if not is_term(fmt, k) and rng.random() < 0.3:
            words = []                                  # a message with attributes only
    elif fmt in EMPTY_OK and rng.random() < 0.18:
        words = []                                      # an empty value
    return k, words, attrs


def insert_junk(rng, items):
    """junk items, never two adjacent"""
    for _ in range(rng.randint(1, 2)):
        i = rng.randint(0, len(items))
        if (i > 0 and items[i - 1][0] == "junk") or (i < len(items) and items[i][0] == "junk"):
            continue
        items.insert(i, ("junk",))


def revalue(rng, fmt, k, w, attrs):
    """a different value for the record: new words, possibly none where that is legal"""
    if fmt == "ftl" and not w:
        return []           # a Fluent value may not appear or vanish: that is a checker error (C08)
    if w and fmt in EMPTY_OK and rng.random() < 0.15:
        return []
    return words_of(rng, w, fmt)


def gen_ref(rng, fmt, spicy=False):
    """-> (used keys, base records [(key, words, attrs)], reference items)"""
    used = set()
    base = [fresh_record(rng, fmt, used) for _ in range(rng.choice([0, 1, 2, 3, 3, 4, 5, 6, 8]))]
    ref = [rec(k, w, (), a) for k, w, a in base]
    if base and rng.random() < 0.25:                       # duplicate in the reference
        k, w, a = rng.choice(base)
        ref.insert(rng.randint(0, len(ref)),
                   rec(k, w if fmt == "po" else revalue(rng, fmt, k, w, a), (), a))
    if rng.random() < (0.35 if fmt == "android" else 0.2):
        insert_junk(rng, ref)
    if spicy and fmt != "po":
        for i in range(len(ref)):
            if ref[i][0] == "rec" and rng.random() < 0.4:
                ref[i] = rec(ref[i][1], ref[i][2], ["spice"], ref[i][4])
    return used, base, ref


def gen_l10n(rng, fmt, used, base, spicy=False):
    """the edit script: drop, keep, re-value (value, or one attribute only), escape-equivalent,
    add, reorder, duplicate, junk"""
    used = set(used)
    l10n = []
    for k, w, a in base:
        r = rng.random()
        if r < 0.25:
            continue                                       # drop
        if r < 0.55:
            l10n.append(rec(k, w, (), a))                  # keep
        elif r < 0.63 and fmt == "properties" and w:
            l10n.append(rec(k, w, ["esc"], a))
        elif a and (not w or rng.random() < 0.5):
            i = rng.randrange(len(a))                      # re-value one attribute only
            a2 = a[:i] + ((a[i][0], tuple(words_of(rng, list(a[i][1])))),) + a[i + 1:]
            l10n.append(rec(k, w, (), a2))
        else:
            flags = ["spice"] if spicy and rng.random() < 0.5 else []
            l10n.append(rec(k, revalue(rng, fmt, k, w, a), flags, a))   # re-value
    for _ in range(rng.choice([0, 0, 1, 1, 2, 3])):        # add
        k, w, a = fresh_record(rng, fmt, used)
        l10n.append(rec(k, w if fmt != "po" else words_of(rng, fmt=fmt), (), a))
    if rng.random() < 0.4:
        rng.shuffle(l10n)                                  # reorder
    if l10n and rng.random() < 0.25:                       # duplicate in the localization
        it = rng.choice(l10n)
        w = list(it[2]) if rng.random() < 0.4 else revalue(rng, fmt, it[1], it[2], it[4])
        l10n.insert(rng.randint(0, len(l10n)), rec(it[1], w, (), it[4]))
    if rng.random() < (0.45 if fmt == "android" else 0.25):
        insert_junk(rng, l10n)
    return l10n


def gen_case(rng, fmt, spicy=False):
    """-> dict(format, ref=[items], l10n=[items])"""
    used, base, ref = gen_ref(rng, fmt, spicy)
    return {"format": fmt, "ref": ref, "l10n": gen_l10n(rng, fmt, used, base, spicy)}


def items_json(items):
    return [["junk"] if it[0] == "junk" else
            ["rec", it[1], [w if isinstance(w, str) else list(w) for w in it[2]], sorted(it[3]),
             [[n, list(w)] for n, w in it[4]]] for it in items]


def items_load(js):
    def key(k):
        return tuple(k) if isinstance(k, list) else k
    return [("junk",) if it[0] == "junk" else rec(key(it[1]), it[2], it[3], it[4]) for it in js]


def script_json(case):
    return {"format": case["format"], "ref": items_json(case["ref"]), "l10n": items_json(case["l10n"])}


def script_load(js):
    return {"format": js["format"], "ref": items_load(js["ref"]), "l10n": items_load(js["l10n"])}


# -------------------------------------------------------------- rendering ---
SPICE = {"properties": " %S <br/> <b>bold</b> �", "dtd": " <b>bold<br/>text</b> &amp; �",
         "ini": " <br> �", "ftl": " { $n } �\n    .a = x\n    .b = y", "android": " it\\'s � %1$s",
         "po": " � <br>"}
SPICE_L10N = {"properties": " %d �", "dtd": " <b>open &foo; �", "ini": " �",
              "ftl": " { $m } �\n    .extra = attr", "android": " it's �", "po": " �"}


# children of <resources> that are not <string name=...>: each is one Junk (XMLJunk)
ANDROID_JUNK = ['  <junk n="%d"/>\n',
                '  <plurals name="p%d"><item quantity="one">x</item><item quantity="other">y</item></plurals>\n',
                '  <string-array name="arr%d"><item>x</item></string-array>\n',
                '  <string id="%d">no name attribute</string>\n',
                '  <plurals name="q%d"/>\n']


def value_text(fmt, it, side):
    txt = " ".join(map(w_text, it[2]))
    if "esc" in it[3]:
        txt = "\\u%04x" % ord(txt[0]) + txt[1:]
    if "spice" in it[3]:
        txt += (SPICE if side == "ref" else SPICE_L10N)["ini" if fmt == "inc" else fmt]
    return txt


def po_quote(s):
    return '"' + s.replace("\\", "\\\\").replace('"', '\\"') + '"'


def render(fmt, items, side):
    out = []
    if fmt == "ini":
        out.append("[Strings]\n")
    if fmt == "android":
        out.append('<?xml version="1.0" encoding="utf-8"?>\n<resources>\n')
    for n, it in enumerate(items):
        if it[0] == "junk":
            out.append({"android": ANDROID_JUNK[n % len(ANDROID_JUNK)] % n, "po": "junk text %d\n\n" % n,
                        "dtd": "junk text %d\n" % n}.get(fmt, "junk text %d\n" % n))
            continue
        k, v = it[1], value_text(fmt, it, side)
        if fmt == "properties":
            # an empty value: the separator directly (or after one blank) followed by the line feed
            out.append(f"{k} = {v}\n" if v else f"{k} ={' ' if n % 2 else ''}\n")
        elif fmt == "dtd":
            out.append(f'<!ENTITY {k} "{v}">\n')
        elif fmt == "ini":
            out.append(f"{k}={v}\n")
        elif fmt == "inc":
            out.append(f"#define {k} {v}\n" if v else f"#define {k}\n")
        elif fmt == "ftl":
            out.append(f"{k} = {v}\n" if v else f"{k} =\n")
            for name, w in it[4]:
                out.append("    .%s = %s\n" % (name, " ".join(w)))
        elif fmt == "android":
            out.append(f'  <string name="{k}">{v}</string>\n')
        else:
            msgid, ctx = k
            if ctx is not None:
                out.append("msgctxt " + po_quote(ctx) + "\n")
            out.append("msgid " + po_quote(msgid) + "\n")
            if side == "ref" or " ".join(map(w_text, it[2])) == msgid and "spice" not in it[3] and n % 2:
                out.append('msgstr ""\n\n')
            else:
                out.append("msgstr " + po_quote(v) + "\n\n")
    if fmt == "android":
        out.append("</resources>\n")
    return "".join(out)


# ------------------------------------------------------------------ oracle ---
def contains_key(k):
    """'key' or 'Key' occurs in the string key; written without re"""
    return isinstance(k, str) and any(k[i:i + 3] in ("key", "Key") for i in range(len(k)))


def expected(case, verdicts):
    """the statement of C03 from the edit script alone"""
    fmt = case["format"]
    ref_last, l10n_last = {}, {}
    for it in case["ref"]:
        if it[0] == "rec":
            ref_last[it[1]] = it
    for it in case["l10n"]:
        if it[0] == "rec":
            l10n_last[it[1]] = it
    exp = dict.fromkeys(STATS, 0)
    sets = {"missing": set(), "report": set(), "obsolete": set(), "changed": set(),
            "unchanged": set(), "keys": set(), "ignored": set()}
    for k, it in ref_last.items():
        w = rec_words(fmt, it)
        if k not in l10n_last:
            v = verdicts.get(k, "error")
            if v == "error":
                sets["missing"].add(k)
                exp["missing_w"] += w
            elif v == "warning":
                sets["report"].add(k)
            else:
                sets["ignored"].add(k)
        elif contains_key(k):
            sets["keys"].add(k)
        elif logical(fmt, it) == logical(fmt, l10n_last[k]) and "spice" not in l10n_last[k][3] \
                and "spice" not in it[3]:
            sets["unchanged"].add(k)
            exp["unchanged_w"] += w
        else:
            sets["changed"].add(k)
            exp["changed_w"] += w
    for k in l10n_last:
        if k not in ref_last:
            if verdicts.get(k, "error") != "ignore":
                sets["obsolete"].add(k)
            else:
                sets["ignored"].add(k)
    for name in ("missing", "report", "obsolete", "changed", "unchanged", "keys"):
        exp[name] = len(sets[name])
    plain = not any("spice" in it[3] for it in case["ref"] + case["l10n"] if it[0] == "rec")

    def dups(items):
        ks = [it[1] for it in items if it[0] == "rec"]
        return len({k for k in ks if ks.count(k) > 1})
    exp_errors = sum(it[0] == "junk" for it in case["l10n"]) + dups(case["l10n"])
    exp_warnings = sum(it[0] == "junk" for it in case["ref"]) + dups(case["ref"])
    recs = [it for it in case["ref"] + case["l10n"] if it[0] == "rec"]
    if fmt == "dtd" and any(has_markup(it) for it in recs):
        # the DTD checker parses the localized value as XML: its verdicts on markup are C07's subject
        exp_errors = exp_warnings = None
    if fmt == "properties" and any("%" in w_text(w) for it in recs for w in it[2]):
        exp_errors = exp_warnings = None        # printf verdicts: C06's subject
    return exp, sets, plain, exp_errors, exp_warnings


# ---------------------------------------------------------- implementation ---
def reset_junk():
    """Junk keys carry a process-wide counter; start both parses from the same value"""
    from compare_locales.parser import base
    base.Junk.junkid = 0
    try:
        from compare_locales.parser.android import XMLJunk
        if "junkid" in XMLJunk.__dict__:
            del XMLJunk.junkid
    except ImportError:
        pass


def canon_key(k):
    if isinstance(k, str):
        return [0, s2l(k)]
    return [1, s2l(k[0]), [] if k[1] is None else [s2l(k[1])]]


class Tables:
    """what the harness knows about one (ref, l10n) pair from the implementation's own parse"""

    def __init__(self, fmt, refpath, l10npath, l10n_file):
        from compare_locales import parser
        from compare_locales.checks import getChecker, EntityPos
        name = FILE[fmt]
        reset_junk()
        p = parser.getParser(name)
        p.readFile(refpath)
        self.ref = list(p.parse())
        p.readFile(l10npath)
        self.l10n = list(p.parse())
        self.fmt = fmt
        self.msg_ids = {}
        self.junk_msg = {}          # entity id -> message id
        self.keys = {}
        self.word_errors = 0
        self.word_vals = []         # (value, count_words()) of the entities counted by Entry.count_words
        vclass = self.value_classes(fmt)
        self.ref_sx, self.l10n_sx = [], []
        for side, ents, out in ((0, self.ref, self.ref_sx), (1, self.l10n, self.l10n_sx)):
            for i, e in enumerate(ents):
                junk = isinstance(e, parser.Junk)
                eid = side * 1000 + i
                self.keys[str(e.key)] = e.key
                words = 0
                if not junk:
                    try:
                        words = e.count_words()
                        if type(e).count_words is parser.base.Entry.count_words \
                                and isinstance(e.val, str):
                            self.word_vals.append((e.val, words))
                    except Exception:  # noqa
                        self.word_errors += 1
                else:
                    try:
                        self.junk_msg[eid] = self.msg_id(e.error_message())
                    except Exception:  # noqa   compare() will hit the same: reported there as <fmt>-raised
                        self.junk_msg[eid] = self.msg_id(("junk message raised", eid))
                out.append([canon_key(e.key), vclass[(side, i)], words, int(junk), eid])
        # the checker on every pair of entities with the same key
        self.chk_sx = []
        checker = getChecker(l10n_file, extra_tests=None)
        if checker and checker.needs_reference:
            from compare_locales.keyedtuple import KeyedTuple
            checker.set_reference(KeyedTuple(self.ref))
        for i, r in enumerate(self.ref):
            for j, l in enumerate(self.l10n):
                if r.key != l.key or not checker:
                    continue
                fs = []
                try:
                    for tp, pos, msg, cat in checker.check(r, l):
                        if isinstance(pos, EntityPos):
                            line, col = l.position(pos)
                        else:
                            line, col = l.value_position(pos)
                        text = "%s at line %d, column %d for %s" % (msg, line, col, r.key)
                        fs.append([int(tp == "error"), self.msg_id((tp, text))])
                except Exception:  # noqa  (junk entities fed to a checker)
                    fs = []
                if fs:
                    self.chk_sx.append([i, 1000 + j, fs])

    def msg_id(self, m):
        return self.msg_ids.setdefault(m, len(self.msg_ids))

    def value_classes(self, fmt):
        """class ids such that two entities are in one class iff their values are ==;
        Fluent: iff the implementation's equals() (AST equality, a parameter) says so"""
        from compare_locales import parser
        out = {}
        if fmt != "ftl":
            ids = {}
            for side, ents in ((0, self.ref), (1, self.l10n)):
                for i, e in enumerate(ents):
                    out[(side, i)] = ids.setdefault(e.val, len(ids))
            return out
        reps = {}                       # key -> [(representative entity, class id)]
        n = 0
        for side, ents in ((0, self.ref), (1, self.l10n)):
            for i, e in enumerate(ents):
                cls = None
                if not isinstance(e, parser.Junk):
                    for rep, c in reps.setdefault(e.key, []):
                        if rep.equals(e):
                            cls = c
                            break
                if cls is None:
                    cls = n
                    n += 1
                    if not isinstance(e, parser.Junk):
                        reps[e.key].append((e, cls))
                out[(side, i)] = cls
        return out

    def canon_note(self, category, data):
        if category == "missingEntity":
            return [2, canon_key(data)]
        if category == "obsoleteEntity":
            return [3, canon_key(data)]
        if category in ("error", "warning") and isinstance(data, str):
            if category == "error" and data in self.msg_ids and \
                    self.msg_ids[data] in self.junk_msg.values():
                return [4, self.msg_ids[data]]
            if (category, data) in self.msg_ids:
                return [5, int(category == "error"), self.msg_ids[(category, data)]]
            if data == "Parser error in en-US" and category == "warning":
                return [1]
            m = re.match(r"(.*) occurs (\d+) times\Z", data, re.S)
            if m and m.group(1) in self.keys:
                return [0, int(category == "error"), canon_key(self.keys[m.group(1)]), int(m.group(2))]
        return [99, s2l(str(category)), s2l(str(data))]

    def canon_model_notes(self, notes):
        """model notes name a junk entity by identity; the implementation by its message"""
        return [[4, self.junk_msg.get(n[1], -1)] if n[0] == 4 else n for n in notes]


def make_filter(verdicts, file_verdict="error"):
    def flt(file, entity=None):
        if entity is None:
            return file_verdict
        try:
            return verdicts.get(entity, "error")
        except TypeError:
            return "error"
    return flt


def run_compare(fmt, refpath, l10npath, verdicts, merge, tables, quiet=0, names=None):
    """-> canonical result of the implementation, and the raw summary dict"""
    from compare_locales.compare.content import ContentComparer
    from compare_locales.compare.observer import Observer
    from compare_locales.paths import File

    log, pushed, merged = [], [], []

    class RecObserver(Observer):
        def notify(self, category, file, data):
            log.append((category, data))
            return super().notify(category, file, data)

        def updateStats(self, file, stats):
            pushed.append(dict(stats))
            return super().updateStats(file, stats)

    class RecComparer(ContentComparer):
        def merge(self, ref_entities, ref_file, l10n_file, merge_file, missing, skips, ctx,
                  capabilities, encoding):
            merged.append((list(missing), list(skips)))

    # wired as compareProjects does: the quiet level goes to the comparer and to each observer
    cc = RecComparer(quiet=quiet)
    obs = RecObserver(quiet=quiet, filter=make_filter(verdicts) if verdicts is not None else None)
    cc.observers.append(obs)
    ref_name, l10n_name = names or (FILE[fmt], FILE[fmt])
    ref_file = File(refpath, ref_name, locale="xx")
    l10n_file = File(l10npath, l10n_name, locale="xx")
    reset_junk()
    try:
        cc.compare(ref_file, l10n_file, "/nonexistent/verif_c03_merge" if merge else None)
    except AttributeError:
        return [1, 8], None, None           # stands for AttributeError (see Model/Compare.v)
    except Exception as e:  # noqa   anything escaping compare() is a failure of the property
        return [1, 99, s2l(type(e).__name__)], None, None
    js = obs.toJSON()
    det = list(js["details"].values())
    det = det[0] if det else []
    if quiet:
        det = []        # which details a quiet level hides is C10's subject; the numbers must not move
    summ = js["summary"].get("xx", {})
    if len(pushed) != 1 or sorted(pushed[0]) != sorted(STATS):
        stats = [-1]
    else:
        stats = [pushed[0][k] for k in STATS]
    missings, skips = [], []
    if merge:
        if len(merged) != 1:
            missings = [[99]]
        else:
            missings = [canon_key(k) for k in merged[0][0]]
            skips = [skip_id(s, tables) for s in merged[0][1]]
    res = [0, [stats,
               [tables.canon_note(c, d) for c, d in log],
               missings, skips,
               [tables.canon_note(*next(iter(d.items()))) for d in det],
               [summ.get("errors", 0), summ.get("warnings", 0)] + [summ.get(k, 0) for k in STATS]]]
    mirror = cc.observers.toJSON() == js
    return res, summ, mirror


def skip_id(s, tables):
    """identity of a skipped entity of the comparer's parse, in the harness's parse:
    the last entity with the same key, span and text"""
    best = -1
    for j, e in enumerate(tables.l10n):
        if e.key == s.key and e.span == s.span and e.all == s.all:
            best = 1000 + j
    return best


# -------------------------------------------------------------------- suites ---
class Work:
    def __init__(self):
        self.dir = tempfile.mkdtemp(prefix="verif_c03_")
        self.n = 0

    def paths(self, fmt):
        d = os.path.join(self.dir, fmt)
        os.makedirs(os.path.join(d, "ref"), exist_ok=True)
        os.makedirs(os.path.join(d, "l10n"), exist_ok=True)
        return os.path.join(d, "ref", FILE[fmt]), os.path.join(d, "l10n", FILE[fmt])

    def close(self):
        shutil.rmtree(self.dir, ignore_errors=True)


def write(path, text):
    with open(path, "w", encoding="utf-8", newline="") as f:
        f.write(text)


def one_pair(chk, work, fmt, ref_text, l10n_text, verdicts, merge, case=None, count=True, quiet=0,
             names=None):
    """run implementation + oracle on one pair; -> (request for the model, impl result, tables)"""
    from compare_locales.paths import File
    refpath, l10npath = work.paths(fmt)
    write(refpath, ref_text)
    write(l10npath, l10n_text)
    tables = Tables(fmt, refpath, l10npath, File(l10npath, (names or (0, FILE[fmt]))[1], locale="xx"))
    res, summ, mirror = run_compare(fmt, refpath, l10npath, verdicts, merge, tables, quiet, names)
    vt = [[canon_key(k), VCODE[v]] for k, v in (verdicts or {}).items() if v != "error"]
    req = (0, [vt, tables.ref_sx, tables.l10n_sx, tables.chk_sx, int(merge)])
    desc = {"format": fmt, "ref": ref_text, "l10n": l10n_text, "verdicts": verdicts and
            [[k, v] for k, v in verdicts.items()], "merge": merge, "quiet": quiet}
    if names:
        desc["names"] = list(names)
    if case is not None:
        desc["script"] = script_json(case)
    if count:
        chk.count((fmt, ref_text, l10n_text, sorted(vt), merge, quiet))
    if res[0] == 0 and not mirror:
        chk.fail("observerlist-mirror", desc, "ObserverList's own report differs from its only observer's")
    if case is not None and res[0] != 0:
        chk.fail(f"{fmt}-raised", desc, res)
    if case is not None and res[0] == 0:
        exp, sets, plain, exp_err, exp_warn = expected(case, verdicts or {})
        got = {k: summ.get(k, 0) for k in STATS}
        counts = ("missing", "report", "obsolete", "changed", "unchanged", "keys")
        bad = [k for k in counts if got[k] != exp[k]]
        if plain:
            bad += [k for k in STATS if k.endswith("_w") and got[k] != exp[k]]
            if exp_err is not None and summ.get("errors", 0) != exp_err:
                bad.append("errors")
            if exp_warn is not None and summ.get("warnings", 0) != exp_warn:
                bad.append("warnings")
        # the sets themselves, from the details
        det = res[1][4]
        miss = [n[1] for n in det if n[0] == 2]
        obso = [n[1] for n in det if n[0] == 3]
        want_miss = sorted(canon_key(k) for k in sets["missing"] | sets["report"])
        want_obso = sorted(canon_key(k) for k in sets["obsolete"])
        if not quiet and sorted(miss) != want_miss:
            bad.append("missing-set")
        if not quiet and sorted(obso) != want_obso:
            bad.append("obsolete-set")
        if merge and sorted(res[1][2]) != sorted(canon_key(k) for k in sets["missing"]):
            bad.append("missings-list")
        if merge and len(set(res[1][3])) != len(res[1][3]):
            bad.append("skipped-twice")          # an entity is handed to merge() once
        if not verdicts and plain and not any(it[0] == "junk" for it in case["ref"]):
            total = got["missing"] + got["changed"] + got["unchanged"] + got["keys"]
            if total != len({it[1] for it in case["ref"]}):
                bad.append("partition")
        if bad:
            chk.fail(f"{fmt}-" + bad[0], desc, {"wrong": bad, "summary": summ, "expected": exp,
                                                "expected_errors": exp_err,
                                                "expected_warnings": exp_warn})
    return req, res, tables, desc


def post(tables, merge, out, quiet=0):
    """canonicalise a model answer: junk notes by message, missings/skips only when merging
    (without a merge file the implementation never shows them)"""
    if out[0] != 0:
        return out
    stats, notes, missings, skips, det, summ = out[1]
    if not merge:
        missings, skips = [], []
    if quiet:
        det = []            # the model's details are those of quiet = 0
    return [0, [stats, tables.canon_model_notes(notes), missings, skips,
                tables.canon_model_notes(det), summ]]


def FILE_FMT(tables):
    return tables.fmt


def e2e_request(tables, req, ref_text, l10n_text):
    """the same comparison for the text-level model (compare_properties): the two TEXTS instead
    of the parse; entities are named by the offset at which their span starts"""
    from compare_locales import parser
    vt, _, _, chk_sx, merge = req[1]
    rows = [[tables.ref[i].span[0], tables.l10n[j - 1000].span[0], fs] for i, j, fs in chk_sx]
    if FILE_FMT(tables) == "dtd":
        # html.unescape is an oracle of the DTD model: its graph on the raw values of the two files
        html = sorted({(e.raw_val, e.val) for e in tables.ref + tables.l10n
                       if not isinstance(e, parser.Junk)})
        return (5, [vt, s2l(ref_text), s2l(l10n_text), rows, merge, 0,
                    [[s2l(a), s2l(b)] for a, b in html]])
    return (4, [vt, s2l(ref_text), s2l(l10n_text), rows, merge, 0])


def e2e_post(tables, merge, out, quiet):
    """offsets back to the harness's entity numbers, then as for the parse-level model"""
    if out[0] != 0:
        return out
    by_off = {e.span[0]: 1000 + j for j, e in enumerate(tables.l10n)}
    stats, notes, missings, skips, det, summ = out[1]

    def fix(ns):
        return [[4, by_off.get(n[1], -1)] if n[0] == 4 else n for n in ns]
    return post(tables, merge, [0, [stats, fix(notes), missings, [by_off.get(i, -1) for i in skips],
                                    fix(det), summ]], quiet)


def suite_compare(chk, work, model, fmt, n, spicy):
    rng = chk.rng
    reqs, impl, tabs, descs, e2e = [], [], [], [], []
    for i in range(n):
        case = gen_case(rng, fmt, spicy=spicy)
        verdicts = None
        if rng.random() < 0.5:
            ks = {it[1] for it in case["ref"] + case["l10n"] if it[0] == "rec"}
            verdicts = {k: rng.choice(["error", "error", "ignore", "warning"]) for k in sorted(ks, key=str)}
        merge = rng.random() < 0.4
        quiet = 0 if rng.random() < 0.65 else rng.randint(1, 4)
        chk.hist("quiet_level_compare", quiet)
        ref_text = render(fmt, case["ref"], "ref")
        l10n_text = render(fmt, case["l10n"], "l10n")
        names = None
        if fmt == "po":         # template and catalogue names: .pot / .po
            names = rng.choice([("a.po", "a.po"), ("a.pot", "a.po"), ("a.pot", "a.pot")])
            chk.hist("po_file_names", "/".join(names))
        req, res, tables, desc = one_pair(chk, work, fmt, ref_text, l10n_text, verdicts, merge, case,
                                          quiet=quiet, names=names)
        reqs.append(req)
        impl.append(res)
        tabs.append((tables, merge, quiet))
        if fmt in ("properties", "dtd"):
            e2e.append(e2e_request(tables, req, ref_text, l10n_text))
        descs.append(desc)
        chk.hist(f"{fmt}_ref_entities", min(len(tables.ref), 9))
        for side in ("ref", "l10n"):
            its = case[side]
            if any(a[0] == "rec" and b[0] == "rec" and not a[2] for a, b in zip(its, its[1:])):
                chk.hist("empty_value_followed_by_record", f"{fmt}-{side}")
        if fmt == "android":
            for side in ("ref", "l10n"):
                if any(it[0] == "junk" for it in case[side]):
                    chk.hist("android_files_with_non_string_children", side)
        if fmt == "ftl":
            last = {it[1]: it for it in case["ref"] if it[0] == "rec"}
            for it in case["l10n"]:
                if it[0] == "rec" and it[1] in last and it[2] == last[it[1]][2] \
                        and it[4] != last[it[1]][4]:
                    chk.hist("ftl_attribute_only_change", "term" if is_term(fmt, it[1]) else "message")
        if res[0] == 0:
            for k, v in zip(STATS, res[1][0]):
                if v and not k.endswith("_w"):
                    chk.hist("nonzero_counts", k)
            chk.hist("notes", min(len(res[1][1]), 9))
            if tables.chk_sx:
                chk.hist("cases_with_checker_findings", fmt)
            if merge and any(sum(f[0] for f in row[2]) >= 2 for row in tables.chk_sx):
                chk.hist("merging_with_entity_having_2+_errors", fmt)
    if descs:
        chk.sample({"suite": f"COMPARE-{fmt}", "case": descs[len(descs) // 2], "impl": impl[len(descs) // 2]})
    if model:
        outs = model.call(reqs)
        outs = [post(t, m, o, q) for (t, m, q), o in zip(tabs, outs)]
        chk.correspond(f"COMPARE-{fmt}{'-spicy' if spicy else ''}", descs, impl, outs)
        if e2e:
            # texts -> report: parser model + unescape + count_words + comparison, nothing fed
            outs = [e2e_post(t, m, o, q) for (t, m, q), o in zip(tabs, model.call(e2e))]
            chk.correspond(f"E2E-{fmt}{'-spicy' if spicy else ''}", descs, impl, outs)
        # the word counts the model was fed, against the model of Entry.count_words
        vals = sorted({vw for t, _, _ in tabs for vw in t.word_vals})
        if vals:
            chk.correspond(f"COUNTWORDS-{fmt}{'-spicy' if spicy else ''}", [v for v, _ in vals],
                           [[0, w] for _, w in vals], model.call([(3, s2l(v)) for v, _ in vals]))


def suite_small(chk, work, model):
    """every pair of key sequences of length <= 3 (thorough: 4) over {a, akey, b}, as .properties;
    values alternate so that equal and different values both occur"""
    import itertools
    keys = ["a", "akey", "b"]
    seqs = [list(p) for n in range(chk.n(4, 5)) for p in itertools.product(keys, repeat=n)]
    reqs, impl, tabs, descs = [], [], [], []
    for i, l in enumerate(seqs):
        for j, r in enumerate(seqs):
            ref = [rec(k, ["v%d" % (n % 2)]) for n, k in enumerate(l)]
            l10n = [rec(k, ["v%d" % ((n + i + j) % 2)]) for n, k in enumerate(r)]
            case = {"format": "properties", "ref": ref, "l10n": l10n}
            merge = (i + j) % 2 == 0
            req, res, tables, desc = one_pair(chk, work, "properties", render("properties", ref, "ref"),
                                              render("properties", l10n, "l10n"), None, merge, case)
            reqs.append(req)
            impl.append(res)
            tabs.append((tables, merge))
            descs.append(desc)
    if model:
        outs = [post(t, m, o) for (t, m), o in zip(tabs, model.call(reqs))]
        chk.correspond("COMPARE-small", descs, impl, outs)


def suite_junkkey(chk, work, model):
    """a localization (or reference) key that equals the generated key of a Junk of the other
    side; outside the property's quantifier (reference records only), kept for the model's
    Raise branch"""
    pairs = [("junk line\nk1 = one two\n", "_junk_1_0-10 = x\nk1 = eins\n"),
             ("junk line\nakey = one\n", "_junk_1_0-10 = x\n"),
             ("_junk_2_0-5 = a b\nk = v\n", "junk\nk = v\n"),
             ("junk line\nk1 = one two\n", "_junk_7_0-10 = x\nk1 = one two\n")]
    reqs, impl, tabs, descs = [], [], [], []
    raised = 0
    for ref_text, l10n_text in pairs:
        for merge in (False, True):
            req, res, tables, desc = one_pair(chk, work, "properties", ref_text, l10n_text, None, merge)
            raised += res[0] != 0
            reqs.append(req)
            impl.append(res)
            tabs.append((tables, merge))
            descs.append(desc)
    chk.notes.append(f"COMPARE-junkkey: {raised} of {len(pairs) * 2} runs raise AttributeError "
                     "('Junk' object has no attribute 'equals'): a localized key equal to the generated "
                     "key of a reference Junk; outside C03's quantifier, reported to C05")
    if model:
        outs = [post(t, m, o) for (t, m), o in zip(tabs, model.call(reqs))]
        chk.correspond("COMPARE-junkkey", descs, impl, outs)


def add_one(chk, work, fmt, case, fv, name=None):
    """ContentComparer.add on the rendered reference + oracle; -> (impl result, description)"""
    from compare_locales.compare.content import ContentComparer
    from compare_locales.compare.observer import Observer
    from compare_locales.paths import File
    ref_text = render(fmt, case["ref"], "ref")
    refpath, l10npath = work.paths(fmt)
    write(refpath, ref_text)
    if os.path.exists(l10npath):
        os.remove(l10npath)
    cc = ContentComparer()
    obs = Observer(filter=make_filter({}, fv) if fv is not None else None)
    cc.observers.append(obs)
    reset_junk()
    name = name or FILE[fmt]
    desc = {"format": fmt, "ref": ref_text, "file_verdict": fv, "add_script": script_json(case),
            "name": name}
    try:
        cc.add(File(refpath, name, locale="xx"), File(l10npath, name, locale="xx"), None)
    except Exception as e:  # noqa
        chk.fail(f"{fmt}-add-file-raised", desc, repr(e))
        return None, desc
    js = obs.toJSON()
    summ = js["summary"].get("xx")
    res = [[summ.get("missing", -1), summ.get("missing_w", -1)]] if summ is not None else []
    det = list(js["details"].values())
    det = det[0] if det else []
    recs = [it for it in case["ref"] if it[0] == "rec"]
    want = [] if fv == "ignore" else [[len(recs), sum(rec_words(fmt, it) for it in recs)]]
    want_det = [] if fv == "ignore" else [{"missingFile": fv or "error"}]
    if res != want or det != want_det:
        chk.fail(f"{fmt}-add-file", desc, {"summary": summ, "details": det, "expected": want})
    return res, desc


def suite_add(chk, work, model, fmt, n):
    from compare_locales import parser
    rng = chk.rng
    reqs, impl, descs = [], [], []
    for _ in range(n):
        case = gen_case(rng, fmt)
        fv = rng.choice(["error", "error", "ignore", "warning", None])
        res, desc = add_one(chk, work, fmt, case, fv,
                            rng.choice(["a.po", "a.pot"]) if fmt == "po" else None)
        chk.count(("add", fmt, desc["ref"], fv, desc["name"]))
        if res is None:
            continue
        reset_junk()
        p = parser.getParser(FILE[fmt])
        p.readFile(work.paths(fmt)[0])
        ents = []
        for i, e in enumerate(p.parse()):
            junk = isinstance(e, parser.Junk)
            ents.append([canon_key(e.key), 0, 0 if junk else e.count_words(), int(junk), i])
        reqs.append((1, [VCODE[fv or "error"], ents]))
        impl.append(res)
        descs.append(desc)
    if model:
        chk.correspond(f"ADD-{fmt}", descs, impl, model.call(reqs))


def accumulate_one(chk, work, cases):
    """cases: edit scripts of different formats; -> None or (got, want)"""
    from compare_locales.compare.content import ContentComparer
    from compare_locales.compare.observer import Observer
    from compare_locales.paths import File
    singles = []
    for case in cases:
        fmt = case["format"]
        req, res, tables, desc = one_pair(chk, work, fmt, render(fmt, case["ref"], "ref"),
                                          render(fmt, case["l10n"], "l10n"), None, False, case)
        singles.append(res[1][5] if res[0] == 0 else None)
    if None in singles:
        return None
    cc = ContentComparer()
    obs = Observer()
    cc.observers.append(obs)
    for case in cases:
        fmt = case["format"]
        refpath, l10npath = work.paths(fmt)
        cc.compare(File(refpath, FILE[fmt], locale="xx"), File(l10npath, FILE[fmt], locale="xx"), None)
    summ = obs.toJSON()["summary"].get("xx", {})
    got = [summ.get("errors", 0), summ.get("warnings", 0)] + [summ.get(k, 0) for k in STATS]
    want = [sum(col) for col in zip(*singles)]
    return None if got == want else (got, want)


def suite_accumulate(chk, work, n):
    """one observer over several files of a locale: the summary is the sum of the per-file
    summaries (the stats dict is pushed once per file and added up)"""
    rng = chk.rng
    for _ in range(n):
        cases = [gen_case(rng, fmt) for fmt in rng.sample(FORMATS, rng.randint(2, 3))]
        bad = accumulate_one(chk, work, cases)
        if bad:
            chk.fail("summary-accumulate", {"scripts": [script_json(c) for c in cases]},
                     {"summary": bad[0], "sum of per-file summaries": bad[1]})


# ------------------------------------------------------------ projects ---
PROJECT_FILES = [("browser/a.properties", "properties"), ("browser/b.dtd", "dtd"),
                 ("toolkit/c.ini", "ini"), ("toolkit/d.ftl", "ftl"), ("e.po", "po"),
                 ("toolkit/f.inc", "inc")]
PROJECT_LOCALES = ["de", "fr", "it", "ja", "pt-BR", "sr-Latn"]


def flatten(details, prefix=""):
    """Tree.toJSON() -> {path: [detail dicts]}"""
    if isinstance(details, list):
        return {prefix: details}
    out = {}
    for key, val in details.items():
        out.update(flatten(val, key if not prefix else prefix + "/" + key))
    return out


def gen_project(rng):
    """one l10n.toml, a reference tree, and for each of several locales an edit script per
    file (or no file at all); JSON-able"""
    locales = rng.sample(PROJECT_LOCALES, rng.choice([1, 2, 2, 3, 3, 4]))
    files = {}
    for rel, fmt in rng.sample(PROJECT_FILES, rng.randint(1, 3)):
        used, base, ref = gen_ref(rng, fmt)
        l10n = {}
        for loc in locales:
            l10n[loc] = None if rng.random() < 0.12 else items_json(gen_l10n(rng, fmt, used, base))
        files[rel] = {"format": fmt, "ref": items_json(ref), "l10n": l10n}
    return {"locales": locales, "files": files, "quiet": 0 if rng.random() < 0.5 else rng.randint(1, 4)}


def project_one(chk, work, spec):
    """compareProjects over all locales of one configuration in one run; the summaries per
    locale and the missing / obsolete keys per file follow from the edit scripts"""
    from compare_locales.compare import compareProjects
    from compare_locales.paths import TOMLParser
    root = os.path.join(work.dir, "project")
    shutil.rmtree(root, ignore_errors=True)
    locales = spec["locales"]
    os.makedirs(os.path.join(root, "l10n"))
    write(os.path.join(root, "l10n.toml"),
          'basepath = "."\nlocales = [%s]\n[[paths]]\n    reference = "reference/**"\n'
          '    l10n = "l10n/{locale}/**"\n' % ", ".join('"%s"' % loc for loc in locales))
    want = {loc: dict.fromkeys(["errors", "warnings"] + STATS, 0) for loc in locales}
    want_details = {}
    unchecked = set()
    for rel, f in spec["files"].items():
        fmt, ref = f["format"], items_load(f["ref"])
        path = os.path.join(root, "reference", rel)
        os.makedirs(os.path.dirname(path), exist_ok=True)
        write(path, render(fmt, ref, "ref"))
        for loc in locales:
            w = want[loc]
            if f["l10n"][loc] is None:                  # missing file: ContentComparer.add
                recs = [it for it in ref if it[0] == "rec"]
                w["missing"] += len(recs)
                w["missing_w"] += sum(rec_words(fmt, it) for it in recs)
                want_details[f"{loc}/{rel}"] = "missingFile"
                continue
            l10n = items_load(f["l10n"][loc])
            path = os.path.join(root, "l10n", loc, rel)
            os.makedirs(os.path.dirname(path), exist_ok=True)
            write(path, render(fmt, l10n, "l10n"))
            exp, sets, plain, exp_err, exp_warn = expected({"format": fmt, "ref": ref, "l10n": l10n}, {})
            for k in STATS:
                w[k] += exp[k]
            if exp_err is None:
                unchecked.add(loc)          # checker verdicts on markup: not by construction
            else:
                w["errors"] += exp_err
                w["warnings"] += exp_warn
            want_details[f"{loc}/{rel}"] = (sorted(map(str, sets["missing"])),
                                            sorted(map(str, sets["obsolete"])))
    reset_junk()
    pc = TOMLParser().parse(os.path.join(root, "l10n.toml"))
    try:
        observers = compareProjects([pc], list(locales), os.path.join(root, "l10n"),
                                    quiet=spec.get("quiet", 0))
    except Exception as e:  # noqa
        chk.fail("project-raised", {"project": spec}, repr(e))
        return
    for name, obs in (("project", list(observers)[0]), ("total", observers)):
        data = obs.toJSON()
        for loc in sorted(locales):
            summ = data["summary"].get(loc, {})
            got = {k: summ.get(k, 0) for k in want[loc]}
            if loc in unchecked:
                got["errors"], got["warnings"] = want[loc]["errors"], want[loc]["warnings"]
            if got != want[loc]:
                chk.fail("project-summary", {"project": spec},
                         {"observer": name, "locale": loc, "quiet": spec.get("quiet", 0),
                          "summary": got, "expected": want[loc],
                          "locales in this run": sorted(locales)})
                return
        flat = flatten(data["details"])
        if spec.get("quiet", 0):
            continue            # hidden details are C10's subject; the summaries do not depend on quiet
        for path, exp in sorted(want_details.items()):
            items = flat.get(path, [])
            if exp == "missingFile":
                got = "missingFile" if items == [{"missingFile": "error"}] else items
            else:
                got = (sorted(str(d["missingEntity"]) for d in items if "missingEntity" in d),
                       sorted(str(d["obsoleteEntity"]) for d in items if "obsoleteEntity" in d))
            if got != exp:
                chk.fail("project-details", {"project": spec},
                         {"observer": name, "file": path, "reported": got, "expected": exp})
                return


MULTI_PATHS = ["browser/menu.properties", "toolkit/global.properties", "browser/tabs.properties",
               "browser/chrome/x.dtd", "toolkit/crash/c.ini", "browser/chrome/y.ftl", "dom/a.properties",
               "toolkit/z.dtd", "browser/b.inc", "browser/chrome/sub/deep.properties", "top.ini",
               "toolkit/crash/d.po"]
EXT_FMT = {"properties": "properties", "dtd": "dtd", "ini": "ini", "ftl": "ftl", "inc": "inc", "po": "po"}


def multi_one(chk, work, spec):
    """ONE ContentComparer and observer over several files whose paths share directory prefixes,
    in the given order: what is reported for each file (missing / obsolete keys under ITS path,
    nothing under any other path) and the summed summary follow from the edit scripts"""
    from compare_locales.compare.content import ContentComparer
    from compare_locales.compare.observer import Observer
    from compare_locales.paths import File
    root = os.path.join(work.dir, "multi")
    shutil.rmtree(root, ignore_errors=True)
    cc = ContentComparer()
    obs = Observer()
    cc.observers.append(obs)
    want, want_sum = {}, dict.fromkeys(STATS, 0)
    reset_junk()
    for occ, (rel, js) in enumerate(spec["files"]):
        case = script_load(js)
        fmt = case["format"]
        paths = []
        for side in ("ref", "l10n"):
            # a relative name may occur twice (the same file name in two checkouts /
            # modules): every occurrence has its own directory, hence its own contents
            path = os.path.join(root, str(occ), side, rel)
            os.makedirs(os.path.dirname(path), exist_ok=True)
            write(path, render(fmt, case[side], side))
            paths.append(path)
        exp, sets, plain, _, _ = expected(case, {})
        for k in STATS:
            want_sum[k] += exp[k]
        prev = want.get(rel, ([], []))
        want[rel] = (sorted(prev[0] + list(map(str, sets["missing"]))),
                     sorted(prev[1] + list(map(str, sets["obsolete"]))))
        try:
            cc.compare(File(paths[0], rel, locale="xx"), File(paths[1], rel, locale="xx"), None)
        except Exception as e:  # noqa
            chk.fail("multi-raised", {"multi": spec}, repr(e))
            return
    data = obs.toJSON()
    flat = flatten(data["details"])
    for rel in sorted(set(flat) | set(want)):
        items = flat.get(rel, [])
        got = (sorted(str(d["missingEntity"]) for d in items if "missingEntity" in d),
               sorted(str(d["obsoleteEntity"]) for d in items if "obsoleteEntity" in d))
        if got != want.get(rel, ([], [])) or (rel not in want and items):
            chk.fail("multi-details", {"multi": spec},
                     {"path": rel, "order": [r for r, _ in spec["files"]], "reported": got,
                      "expected": want.get(rel, "no such file")})
            return
    summ = data["summary"].get("xx", {})
    got = {k: summ.get(k, 0) for k in STATS}
    if got != want_sum:
        chk.fail("multi-summary", {"multi": spec}, {"summary": got, "expected": want_sum})


def suite_multifile(chk, work, n):
    rng = chk.rng
    for _ in range(n):
        rels = rng.sample(MULTI_PATHS, rng.randint(3, 5))
        if rng.random() < 0.4:
            # the same relative name again, later, with other contents (one comparer must
            # not remember anything about a name)
            rels.insert(rng.randint(1, len(rels)), rng.choice(rels))
            chk.hist("files_per_comparer_repeated_name", 1)
        spec = {"files": [[rel, script_json(gen_case(rng, EXT_FMT[rel.rsplit(".", 1)[1]]))] for rel in rels]}
        chk.count(("multi", json.dumps(spec, sort_keys=True)))
        chk.hist("files_per_comparer", len(rels))
        multi_one(chk, work, spec)


def suite_project(chk, work, n):
    for _ in range(n):
        spec = gen_project(chk.rng)
        chk.count(("project", json.dumps(spec, sort_keys=True)))
        chk.hist("project_locales_in_one_run", len(spec["locales"]))
        chk.hist("quiet_level_project", spec["quiet"])
        project_one(chk, work, spec)


CW_TOKENS = ["one", "two", "x", " ", " ", "\n", "\t", "<br>", "<br/>", "<br />", "<br\n/>", "<br\t>", "<b>",
             "</b>", "<a href='x'>", "<span class='c d'>", "<", ">", "/", "&amp;", "&foo;", "<BR/>", "<br",
             "<brx>", "<1>", "<\u00e9>", "< b>", "<b\n>", "\u00a0", "\u2028", "\x1c", "\u3000", "\x85", "<br/"]


def impl_count_words(val):
    from compare_locales.parser.base import LiteralEntity
    return LiteralEntity("k", val, val).count_words()


def suite_countwords(chk, model):
    """Entry.count_words directly: (a) values assembled from words and markup chunks, the count
    known by construction; (b) random mixes of words, blanks of all kinds, tags, fragments of tags"""
    rng = chk.rng
    vals, impl = [], []
    for _ in range(chk.n(1500, 12000)):
        fmt = rng.choice(["dtd", "properties"])
        ws = [chunk(rng, fmt) if rng.random() < 0.5 else rng.choice(WORDS) for _ in range(rng.randint(0, 5))]
        sep = [rng.choice([" ", " ", "  ", "\n", " \t "]) for _ in ws]
        val = "".join(w_text(w) + s_ for w, s_ in zip(ws, sep)).rstrip() if rng.random() < 0.8 else \
            "".join(w_text(w) + s_ for w, s_ in zip(ws, sep))
        got = impl_count_words(val)
        want = sum(w_count(w) for w in ws)
        chk.count(("cw", val))
        chk.hist("count_words_expected", min(want, 9))
        if got != want:
            chk.fail("count-words", {"value": val}, {"count_words": got, "by construction": want,
                                                     "elements": [list(w) if not isinstance(w, str) else w for w in ws]})
        vals.append(val)
        impl.append([0, got])
    for _ in range(chk.n(1500, 12000)):
        val = "".join(rng.choice(CW_TOKENS) for _ in range(rng.randint(0, 9)))
        chk.count(("cw", val))
        vals.append(val)
        impl.append([0, impl_count_words(val)])
    if model:
        chk.correspond("COUNTWORDS", vals, impl, model.call([(3, s2l(v)) for v in vals]))


def suite_keyname(chk, model):
    from compare_locales.compare.content import ContentComparer
    rng = chk.rng
    alphabet = "kKeEyY.x-_ "
    keys = ["", "key", "Key", "kEy", "KEY", "ke", "ey", "akeyb", "keKey", "kkey", "keky"]
    for _ in range(chk.n(1500, 15000)):
        keys.append("".join(rng.choice(alphabet) for _ in range(rng.randint(0, 8))))
    keys += [(k, None) for k in keys[:40]] + [(k, "key") for k in keys[:40]]
    impl = []
    for k in keys:
        got = int(bool(isinstance(k, str) and ContentComparer.keyRE.search(k)))
        impl.append(got)
        chk.count(("keyname", k))
        if got != int(contains_key(k)):
            chk.fail("keyname", {"key": k}, {"keyRE": got, "contains key/Key": int(contains_key(k))})
    if model:
        chk.correspond("KEYNAME", keys, impl, model.call([(2, canon_key(k)) for k in keys]))


def run(chk, runner_ok):
    model = Model("C03") if runner_ok else None
    if runner_ok:
        rxsuite.run_rx(chk, groups=["c03"], per_regex=chk.n(100, 600))
    suite_keyname(chk, model)
    suite_countwords(chk, model)
    work = Work()
    try:
        suite_small(chk, work, model)
        suite_junkkey(chk, work, model)
        suite_accumulate(chk, work, chk.n(60, 400))
        suite_project(chk, work, chk.n(150, 1200))
        suite_multifile(chk, work, chk.n(200, 1500))
        for fmt in FORMATS:
            suite_compare(chk, work, model, fmt, chk.n(1500, 8000), spicy=False)
            suite_compare(chk, work, model, fmt, chk.n(500, 3000), spicy=True)
            suite_add(chk, work, model, fmt, chk.n(150, 1000))
    finally:
        work.close()
    chk.trusted.append("fluent.syntax AST equality (FluentEntity.equals) and every count_words() are "
                       "inputs of the model, taken from the implementation's own parse")


def replay(chk, path):
    """re-run the recorded failing inputs through implementation + oracle; 1 if any still fails"""
    from compare_locales.compare.content import ContentComparer
    data = json.load(open(path))
    rc = 0
    work = Work()
    try:
        for f in data.get("failures", []):
            c = f["case"]
            before = len(chk.failures) + sum(v["n"] for v in chk.known_seen.values())
            if "script" in c:
                verdicts = None
                if c.get("verdicts"):
                    verdicts = {(tuple(k) if isinstance(k, list) else k): v for k, v in c["verdicts"]}
                req, res, tables, desc = one_pair(chk, work, c["format"], c["ref"], c["l10n"], verdicts,
                                                  c["merge"], script_load(c["script"]), count=False,
                                                  quiet=c.get("quiet", 0),
                                                  names=tuple(c["names"]) if c.get("names") else None)
                print("case", json.dumps({k: c[k] for k in ("format", "ref", "l10n", "verdicts", "merge")}))
                print("  implementation:", res)
            elif "add_script" in c:
                res, _ = add_one(chk, work, c["format"], script_load(c["add_script"]), c["file_verdict"],
                                 c.get("name"))
                print("case add", json.dumps({k: c[k] for k in ("format", "ref", "file_verdict")}), "->", res)
            elif "multi" in c:
                multi_one(chk, work, c["multi"])
                print("case multi", [r for r, _ in c["multi"]["files"]])
            elif "project" in c:
                project_one(chk, work, c["project"])
                print("case project", c["project"]["locales"], sorted(c["project"]["files"]))
            elif "scripts" in c:
                bad = accumulate_one(chk, work, [script_load(x) for x in c["scripts"]])
                print("case accumulate", [x["format"] for x in c["scripts"]], "->", bad)
                if bad:
                    chk.fail("summary-accumulate", c, bad)
            elif "value" in c:
                got = impl_count_words(c["value"])
                want = f["detail"]["by construction"]
                print("case value", repr(c["value"]), "count_words:", got, "by construction:", want)
                if got != want:
                    chk.fail("count-words", c, got)
            elif "key" in c:
                k = tuple(c["key"]) if isinstance(c["key"], list) else c["key"]
                got = int(bool(isinstance(k, str) and ContentComparer.keyRE.search(k)))
                print("case key", repr(k), "keyRE:", got, "contains key/Key:", int(contains_key(k)))
                if got != int(contains_key(k)):
                    chk.fail("keyname", c, got)
            else:
                print("case", json.dumps(c, default=str)[:800], "(not re-runnable)")
                rc = 1
                continue
            after = len(chk.failures) + sum(v["n"] for v in chk.known_seen.values())
            print("  ->", "still fails: " + str([x["signature"] for x in chk.failures[-(after - before):]])
                  if after > before else "no longer fails")
            rc |= after > before
        only_obligations = not data.get("failures")
        for d in data.get("disagreements", []):
            print("disagreement (model vs implementation):", json.dumps(d, default=str)[:1500])
        for o in data.get("broken_obligations", []):
            print("broken obligation (at the time of the recording):", o["name"], o["detail"][-300:])
        if only_obligations:
            rc = 1      # nothing to re-run: an obligation broke without a failing input
    finally:
        work.close()
    return int(rc)
