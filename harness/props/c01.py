"""C01 — parsing is total, terminating and lossless.

Suites
  RX[parser regexes]   engine + translator against CPython re
  PARSE-<fmt>          list(parser.walk()) and list(parser) against the model, per format:
                       exhaustive token sequences, random token/code-point mixes
  PARSE-ftl            FluentParser.walk against the model fed fluent.syntax's body
Oracle (implementation only): reassembly of entry.all, tiling, span containment,
localizable view, under a watchdog.
"""
import json

from harness import common, parsing, rxsuite
from harness.common import Model, canon

RUNNERS = ["RX"]
FACTS = ("tables", "parser", "pin_c01")

RULE = ("per format: every sequence of the format's token alphabet up to the tier's length bound, "
        "plus seeded random sequences mixing tokens, exotic line-break/astral characters and "
        "arbitrary code points (no carriage returns); distinct by (format, text); non-trivial = "
        "the parse has at least two entries")

FTL_TOKENS = ["k", " = ", "v", "\n", "# c", "-t", "    .a = b", "{", "}", "$x", " ", "*[o]", "[one]",
              " ->", "junk!", "##", "\n\n", "{ k }", "\t", "\t\n", " \t"]


def ftl_body(text):
    """fluent.syntax's resource body as the model's oracle list; also checks the contract"""
    from fluent.syntax import FluentParser, ast as ftl
    res = FluentParser().parse(text)
    body, contract_ok = [], True
    last = 0
    for e in res.body:
        a, b = e.span.start, e.span.end
        if not (last <= a <= b <= len(text)):
            contract_ok = False
        last = b
        if isinstance(e, ftl.Message):
            body.append([0, [a, b], [e.id.span.start, e.id.span.end],
                         [[e.value.span.start, e.value.span.end]] if e.value is not None else [], []])
        elif isinstance(e, ftl.Term):
            body.append([1, [a, b], [e.id.span.start, e.id.span.end],
                         [[e.value.span.start, e.value.span.end]] if e.value is not None else [], []])
        elif isinstance(e, ftl.Junk):
            if e.content != text[a:b] or a >= b:
                contract_ok = False
            body.append([2, [a, b], [0, 0], [], canon(e.content)])
        elif isinstance(e, ftl.BaseComment):
            body.append([3, [a, b], [0, 0], [], []])
        else:
            body.append([4, [a, b], [0, 0], [], []])
    return body, contract_ok


def impl_ftl(text):
    from compare_locales import parser
    p = parser.getParser("f.ftl")
    p.readUnicode(text)
    es = parsing.with_watchdog(lambda: list(p.walk()), 5)
    loc = parsing.with_watchdog(lambda: list(p), 5)
    return es, loc


def ftl_kind(e):
    from compare_locales import parser as P
    if isinstance(e, P.Junk):
        return 3
    if isinstance(e, P.Whitespace):
        return 2
    if isinstance(e, P.Comment):
        return 1
    return 0


def canon_ftl(e):
    k = ftl_kind(e)
    if k == 0:
        return [0, list(e.span), [list(e.key_span)], parsing.sp(e.val_span), [], []]
    if k == 2:
        return [2, list(e.span), [list(e.span)], [list(e.span)], [], []]
    return [k, list(e.span), [], [], [], []]


def oracle_ftl(text, es, loc):
    joined = "".join(e.all for e in es)
    if joined != text:
        return ("lossy", {"reassembled": joined})
    pos = 0
    for e in es:
        if e.span[0] != pos or e.span[1] <= pos or e.span[1] > len(text):
            return ("gap-or-overlap", {"at": pos, "span": e.span})
        pos = e.span[1]
        if ftl_kind(e) == 0:
            for s_ in (e.key_span, e.val_span):
                if s_ is not None and not (e.span[0] <= s_[0] <= s_[1] <= e.span[1]):
                    return ("span-outside-entity", {"span": s_, "entity": e.span})
    want = [canon_ftl(e) for e in es if ftl_kind(e) in (0, 3)]
    if want != [canon_ftl(e) for e in loc]:
        return ("localizable-view", {})
    return None


def texts_for(chk, fmt):
    rng = chk.rng
    maxlen = chk.n(3, 4)
    texts = list(parsing.exhaustive(fmt, maxlen))
    for _ in range(chk.n(4000, 40000)):
        texts.append(parsing.random_text(fmt, rng))
    for _ in range(chk.n(2500, 25000)):
        t = parsing.structured(fmt, rng)
        texts.append(t)
        texts.append(parsing.mutate(t, rng, parsing.TOKENS[fmt]))
    return texts


def run(chk, runner_ok):
    model = Model("C01") if runner_ok else None
    if runner_ok:
        rxsuite.run_rx(chk, groups=["parser"], per_regex=chk.n(25, 200))
    for fmt in parsing.FORMATS:
        texts = texts_for(chk, fmt)
        impl = []
        for s in texts:
            res, es = parsing.impl_walk(fmt, s)
            impl.append(res)
            loc = parsing.raw_walk(fmt, s, True) if isinstance(es, list) else None
            o = parsing.oracle_c01(fmt, s, es, loc)
            if o:
                chk.fail(f"{fmt}-{o[0]}", {"format": fmt, "text": s}, o[1])
            chk.evaluations += 1
            if isinstance(es, list) and len(es) >= 2:
                chk.distinct.add((fmt, s))
            chk.hist(f"{fmt}_entries", min(len(es), 8) if isinstance(es, list) else "hang-or-crash")
        chk.sample({"suite": f"PARSE-{fmt}", "text": texts[len(texts) // 2],
                    "impl": impl[len(texts) // 2]})
        if model:
            outs = model.call([(parsing.FCODE[fmt], [canon(s)]) for s in texts])
            chk.correspond(f"PARSE-{fmt}", texts, impl, outs,
                           classify=lambda s, fmt=fmt: classify(fmt, s))
    # Fluent
    rng = chk.rng
    texts = []
    for _ in range(chk.n(2500, 25000)):
        n = rng.randint(0, 12)
        texts.append("".join(rng.choice(FTL_TOKENS) if rng.random() < 0.9 else rng.choice(parsing.EXOTIC)
                             for _ in range(n)))
    impl, reqs, broken_contract = [], [], 0
    for s in texts:
        es, loc = impl_ftl(s)
        body, okc = ftl_body(s)
        broken_contract += not okc
        impl.append([0, [[canon_ftl(e) for e in es], [canon_ftl(e) for e in loc]]])
        reqs.append((5, [canon(s), body]))
        o = oracle_ftl(s, es, loc)
        if o:
            chk.fail(f"ftl-{o[0]}", {"format": "ftl", "text": s}, o[1])
        chk.evaluations += 1
        if len(es) >= 2:
            chk.distinct.add(("ftl", s))
    chk.sample({"suite": "PARSE-ftl", "text": texts[7], "impl": impl[7]})
    chk.assumptions.append(
        f"fluent.syntax body contract (ordered spans inside the text, junk content = slice): checked on {len(texts)} inputs, {broken_contract} violations")
    if broken_contract:
        chk.notes.append("fluent.syntax contract violated on some inputs (assumption failure, not a property violation)")
    if model:
        outs = model.call(reqs)
        chk.correspond("PARSE-ftl", texts, impl, outs)


def classify(fmt, s):
    res, es = parsing.impl_walk(fmt, s)
    loc = parsing.raw_walk(fmt, s, True) if isinstance(es, list) else None
    o = parsing.oracle_c01(fmt, s, es, loc)
    return ["violation", o[0]] if o else None


def replay(chk, path):
    data = json.load(open(path))
    rc = 0
    for f in data.get("failures", []):
        c = f["case"]
        if c["format"] == "ftl":
            es, loc = impl_ftl(c["text"])
            o = oracle_ftl(c["text"], es, loc)
        else:
            res, es = parsing.impl_walk(c["format"], c["text"])
            loc = parsing.raw_walk(c["format"], c["text"], True) if isinstance(es, list) else None
            o = parsing.oracle_c01(c["format"], c["text"], es, loc)
        print("case", repr(c), "->", o)
        rc |= o is not None
    for d in data.get("disagreements", []):
        print("disagreement", d)
        rc = 1
    return int(rc)
