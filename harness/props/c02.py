"""C02 — well-formed entries are recovered exactly; junk damage stays local.

Oracle (implementation only).  For each of the seven formats an independent
PRINTER: from a list of records (unique key, raw value built from a token list
whose meaning is known, optional comment lines) and a layout (separator, blank
lines, comment style, attached / detached comment, license header, trailing
newline or not, inert garbage at any gap) it produces the file text AND, by
construction, the expected entries: entities (key, raw value, unescaped value,
attached comment text), standalone comments, junk regions (garbage plus the
blank lines and further garbage that follow it up to the next key / comment),
sections / instructions.  The real parser's walk() must give exactly that, in
order (Whitespace entries are skipped, the tiling of the text by entry.all is
checked too).  No parser is called to obtain an expectation.

Correspondence.  PARSE-VAL-<fmt>: key / raw_val / val / pre_comment.val / all of
every entry of walk() against the model (Model/Unescape.v on top of the C01
parser models) on the same generated files plus mutated and random texts;
Fluent over fluent.syntax's body, Android over minidom's child list (oracles).
VAL-properties, VAL-po, COMMENT-VAL, ANDROID-normalize: the unescape functions
on random strings.  RX[c02]: engine + translator on the escape expressions.
"""
import html
import json

from harness import common, parsing, rxsuite
from harness.common import Model, canon, s2l
from harness.props import c01

RUNNERS = ["RX"]
FACTS = ("tables", "parser", "c02")

RULE = ("per format (properties, dtd, ini, inc, po, ftl, android): files printed from 0-8 records "
        "(unique keys, values from the format's token grammar incl. escapes, continuations, quotes, "
        "CDATA, multi-line patterns) under seeded layout choices (separator, blank lines, comment "
        "style, attached/detached comment, license header, trailing newline, inert garbage at every "
        "gap); expectation known by construction; distinct by (format, text); non-trivial = at "
        "least one record or one garbage region")

HEX = "0123456789abcdefABCDEF"
EXOTIC_BREAKS = "\x0b\x0c\x1c\x1d\x1e\x85\u2028\u2029"
WORDS = ["alpha", "beta", "Gamma", "delta", "x", "y1", "Zed", "foo", "bar", "baz", "qux", "n", "u", "t"]
LICENSE_LINES = [" This Source Code Form is subject to the terms of the Mozilla Public",
                 " License, v. 2.0. If a copy of the MPL was not distributed with this",
                 " file, You can obtain one at http://mozilla.org/MPL/2.0/."]


# ------------------------------------------------------------------ builder ---
class Builder:
    """Accumulates the text and, by construction, the expected entries."""

    def __init__(self):
        self.parts, self.n, self.expected, self.junk_start = [], 0, [], None
        self.layout = {}

    def emit(self, s):
        self.parts.append(s)
        self.n += len(s)

    def item(self):
        """a key / comment / section match starts here: an open junk region ends"""
        if self.junk_start is not None:
            self.expected.append(["J", self.junk_start, self.n])
            self.junk_start = None

    def garbage(self, line, nl="\n"):
        if self.junk_start is None:
            self.junk_start = self.n
        self.emit(line + nl)

    def strip_trailing_newlines(self):
        while self.parts and self.parts[-1].strip("\n") == "":
            self.n -= len(self.parts.pop())
        if self.parts:
            t = self.parts[-1].rstrip("\n")
            self.n -= len(self.parts[-1]) - len(t)
            self.parts[-1] = t

    def finish(self):
        self.item()
        text = "".join(self.parts)
        exp = []
        for e in self.expected:
            if e[0] == "J" and len(e) == 3:
                exp.append(["J", text[e[1]:e[2]]])
            elif e[0] == "J":
                exp.append(["J", e[1]])
            else:
                exp.append(e)
        return text, exp


def pick(rng, b, name, choices):
    c = rng.choice(choices)
    b.layout.setdefault(name, []).append(c)
    return c


def word(rng):
    return rng.choice(WORDS)


def text_line(rng, extra=""):
    """comment text: words, punctuation and a few non-ASCII characters"""
    n = rng.randint(0, 4)
    ws = []
    for _ in range(n):
        r = rng.random()
        if r < 0.7:
            ws.append(word(rng))
        elif r < 0.8:
            ws.append(rng.choice(["é", "あ", "=", ":", "#", "!", "k = v", "<b>", "&amp;", "[x]", "\\"]))
        elif r < 0.9 and extra:
            ws.append(rng.choice(extra))
        else:
            ws.append(str(rng.randint(0, 99)))
    return " ".join(ws)


def gaps(rng, b, garbage_family, blank="\n", allow_blank=True, rate=0.18, same_line=None):
    """optional inert garbage (with blank lines between / after) at a gap.
    same_line: the garbage that may share its line with what is printed next (a record or a
    comment that the format's grammar recognises in the middle of a line): the last chunk is
    then ended by blanks or a tab instead of a newline, and the junk region still ends exactly
    where the next key / comment starts"""
    b.same_line = False
    if rng.random() >= rate:
        b.layout.setdefault("garbage", []).append(0)
        return 0
    n = rng.choice([1, 1, 2, 3])
    b.layout.setdefault("garbage", []).append(n)
    for i in range(n):
        if i == n - 1 and same_line and rng.random() < 0.45:
            b.garbage(rng.choice(same_line), nl=rng.choice([" ", "\t", "  "]))
            b.layout.setdefault("garbage_same_line", []).append(True)
            b.same_line = True
            return n
        b.garbage(rng.choice(garbage_family))
        if allow_blank and rng.random() < 0.35:
            b.emit(blank * rng.randint(1, 2))
    if same_line:
        b.layout.setdefault("garbage_same_line", []).append(False)
    return n


def tail(rng, b, nrec, garbage_family, allow_blank=True):
    """after the last record: newline or not, then optionally blank lines and garbage"""
    trailing = pick(rng, b, "trailing_newline", [True, True, False])
    if nrec and not trailing:
        return
    if nrec:
        b.emit("\n")
    if allow_blank and b.n > 0:
        b.emit("\n" * rng.choice([0, 0, 1]))
    if gaps(rng, b, garbage_family, allow_blank=allow_blank):
        if not pick(rng, b, "garbage_nl_at_eof", [True, False]):
            b.strip_trailing_newlines()


# --------------------------------------------------------------- properties ---
def legal_key_properties(k):
    return (k != "" and k[0] not in "#! \t\r\n" and not any(c in "=:\n\r" for c in k)
            and k[-1] not in " \t")


def legal_raw_properties(raw):
    """no unescaped newline, no leading/trailing blank, no odd trailing backslash run"""
    if raw and (raw[0] in " \t" or raw[-1] in " \t\n"):
        return False
    i, n = 0, len(raw)
    while i < n:
        if raw[i] == "\\":
            if i + 1 >= n:
                return False
            i += 2
        elif raw[i] in "\n\r":
            return False
        else:
            i += 1
    return True


P_PLAIN = "abcxyzNU09 \t#!=:.,'\"<>&%{}[]éあ\U0001F600\x0b "
P_OTHER = "=:#! \tqXz\"'éあ\x0b"          # \c -> c for c outside known_escapes, not u, not newline


def props_tokens(rng, n):
    """[(raw, meaning, kind)] in the properties value grammar; legality by construction"""
    toks = []
    for i in range(n):
        last = i == n - 1
        prev = toks[-1] if toks else None
        for _ in range(50):
            r = rng.random()
            if r < 0.45:
                c = rng.choice(P_PLAIN)
                t = (c, c, "plain")
            elif r < 0.6:
                k = rng.randint(1, 4)
                h = "".join(rng.choice(HEX) for _ in range(k))
                t = ("\\u" + h, chr(int(h, 16)), "uni%d" % k)
            elif r < 0.7:
                t = ("\\\n" + rng.choice(["", " ", "    ", "\t", " \t "]), "", "cont")
            elif r < 0.82:
                c = rng.choice("nrt\\")
                t = ("\\" + c, {"n": "\n", "r": "\r", "t": "\t", "\\": "\\"}[c], "known")
            elif r < 0.95:
                c = rng.choice(P_OTHER)
                t = ("\\" + c, c, "other")
            else:
                t = ("\\u", "u", "ubare")
            raw = t[0]
            if i == 0 and raw[0] in " \t":
                continue
            if last and (raw[-1] in " \t\n" or t[2] == "cont"):
                continue
            if prev is not None:
                if prev[2] in ("uni1", "uni2", "uni3", "ubare") and raw[0] in HEX:
                    continue
                if prev[2] == "cont" and raw[0] in " \t":
                    continue
            toks.append(t)
            break
        else:
            toks.append(("x", "x", "plain"))
    return toks


P_GARBAGE = ["garbage", "no separator here", "\\u0041 junk", "junk 'quoted'", "<xml/>", "a b c"]
P_SEPS = ["=", ":", " = ", " : ", "\t=\t", "= ", " =", ":  ", "  :"]


def props_key(rng, used):
    while True:
        n = rng.randint(1, 6)
        k = "".join(rng.choice("abK_.-\\é" if i == 0 else "abK_.-\\é #!0あ") for i in range(n))
        k = rng.choice(["", "", word(rng) + "."]) + k
        if legal_key_properties(k) and k not in used:
            used.add(k)
            return k


def comment_lines(rng, b, exotic=False):
    n = pick(rng, b, "comment_lines", [1, 1, 2, 3])
    out = []
    for _ in range(n):
        t = text_line(rng)
        if exotic:
            j = rng.randint(0, len(t))
            t = t[:j] + rng.choice(EXOTIC_BREAKS) + t[j:]
        out.append(t)
    return out


def license_block(rng, b, nolicense):
    lines = list(LICENSE_LINES[:rng.randint(1, 3)])
    if nolicense:
        lines = [l.replace("License", "Licence") for l in lines]
        if not any("Licence" in l for l in lines):
            lines[0] += " Licence"
    elif not any("License" in l for l in lines):
        lines[-1] += " (License)"
    return lines


HEADERS = ["none", "none", "license-blank", "license-attached", "nolicense-attached", "license-late"]


def gen_properties(rng, nrec, exotic=False):
    b = Builder()
    used = set()
    header = pick(rng, b, "header", HEADERS) if nrec else pick(rng, b, "header", ["none", "license-blank"])
    if header == "license-late":
        b.emit("\n")
    pending = None          # a comment block directly in front of the first record
    if header != "none":
        marker = rng.choice("#!")
        lines = [marker + l for l in license_block(rng, b, header.startswith("nolicense"))]
        val = "\n".join(l[1:] for l in lines)
        b.item()
        b.emit("\n".join(lines) + "\n")
        if header == "license-blank":
            b.expected.append(["C", val])
            b.emit("\n")
        elif header == "license-attached":
            b.expected.append(["C", val])           # the License rule: standalone
        else:
            pending = val                           # attaches like any comment
    for i in range(nrec):
        first = i == 0
        if not (first and pending is not None) and not (first and header == "license-attached"):
            b.emit("\n" * pick(rng, b, "blank_before", [0, 0, 1, 2]))
            cm = pick(rng, b, "comment", ["none", "none", "attached", "detached"])
            # garbage may share a line with a following comment (# and ! start a comment
            # anywhere), never with a record (it would be part of the key)
            gaps(rng, b, P_GARBAGE, same_line=P_GARBAGE if cm != "none" else None)
        key = props_key(rng, used)
        toks = props_tokens(rng, pick(rng, b, "value_tokens", [0, 1, 2, 3, 5, 8]))
        for t in toks:
            b.layout.setdefault("token", []).append(t[2])
        raw = "".join(t[0] for t in toks)
        val = "".join(t[1] for t in toks)
        assert legal_raw_properties(raw), raw
        pre = None
        if first and pending is not None:
            pre = pending
        elif first and header == "license-attached":
            pass
        else:
            if cm != "none":
                lines = comment_lines(rng, b, exotic)
                if getattr(b, "same_line", False):
                    # garbage in front of the comment on its line: with = or : in that line
                    # the whole line would be a record
                    lines[0] = lines[0].replace("=", "-").replace(":", "-")
                style = pick(rng, b, "comment_style", ["#", "!", "# ", "mixed"])
                rendered = [(rng.choice("#!") if style == "mixed" else style) + l for l in lines]
                cval = "\n".join(l[1:] for l in rendered)
                b.item()
                b.emit("\n".join(rendered) + "\n")
                if cm == "attached":
                    pre = cval
                else:
                    b.expected.append(["C", cval])
                    b.emit("\n" * rng.randint(1, 2))
        b.emit(pick(rng, b, "indent", ["", "", "", "  ", "\t"]))
        b.item()
        b.emit(key + pick(rng, b, "separator", P_SEPS) + raw)
        b.expected.append(["E", key, raw, val, pre])
        if i < nrec - 1:
            b.emit("\n")
    tail(rng, b, nrec, P_GARBAGE)
    return b


# ---------------------------------------------------------------------- dtd ---
D_FIRST = "abK_:éあ"
D_REST = D_FIRST + "0.-"
D_PLAIN = "abcxyz09 \t\n<>%#=.,;!{}[]éあ\U0001F600"
D_REFS = [("&amp;", "&"), ("&lt;", "<"), ("&gt;", ">"), ("&quot;", '"'), ("&apos;", "'"),
          ("&nbsp;", "\xa0"), ("&eacute;", "é"), ("&brandShortName;", "&brandShortName;"),
          ("&foo.bar;", "&foo.bar;"), ("&x;", "&x;")]
D_NUM = [33, 38, 60, 65, 97, 126, 0xA1, 0xE9, 0x2FF, 0x3042]
D_GARBAGE = ["garbage", "<!ENTITY", "<!ENTITY incomplete>", "<!ELEMENT x>", "&amp; junk", "]]>",
             "<!ENTITY % broken",
             # complete declarations whose NAME is not an XML Name (first character not a
             # NameStartChar, no name at all, a character outside NameChar): junk, not entities
             '<!ENTITY 1bad "x">', "<!ENTITY -dash 'x'>", '<!ENTITY .dot "x">', '<!ENTITY  "no name">',
             '<!ENTITY 0 "x">', '<!ENTITY a$b "x">', "<!ENTITY a,b 'x'>", '<!ENTITY \u00b7mid "x">']


def legal_raw_dtd(raw, quote):
    return quote not in raw


def dtd_tokens(rng, n, quote):
    toks = []
    for _ in range(n):
        r = rng.random()
        if r < 0.6:
            c = rng.choice(D_PLAIN + ("'" if quote == '"' else '"'))
            toks.append((c, c, "plain"))
        elif r < 0.8:
            a, m = rng.choice(D_REFS)
            if quote in a:
                a, m = "&amp;", "&"
            toks.append((a, m, "named" if a != m else "unknown"))
        elif r < 0.9:
            c = rng.choice(D_NUM)
            toks.append(("&#%d;" % c, chr(c), "decimal"))
        else:
            c = rng.choice(D_NUM)
            toks.append((rng.choice(["&#x%x;", "&#x%04X;", "&#X%x;"]) % c, chr(c), "hex"))
    return toks


def dtd_comment_text(rng, b):
    n = pick(rng, b, "comment_lines", [1, 1, 2, 3])
    lines = [text_line(rng, extra=["-", "a-b", "<!ENTITY old \"x\">", "->"]) for _ in range(n)]
    t = pick(rng, b, "comment_style", [" %s ", "%s", "\n  %s\n", " %s\n"]) % "\n     ".join(lines)
    t = t.replace("--", "- -")
    if t.endswith("-"):
        t += " "
    return t


def gen_dtd(rng, nrec, exotic=False):
    b = Builder()
    used = set()
    header = pick(rng, b, "header", HEADERS) if nrec else pick(rng, b, "header", ["none", "license-blank"])
    # a file that is only the byte-order mark yields the zero-width Junk (1,1): outside the property
    if pick(rng, b, "bom", [False, False, False, True]) and (nrec or header != "none"):
        b.emit("\ufeff")
    if header == "license-late":
        b.emit("\n\n")
    pending = None
    attach_sep = None
    if header != "none":
        val = "\n".join(license_block(rng, b, header.startswith("nolicense"))) + " "
        b.item()
        b.emit("<!--" + val + "-->")
        if header == "license-blank":
            b.expected.append(["C", val])
            b.emit("\n\n")
        else:
            attach_sep = pick(rng, b, "attach_sep", ["\n", " ", "", "\n  "])
            b.emit(attach_sep)
            if header == "license-attached":
                b.expected.append(["C", val])
            else:
                pending = val
    for i in range(nrec):
        first = i == 0
        direct = first and header in ("license-attached", "nolicense-attached", "license-late")
        if not direct:
            b.emit("\n" * pick(rng, b, "blank_before", [0, 0, 1, 2]))
            # a DTD is not line based: garbage, comments and entities may share a line
            gaps(rng, b, D_GARBAGE, same_line=D_GARBAGE)
        while True:
            key = rng.choice(["", "", word(rng) + "."]) + "".join(
                rng.choice(D_FIRST if j == 0 else D_REST) for j in range(rng.randint(1, 5)))
            if key[0] in D_FIRST + "abcdefghijklmnopqrstuvwxyzGZ" and key not in used:
                used.add(key)
                break
        quote = pick(rng, b, "quote", ['"', "'"])
        toks = dtd_tokens(rng, pick(rng, b, "value_tokens", [0, 1, 2, 3, 5, 8]), quote)
        for t in toks:
            b.layout.setdefault("token", []).append(t[2])
        raw = "".join(t[0] for t in toks)
        val = "".join(t[1] for t in toks)
        assert legal_raw_dtd(raw, quote)
        pre = pending if first else None
        if not direct:
            cm = pick(rng, b, "comment", ["none", "none", "attached", "detached"])
            if cm != "none":
                ctext = dtd_comment_text(rng, b)
                b.item()
                b.emit("<!--" + ctext + "-->")
                if cm == "attached":
                    pre = ctext
                    b.emit(pick(rng, b, "attach_sep", ["\n", " ", "", "\n  "]))
                else:
                    b.expected.append(["C", ctext])
                    b.emit(rng.choice(["\n\n", "\n \n", "\n\n\n"]))
        b.item()
        ws = [" ", "  ", "\t", "\n", "\n  "]
        b.emit("<!ENTITY" + pick(rng, b, "separator", ws) + key + rng.choice(ws) + quote + raw + quote
               + rng.choice(["", "", " ", "\n"]) + ">")
        b.expected.append(["E", key, raw, val, pre])
        if i < nrec - 1:
            b.emit(pick(rng, b, "record_sep", ["\n", "\n", "\n", "", " "]))
    tail(rng, b, nrec, D_GARBAGE)
    return b


# ---------------------------------------------------------------------- ini ---
I_GARBAGE = ["garbage", "no separator here", "key : value", "<xml/>", "]junk["]
I_PLAIN = "abcxyz09 \t#;=[]:.,'\"éあ\U0001F600\\"


def legal_key_ini(k):
    return k != "" and k[0] not in " \t\r\n;#[" and not any(c in "=\n\r" for c in k)


def gen_ini(rng, nrec, exotic=False):
    b = Builder()
    used = set()
    section = pick(rng, b, "section", [True, True, True, False])
    header = pick(rng, b, "header", HEADERS) if nrec else pick(rng, b, "header", ["none", "license-blank"])
    if section and header in ("license-attached", "nolicense-attached"):
        header = "license-blank" if header.startswith("license") else "none"
    if header == "license-late":
        b.emit("\n\n")
    pending = None
    if header != "none":
        marker = rng.choice(";#")
        lines = [marker + l for l in license_block(rng, b, header.startswith("nolicense"))]
        val = "\n".join(l[1:] for l in lines)
        b.item()
        b.emit("\n".join(lines) + "\n")
        if header == "license-blank":
            b.expected.append(["C", val])
            b.emit(rng.choice(["\n", ""]) if section else "\n")
        elif header == "license-attached":
            b.expected.append(["C", val])
        elif section:
            b.expected.append(["C", val])       # a comment in front of the section header stands alone
        else:
            pending = val
    if section:
        b.item()
        b.emit("[Strings]")
        b.expected.append(["S", "Strings"])
        b.emit("\n")
        pending = None
    for i in range(nrec):
        first = i == 0
        direct = first and not section and header in ("license-attached", "nolicense-attached", "license-late")
        if not direct:
            b.emit("\n" * pick(rng, b, "blank_before", [0, 0, 1, 2]))
            gaps(rng, b, I_GARBAGE)
        while True:
            n = rng.randint(1, 6)
            key = "".join(rng.choice("abK_.-é" if j == 0 else "abK_.-é ;#:0あ]") for j in range(n))
            key = rng.choice(["", "", word(rng) + "."]) + key
            if legal_key_ini(key) and key not in used:
                used.add(key)
                break
        nt = pick(rng, b, "value_tokens", [0, 1, 2, 3, 5, 8])
        raw = "".join(rng.choice(I_PLAIN) for _ in range(nt))
        pre = pending if first else None
        if not direct:
            cm = pick(rng, b, "comment", ["none", "none", "attached", "detached"])
            if cm != "none":
                lines = comment_lines(rng, b, exotic)
                style = pick(rng, b, "comment_style", [";", "#", "; ", "mixed"])
                rendered = [(rng.choice(";#") if style == "mixed" else style) + l for l in lines]
                cval = "\n".join(l[1:] for l in rendered)
                b.item()
                b.emit("\n".join(rendered) + "\n")
                if cm == "attached":
                    pre = cval
                else:
                    b.expected.append(["C", cval])
                    b.emit("\n" * rng.randint(1, 2))
        b.item()
        b.emit(key + "=" + raw)
        b.layout.setdefault("separator", []).append("=")
        b.expected.append(["E", key, raw, raw, pre])
        if i < nrec - 1:
            b.emit("\n")
    tail(rng, b, nrec, I_GARBAGE)
    return b


# ---------------------------------------------------------------------- inc ---
N_GARBAGE = ["garbage", "#", "#foo", "define x y", "#define", "<xml/>"]
N_PLAIN = "abcxyz09 \t#=:.,'\"<>éあ\U0001F600\\"


def gen_inc(rng, nrec, exotic=False):
    """every item is followed by one newline; blank lines only while `#filter emptyLines` is on"""
    b = Builder()
    used = set()
    state = {"filt": False}

    def instruction(text):
        # inert garbage directly in front of an instruction: the junk ends where the
        # instruction starts (also on the same line: #word args is recognised anywhere)
        gaps(rng, b, N_GARBAGE, allow_blank=state["filt"] and b.n > 0, rate=0.3,
             same_line=[g for g in N_GARBAGE if not g.startswith("#")])
        b.layout.setdefault("instruction", []).append(text.split()[0])
        b.item()
        b.emit("#" + text + "\n")
        b.expected.append(["I", text])
        if text == "filter emptyLines":
            state["filt"] = True
        if text == "unfilter emptyLines":
            state["filt"] = False

    header = pick(rng, b, "header", ["none", "license", "license", "nolicense"])
    mode = pick(rng, b, "filter", ["none", "all", "all", "middle"])
    switch = rng.randint(0, nrec) if mode == "middle" else None
    pending = None
    if header != "none":
        lines = ["# " + l.strip() for l in license_block(rng, b, header.startswith("nolicense"))]
        val = "\n".join(l[2:] for l in lines)
        b.item()
        b.emit("\n".join(lines) + "\n")
        # the inc parser has no License rule: the comment stands alone only when an
        # instruction, garbage or nothing follows
        if mode != "all" and nrec and switch != 0:
            pending = val
        else:
            b.expected.append(["C", val])
    if mode == "all":
        instruction("filter emptyLines")
    for i in range(nrec):
        first = i == 0
        direct = first and pending is not None
        if switch == i:
            instruction(pick(rng, b, "filter_spelling", ["filter emptyLines", "filter emptyLines",
                                                          "filter  emptyLines", "filter emptylines"]))
        if not direct and pick(rng, b, "other_instruction", [False] * 7 + [True]):
            instruction(rng.choice(["include other.inc", "expand __X__ y", "filter substitution",
                                    "unfilter substitution"]))
        filt = state["filt"]
        if not direct:
            if filt and b.n > 0:
                b.emit("\n" * pick(rng, b, "blank_before", [0, 0, 1, 2]))
            else:
                b.layout.setdefault("blank_before", []).append("n/a")
                # outside a filter region blank lines are junk themselves: the newline that ends
                # the previous line and the empty lines form one Junk (the whitespace run)
                if b.n > 0 and b.parts[-1].endswith("\n") and b.junk_start is None \
                        and pick(rng, b, "blank_junk", [False] * 6 + [True]):
                    k = rng.randint(1, 2)
                    b.expected.append(["J", b.n - 1, b.n + k])
                    b.emit("\n" * k)
            choices = ["none", "none", "attached", "detached"] if filt else ["none", "none", "attached"]
            cm = pick(rng, b, "comment", choices)
            # #define is recognised anywhere in a line, a comment only at its start; garbage
            # starting with # followed by blanks and text would be an instruction
            gaps(rng, b, N_GARBAGE, allow_blank=filt,
                 same_line=[g for g in N_GARBAGE if not g.startswith("#")] if cm == "none" else None)
        while True:
            key = rng.choice(["", "", word(rng) + "_"]) + "".join(
                rng.choice("abK_09éあ") for _ in range(rng.randint(1, 5)))
            if key not in used:
                used.add(key)
                break
        nt = pick(rng, b, "value_tokens", [0, 1, 2, 3, 5, 8])
        raw = "".join(rng.choice(N_PLAIN) for _ in range(nt))
        pre = pending if first else None
        if not direct:
            if cm != "none":
                lines = comment_lines(rng, b, exotic)
                rendered = ["# " + l for l in lines]
                cval = "\n".join(l[2:] for l in rendered)
                b.item()
                b.emit("\n".join(rendered) + "\n")
                if cm == "attached":
                    pre = cval
                else:
                    b.expected.append(["C", cval])
                    b.emit("\n" * rng.randint(1, 2))
        b.item()
        sep = pick(rng, b, "separator", ["", " ", "\t"] if not raw else [" ", "\t"])
        b.emit("#define" + rng.choice([" ", "  ", "\t"]) + key + sep + raw + "\n")
        b.expected.append(["E", key, raw, raw, pre])
    if state["filt"] and b.n > 0:
        b.emit("\n" * rng.choice([0, 0, 1]))
    if mode == "all" and rng.random() < 0.7:
        instruction("unfilter emptyLines")
    gaps(rng, b, N_GARBAGE, allow_blank=state["filt"])
    if not pick(rng, b, "trailing_newline", [True, True, False]):
        b.strip_trailing_newlines()
    return b


# ----------------------------------------------------------------------- po ---
O_PLAIN = "abcxyz09 \t#=:.,'<>%{}éあ\U0001F600"
O_ESC = [("\\\\", "\\"), ("\\t", "\t"), ("\\r", "\r"), ("\\n", "\n"), ('\\"', '"')]
O_GARBAGE = ["garbage", 'msgstr "orphan"', "junk line", "msgstr", "<xml/>"]


def po_tokens(rng, n):
    toks = []
    for _ in range(n):
        if rng.random() < 0.7:
            c = rng.choice(O_PLAIN)
            toks.append((c, c, "plain"))
        else:
            a, m = rng.choice(O_ESC)
            toks.append((a, m, "esc" + a[1]))
    return toks


def legal_item_po(item):
    """the reListItem grammar: escapes \\\\ \\t \\r \\n \\", no bare quote, newline or backslash"""
    i = 0
    while i < len(item):
        if item[i] == "\\":
            if i + 1 >= len(item) or item[i + 1] not in '\\trn"':
                return False
            i += 2
        elif item[i] in '"\n':
            return False
        else:
            i += 1
    return True


def po_list(rng, b, keyword, toks):
    """render a string list; returns the text"""
    cuts = sorted(rng.sample(range(len(toks) + 1), min(len(toks) + 1, rng.choice([0, 0, 1, 2]))))
    items, last = [], 0
    for c in cuts + [len(toks)]:
        items.append("".join(t[0] for t in toks[last:c]))
        last = c
    if rng.random() < 0.15:
        items.insert(0, "")
    for it in items:
        assert legal_item_po(it), it
    b.layout.setdefault("po_items", []).append(len(items))
    out = keyword + pick(rng, b, "separator", [" ", " ", "", "\t"])
    isep = pick(rng, b, "item_sep", ["\n", "\n", " ", "\n  "])
    return out + isep.join('"' + it + '"' for it in items)


def gen_po(rng, nrec, exotic=False):
    b = Builder()
    used = set()
    header = pick(rng, b, "header", HEADERS) if nrec else pick(rng, b, "header", ["none", "license-blank"])
    if header == "license-late":
        b.emit("\n\n")
    pending = None
    if header != "none":
        lines = ["#" + l for l in license_block(rng, b, header.startswith("nolicense"))]
        val = "".join(l + "\n" for l in lines)
        b.item()
        b.emit(val)
        if header == "license-blank":
            b.expected.append(["C", val])
            b.emit("\n\n")
        elif header == "license-attached":
            b.expected.append(["C", val])
        else:
            pending = val
    b.one_blank_idx = []
    for i in range(nrec):
        first = i == 0
        direct = first and header in ("license-attached", "nolicense-attached", "license-late")
        if not direct:
            b.emit("\n" * pick(rng, b, "blank_before", [0, 0, 1, 2]))
            # msgctxt / msgid and # are recognised anywhere in a line
            gaps(rng, b, O_GARBAGE, same_line=O_GARBAGE)
        while True:
            idt = po_tokens(rng, rng.choice([0, 1, 2, 3, 5]))
            if first and rng.random() < 0.3:
                idt = []                                    # the PO header entry: msgid ""
            ctx = po_tokens(rng, rng.choice([0, 1, 2])) if rng.random() < 0.3 else None
            k = ("".join(t[1] for t in idt), None if ctx is None else "".join(t[1] for t in ctx))
            if k not in used:
                used.add(k)
                break
        strt = po_tokens(rng, pick(rng, b, "value_tokens", [0, 1, 2, 3, 5, 8]))
        for t in idt + strt + (ctx or []):
            b.layout.setdefault("token", []).append(t[2])
        pre = pending if first else None
        attach_quirk = False
        if not direct:
            cm = pick(rng, b, "comment", ["none", "none", "attached", "detached"] +
                      (["detached-one-blank-line"] * 2 if exotic else []))
            if cm != "none":
                lines = comment_lines(rng, b)
                rendered = [pick(rng, b, "comment_style", ["#", "# ", "#. ", "#: ", "#, "]) + l for l in lines]
                cval = "".join(l + "\n" for l in rendered)
                b.item()
                b.emit(cval)
                if cm == "attached":
                    pre = cval
                elif cm == "detached":
                    b.expected.append(["C", cval])
                    b.emit("\n" * rng.randint(2, 3))
                else:
                    # one blank line between the comment and the message
                    b.one_blank_idx.append(len(b.expected))
                    b.expected.append(["C", cval])
                    b.emit("\n")
        b.item()
        lsep = pick(rng, b, "list_sep", ["\n", "\n", "\n", " ", "\n\n"])
        text = ""
        if ctx is not None:
            text += po_list(rng, b, "msgctxt", ctx) + lsep
        text += po_list(rng, b, "msgid", idt) + lsep
        vtext = po_list(rng, b, "msgstr", strt)
        b.emit(text + vtext)
        sval = "".join(t[1] for t in strt)
        b.expected.append(["E", [k[0], k[1]], vtext, sval if sval else k[0], pre])
        if i < nrec - 1:
            b.emit("\n")
    tail(rng, b, nrec, O_GARBAGE)
    return b


# ------------------------------------------------------------------- fluent ---
F_PLAIN = "abcxyz09 #=:.,'\"<>%[]*éあ\U0001F600"
F_PLACE = ["{ $var }", "{ -brand }", "{ msg.attr }", '{ "lit" }', "{ NUMBER($n) }", "{$x}"]
# (a line starting with "{" continues the pattern of the message before it, one starting
#  with "." is an attribute of it: neither is inert)
F_GARBAGE = ["junk line", "key value", "= broken", "bad = {", "k1 = { $x", "]", "* star", "[x] y"]


def ftl_line(rng, n, first):
    out = []
    for j in range(n):
        if rng.random() < 0.8:
            c = rng.choice(F_PLAIN)
            if (j == 0 and (c == " " or (not first and c in "[*."))) or (j == n - 1 and c == " "):
                c = "a"
            out.append(c)
        else:
            out.append(rng.choice(F_PLACE))
    return "".join(out)


def gen_ftl(rng, nrec, exotic=False):
    b = Builder()
    used = set()
    header = pick(rng, b, "header", ["none", "none", "resource-comment", "license-attached"])
    pending = None
    if header == "resource-comment":
        lines = [l.strip() for l in license_block(rng, b, False)]
        b.item()
        b.emit("".join("### " + l + "\n" for l in lines))
        b.expected.append(["C", "\n".join(lines)])
        b.emit("\n")
    elif header == "license-attached" and nrec:
        # Fluent has no License rule: a comment directly in front of a message belongs to it
        lines = [l.strip() for l in license_block(rng, b, False)]
        b.item()
        b.emit("".join("# " + l + "\n" for l in lines))
        pending = "\n".join(lines)
    prev_junk_open = False
    for i in range(nrec):
        first = i == 0
        direct = first and pending is not None
        if not direct:
            b.emit("\n" * pick(rng, b, "blank_before", [0, 0, 1, 2]))
            ngar = 0 if rng.random() >= 0.18 else rng.choice([1, 1, 2, 3])
            b.layout.setdefault("garbage", []).append(ngar)
            if ngar == 1 and rng.random() < 0.3:
                # a stray tab on a line of its own: Junk that is white space only; it is kept
                # whole, up to the start of the next entry
                ngar = 0
                b.layout.setdefault("stray_tab", []).append("inner")
                ftl_close_junk(b)
                b.junk_start = b.n
                b.emit(rng.choice(["\t", "\t\t", "\t "]) + "\n" + "\n" * rng.choice([0, 0, 1, 2]))
                b.junk_last = b.n
            for _ in range(ngar):
                g = rng.choice(F_GARBAGE)
                # fluent.syntax starts a new entry at every line beginning with a letter, - or #
                if g[0].isalpha() or b.junk_start is None:
                    ftl_close_junk(b)
                    b.junk_start = b.n
                b.emit(g)
                b.junk_last = b.n
                b.emit("\n" + "\n" * rng.choice([0, 0, 1]))
        ftl_close_junk(b)
        term = pick(rng, b, "term", [False, False, False, True])
        while True:
            key = rng.choice("abkK") + "".join(rng.choice("abK09_-") for _ in range(rng.randint(0, 5)))
            if (term, key) not in used:
                used.add((term, key))
                break
        key = ("-" if term else "") + key
        nlines = pick(rng, b, "value_lines", [1, 1, 1, 2, 3])
        block = pick(rng, b, "value_block", [False, False, True])
        lines = [ftl_line(rng, rng.randint(1, 6), j == 0 and not block) for j in range(nlines)]
        indent = rng.choice(["    ", "  ", " "])
        if block:
            raw = "\n".join(indent + l for l in lines)
            rendered = pick(rng, b, "separator", [" =", "="]) + "\n" + raw
        else:
            raw = ("\n" + indent).join(lines)
            rendered = pick(rng, b, "separator", [" = ", "=", " =  ", "= "]) + raw
        attr = pick(rng, b, "attribute", [False, False, True])
        pre = pending if first else None
        if not direct:
            cm = pick(rng, b, "comment", ["none", "none", "attached", "detached", "group"])
            if cm != "none":
                clines = [l.strip() for l in comment_lines(rng, b)]
                marker = "## " if cm == "group" else "# "
                b.emit("".join((marker + l).rstrip(" ") + "\n" for l in clines))
                cval = "\n".join(clines)
                if cm == "attached":
                    pre = cval
                else:
                    b.expected.append(["C", cval])
                    if cm == "detached" or rng.random() < 0.5:
                        b.emit("\n" * rng.randint(1, 2))
        b.emit(key + rendered)
        if attr:
            b.emit("\n    .title = " + word(rng))
        b.expected.append(["E", key, raw, raw, pre])
        if i < nrec - 1:
            b.emit("\n")
    trailing = pick(rng, b, "trailing_newline", [True, True, False])
    if nrec and trailing:
        b.emit("\n")
    if (trailing or not nrec) and rng.random() < 0.18:
        b.layout.setdefault("garbage", []).append(1)
        b.junk_start = b.n
        if rng.random() < 0.3:
            b.layout.setdefault("stray_tab", []).append("tail")
            b.emit(rng.choice(["\t", "\t\t", "\t "]) + rng.choice(["\n", "", "\n\n"]))
            b.junk_last = b.n
        else:
            b.emit(rng.choice(F_GARBAGE))
            b.junk_last = b.n
            b.emit(rng.choice(["\n", "", "\n\n"]))
    ftl_close_junk(b)
    return b


def ftl_close_junk(b):
    if b.junk_start is not None:
        b.expected.append(["J", b.junk_start, b.junk_last])
        b.junk_start = None


# ------------------------------------------------------------------ android ---
A_PLAIN = "abcxyz09 #=:.,'\"%{}[]\\éあ\U0001F600"
A_REFS = [("&amp;", "&"), ("&lt;", "<"), ("&gt;", ">"), ("&quot;", '"'), ("&apos;", "'"),
          ("&#65;", "A"), ("&#x3042;", "あ")]
A_GARBAGE = ['<plurals name="p"><item quantity="one">x</item></plurals>', "<string>no name</string>",
             "<foo/>", '<string-array name="a"><item>x</item></string-array>', '<item name="i">v</item>']


def android_comment(rng, b, lines=None):
    if lines is None:
        n = pick(rng, b, "comment_lines", [1, 1, 2, 3])
        lines = []
        for _ in range(n):
            t = text_line(rng, extra=["-", "a-b"]).replace("--", "- -").replace("&amp;", "and").replace("<b>", "b")
            if t.endswith("-"):
                t += "."
            if t.startswith("-"):
                t = "." + t
            lines.append(t.strip(" "))
    indent = rng.choice(["     ", "  ", ""])
    pad = pick(rng, b, "comment_style", [" ", "", "  "])
    return "<!--" + pad + ("\n" + indent).join(lines) + pad + "-->", "\n".join(lines)


def gen_android(rng, nrec, exotic=False):
    """between two nodes exactly one separator text is printed, so the number of
    newlines of every text node is known"""
    b = Builder()
    used = set()
    b.emit(pick(rng, b, "xml_decl", ['<?xml version="1.0" encoding="utf-8"?>\n', ""]))
    b.emit(pick(rng, b, "root", ["<resources>", '<resources xmlns:xliff="urn:oasis:names:tc:xliff:document:1.2">']))
    header = pick(rng, b, "header", ["none", "none", "comment-blank", "comment-attached"])
    ind = pick(rng, b, "indent", ["    ", "  ", ""])
    nl = "\n" + ind
    attach_seps = [nl, nl, " ", ""]
    pending = None
    if header != "none" and nrec:
        ctext, cval = android_comment(rng, b, [l.strip() for l in license_block(rng, b, False)])
        b.emit(nl + ctext)
        if header == "comment-blank":
            b.expected.append(["C", cval])
            b.emit("\n")           # one more newline follows in every case (see below)
        else:
            pending = cval         # no License rule in the Android parser: the comment attaches
    for i in range(nrec):
        first = i == 0
        direct = first and pending is not None
        mark = b.n
        if not direct:
            b.emit("\n" * pick(rng, b, "blank_before", [0, 0, 1, 2]))
            ngar = 0 if rng.random() >= 0.18 else rng.choice([1, 1, 2])
            b.layout.setdefault("garbage", []).append(ngar)
            for _ in range(ngar):
                g = rng.choice(A_GARBAGE)
                b.emit(nl + g)
                b.expected.append(["J", g, None, None])
                b.emit("\n" * rng.choice([0, 0, 1]))
        while True:
            key = rng.choice("abkK_") + "".join(rng.choice("abK09_.") for _ in range(rng.randint(0, 6)))
            if key not in used:
                used.add(key)
                break
        kind = pick(rng, b, "value_kind", ["text", "text", "text", "cdata", "cdata-in-whitespace", "empty"])
        nt = pick(rng, b, "value_tokens", [1, 2, 3, 5, 8])
        if kind == "text":
            toks = []
            for _ in range(nt):
                if rng.random() < 0.75:
                    c = rng.choice(A_PLAIN)
                    toks.append((c, c, "plain"))
                else:
                    toks.append(rng.choice(A_REFS) + ("ref",))
            for t in toks:
                b.layout.setdefault("token", []).append(t[2])
            src = "".join(t[0] for t in toks)
            val = "".join(t[1] for t in toks)
        elif kind == "cdata":
            val = "".join(rng.choice(A_PLAIN + "<>&\n") for _ in range(nt)).replace("]]>", "]] >")
            src = "<![CDATA[" + val + "]]>"
        elif kind == "cdata-in-whitespace":
            # the CDATA section is the value also when indentation surrounds it
            val = "".join(rng.choice(list(A_PLAIN + "<>&\n") + ["<b>bold</b>", "it\\'s", "&amp;", "<a href=\"x\">"])
                          for _ in range(nt)).replace("]]>", "]] >")
            w1 = pick(rng, b, "cdata_lead", ["\n" + ind + "  ", " ", "\n", ""])
            w2 = rng.choice(["\n" + ind, " ", "\n"]) if w1 == "" else rng.choice(["\n" + ind, " ", "\n", ""])
            src = w1 + "<![CDATA[" + val + "]]>" + w2
        else:
            src, val = "", ""
        pre = pending if first else None
        sep = pick(rng, b, "separator", attach_seps)
        if not direct:
            cm = pick(rng, b, "comment", ["none", "none", "attached", "detached", "two-attached"])
            if cm != "none":
                ctext, cval = android_comment(rng, b)
                b.emit(nl + ctext)
                if cm == "two-attached":
                    c2, v2 = android_comment(rng, b)
                    j = pick(rng, b, "comment_join", [nl, " ", ""])
                    b.emit(j + c2)
                    pre = cval + ("\n" if "\n" in j else "") + v2
                elif cm == "attached":
                    pre = cval
                else:
                    b.expected.append(["C", cval])
                    sep = rng.choice(["\n" + nl, "\n \n" + ind, "\n\n\n"])
        if first and header == "comment-blank" and b.n == mark:
            sep = nl                # the header comment stays detached: two newlines in all
        b.emit(sep)
        q = pick(rng, b, "attr_quote", ['"', '"', "'"])
        b.emit("<string name=" + q + key + q + ">" + src + "</string>")
        b.expected.append(["E", key, val, val, pre])
    b.emit(pick(rng, b, "trailing_newline", ["\n", "\n", ""]))
    b.emit("</resources>" + rng.choice(["\n", ""]))
    return b


GEN = {"properties": gen_properties, "dtd": gen_dtd, "ini": gen_ini, "inc": gen_inc, "po": gen_po,
       "ftl": gen_ftl, "android": gen_android}
FILE = dict(parsing.FILE, android="strings.xml")


# -------------------------------------------------- implementation + oracle ---
def impl_entries(fmt, text):
    from compare_locales import parser as P
    p = P.getParser(FILE[fmt])
    p.readUnicode(text)
    es = parsing.with_watchdog(lambda: list(p.walk()), 5)
    if fmt == "android":
        from compare_locales.parser import android as A
        es = [e for e in es if not isinstance(e, A.DocumentWrapper)]
    return es


def kind_of(fmt, e):
    if fmt == "ftl":
        return c01.ftl_kind(e)
    return parsing.kind_of(e)


def observed(fmt, es):
    """what the property speaks about, read off the entries of walk()"""
    out = []
    for e in es:
        k = kind_of(fmt, e)
        if k == 0:
            key = list(e.key) if isinstance(e.key, tuple) else e.key
            if fmt == "ftl":
                pre = e.entry.comment.content if e.entry.comment is not None else None
            else:
                pre = e.pre_comment.val if e.pre_comment is not None else None
            out.append(["E", key, e.raw_val, e.val, pre])
        elif k == 1:
            out.append(["C", e.val])
        elif k == 3:
            out.append(["J", e.all])
        elif k == 4:
            out.append(["S", e.val])
        elif k == 5:
            out.append(["I", e.val])
    return out


FIELD = {1: "key", 2: "raw_val", 3: "val", 4: "attached-comment"}


def compare(expected, got):
    """None or (what, detail)"""
    if [e[0] for e in expected] != [g[0] for g in got]:
        return "structure", {"expected": [e[0] for e in expected], "got": [g[0] for g in got]}
    for i, (e, g) in enumerate(zip(expected, got)):
        if e[0] == "E":
            for j in (1, 2, 3, 4):
                if e[j] != g[j]:
                    return FIELD[j], {"entry": i, "expected": e[j], "got": g[j]}
        elif e[0] == "J":
            if e[1] != g[1]:
                return "junk-region", {"entry": i, "expected": e[1], "got": g[1]}
        elif e[1] != g[1]:
            return {"C": "comment-val", "S": "section", "I": "instruction"}[e[0]], \
                {"entry": i, "expected": e[1], "got": g[1]}
    return None


def po_quirk_expected(expected):
    """PO: reComment consumes the newline that ends the comment, so after a comment
    ONE blank line is a whitespace run with a single newline: the comment is attached.
    Expectation under that deviation: a standalone comment directly in front of an
    entity without comment attaches to it.  Used only to name the failure family."""
    out = []
    for e in expected:
        if e[0] == "E" and out and out[-1][0] == "C!" and e[4] is None:
            c = out.pop()
            out.append(["E", e[1], e[2], e[3], c[1]])
        else:
            out.append(e)
    return [["C", e[1]] if e[0] == "C!" else e for e in out]


def check_case(chk, case):
    """run the implementation on one printed file and compare with the construction"""
    fmt, text, expected = case["format"], case["text"], case["expected"]
    try:
        es = impl_entries(fmt, text)
    except parsing.Watchdog:
        chk.fail(f"{fmt}-hang", case, "walk did not terminate")
        return None
    if fmt != "android":
        joined = "".join(e.all for e in es)
        body = text[1:] if fmt == "dtd" and text.startswith("\ufeff") else text
        if joined != body:
            chk.fail(f"{fmt}-lossy", case, {"reassembled": joined})
    got = observed(fmt, es)
    d = compare(expected, got)
    if d is not None:
        sig = f"{fmt}-{d[0]}"
        if fmt == "po" and case.get("one_blank_detached"):
            # is the PO one-blank-line attachment the only deviation?
            alt = po_alt(case)
            if compare(alt, got) is None:
                sig = "po-comment-attached-across-one-blank-line"
        chk.fail(sig, {k: case[k] for k in ("format", "text", "expected", "layout") if k in case},
                 {"what": d[0], **d[1], "got_all": got})
    return es


def po_alt(case):
    exp, marks = [], case["one_blank_marks"]
    for i, e in enumerate(case["expected"]):
        exp.append(["C!", e[1]] if i in marks else e)
    return po_quirk_expected(exp)


def make_case(fmt, rng, nrec, exotic=False):
    b = GEN[fmt](rng, nrec, exotic)
    text, expected = b.finish()
    case = {"format": fmt, "text": text, "expected": expected, "layout": b.layout, "records": nrec}
    if exotic:
        case["exotic"] = True
    if fmt == "po" and getattr(b, "one_blank_idx", None):
        # positions (in the expected list) of the comments printed with ONE blank line after them
        case["one_blank_detached"] = len(b.one_blank_idx)
        case["one_blank_marks"] = list(b.one_blank_idx)
    return case


# ----------------------------------------------------------- correspondence ---
def canon_key(k):
    if k is None:
        return []
    if isinstance(k, tuple):
        return [s2l(k[0]), [s2l(k[1])] if k[1] is not None else []]
    return [s2l(k)]


def opt(s):
    return [] if s is None else [s2l(s)]


def canon_view(fmt, e):
    k = kind_of(fmt, e)

    def val():
        try:
            return [0, opt(e.val)]
        except Exception as ex:  # noqa
            code = common.TAGS.get(type(ex).__name__)
            if code is None:
                raise
            return [1, code]
    if k == 3:
        return [3, s2l(e.all), [], opt(e.raw_val), val(), []]
    if k == 1:
        return [1, s2l(e.all), [], opt(e.raw_val), val(), []]
    pre = getattr(e, "pre_comment", None)
    return [k, s2l(e.all), canon_key(e.key), opt(e.raw_val), val(),
            opt(pre.val) if pre is not None else []]


def html_table(es):
    from compare_locales.parser import DTDEntity
    seen, rows = set(), []
    for e in es:
        if isinstance(e, DTDEntity) and e.raw_val not in seen:
            seen.add(e.raw_val)
            rows.append([s2l(e.raw_val), s2l(html.unescape(e.raw_val))])
    return rows


def ftl_body(text):
    """c01.ftl_body plus the content of comment nodes (FluentComment.val's oracle)"""
    from fluent.syntax import FluentParser, ast as ftl
    body, okc = c01.ftl_body(text)
    res = FluentParser().parse(text)
    for row, e in zip(body, res.body):
        if isinstance(e, ftl.BaseComment):
            row[4] = canon(e.content)
    return body, okc


NTYPE = {3: 0, 4: 1, 8: 2, 1: 3}      # minidom nodeType -> model code (TEXT, CDATA, COMMENT, ELEMENT)


def android_children(text):
    """the oracle DOM: children of <resources> as minidom built them; None when the
    parser would not reach the child loop"""
    from xml.dom import minidom
    try:
        doc = minidom.parseString(text.encode("utf-8"))
    except Exception:  # noqa
        return None
    root = doc.documentElement
    if root.nodeName != "resources":
        return None
    out = []
    for n in root.childNodes:
        t = NTYPE.get(n.nodeType, 4)
        if t == 3:
            out.append([3, s2l(n.toxml()), [], s2l(n.nodeName),
                        [s2l(n.getAttribute("name"))] if n.hasAttribute("name") else [],
                        [[NTYPE.get(c.nodeType, 4), s2l(c.data) if c.nodeType in (3, 4) else []]
                         for c in n.childNodes]])
        else:
            out.append([t, s2l(n.toxml()), s2l(n.nodeValue or ""), [], [], []])
    return out


FCODE = dict(parsing.FCODE, ftl=5, android=6)


def model_request(fmt, text, es):
    if fmt == "ftl":
        body, okc = ftl_body(text)
        return (5, [s2l(text), body]), okc
    if fmt == "android":
        ch = android_children(text)
        return (None if ch is None else (6, [ch])), True
    return (FCODE[fmt], [s2l(text), html_table(es) if fmt == "dtd" else []]), True


def mutate(rng, text, alphabet):
    if not text:
        return rng.choice(alphabet)
    j = rng.randrange(len(text))
    r = rng.random()
    if r < 0.3:
        return text[:j] + text[j + 1:]
    if r < 0.6:
        return text[:j] + rng.choice(alphabet) + text[j:]
    if r < 0.8:
        k = rng.randrange(len(text))
        a, c = min(j, k), max(j, k)
        return text[:a] + text[c:]
    return text[:j] + text[j:j + 6] + text[j:]


FTL_MUT = c01.FTL_TOKENS
AND_MUT = ["<string name=\"m\">x</string>", "<!-- c -->", "\n", "\n\n", "<![CDATA[d]]>", "<?pi x?>", "<b/>",
           "text", " ", "&amp;"]


# ---------------------------------------------------------------------- run ---
def run(chk, runner_ok):
    rng = chk.rng
    model = Model("C02") if runner_ok else None
    if runner_ok:
        rxsuite.run_rx(chk, groups=["c02"], per_regex=chk.n(60, 400))
    per_fmt = chk.n(720, 8600)
    for fmt in GEN:
        cases = []
        for i in range(per_fmt):
            nrec = i % 9
            cases.append(make_case(fmt, rng, nrec))
        texts, impl, reqs, contract_bad = [], [], [], 0
        for c in cases:
            es = check_case(chk, c)
            chk.evaluations += 1
            if c["records"] or any(e[0] == "J" for e in c["expected"]):
                chk.distinct.add((fmt, c["text"]))
            chk.hist(f"{fmt}.records", c["records"])
            chk.hist(f"{fmt}.junk_regions", sum(e[0] == "J" for e in c["expected"]))
            for name, vals in c["layout"].items():
                for v in vals:
                    chk.hist(f"{fmt}.{name}", repr(v) if not isinstance(v, (int, bool)) else v)
            if es is None:
                continue
            req, okc = model_request(fmt, c["text"], es)
            contract_bad += not okc
            if req is not None:
                texts.append(c["text"])
                impl.append([canon_view(fmt, e) for e in es])
                reqs.append(req)
        chk.sample({"suite": f"ORACLE-{fmt}", "text": cases[5]["text"], "expected": cases[5]["expected"]}, cap=14)
        # malformed stream for the correspondence: mutations of printed files, random token texts
        alphabet = (parsing.TOKENS.get(fmt) or (FTL_MUT if fmt == "ftl" else AND_MUT)) + parsing.EXOTIC[:6]
        extra = []
        for i in range(chk.n(250, 3000)):
            t = cases[rng.randrange(len(cases))]["text"]
            for _ in range(rng.randint(1, 3)):
                t = mutate(rng, t, alphabet)
            extra.append(t.replace("\r", ""))
        if fmt in parsing.TOKENS:
            for i in range(chk.n(150, 2000)):
                extra.append(parsing.random_text(fmt, rng))
        for t in extra:
            try:
                es = impl_entries(fmt, t)
            except parsing.Watchdog:
                continue
            req, okc = model_request(fmt, t, es)
            if req is None or not okc:
                continue
            texts.append(t)
            impl.append([canon_view(fmt, e) for e in es])
            reqs.append(req)
            chk.evaluations += 1
        if fmt == "ftl":
            chk.assumptions.append(f"fluent.syntax body contract checked on {len(cases)} printed files: "
                                   f"{contract_bad} violations")
        if model:
            outs = model.call(reqs)
            wrap = (lambda o: o) if fmt == "ftl" else (lambda o: o)
            impl_w = [v if fmt == "ftl" else [0, v] for v in impl]
            chk.correspond(f"PARSE-VAL-{fmt}", texts, impl_w, [wrap(o) for o in outs],
                           classify=lambda t, fmt=fmt: None)
    extra_streams(chk)
    direct_suites(chk, model)
    chk.notes += [
        "generator limits: DTD comments are printed within the parser's own comment character class "
        "(BMP, no control characters); Android garbage is well-formed non-<string> elements (free text "
        "inside <resources> is whitespace to the parser, a malformed document is one junk entry); Fluent "
        "garbage lines do not start with '{' or '.' (those continue the preceding message by the grammar)",
        "extra streams (run last): properties/ini/inc comments containing VT FF FS GS RS NEL LS PS (ordinary "
        "comment characters; failures are plain violations) and PO comments followed by exactly one blank "
        "line (signature po-comment-attached-across-one-blank-line; a failing file gets that signature only "
        "when the parse equals the expectation recomputed under exactly that deviation)",
    ]
    chk.trusted += [
        "html.unescape (DTD val): oracle parameter of the model, table computed by CPython per case",
        "fluent.syntax (resource body, spans, comment content) and xml.dom.minidom (child list, toxml, "
        "nodeValue): oracle inputs of the Fluent / Android glue models",
    ]


def extra_streams(chk):
    """two more layout families, run after the main stream: properties / ini / inc comments
    containing the line boundaries of str.splitlines other than newline (VT FF FS GS RS NEL
    LS PS: ordinary characters of a comment, only "\\n" separates comment lines) -- failures
    there are plain violations; and PO comments followed by exactly ONE blank line, whose
    attachment is the listed finding po-comment-attached-across-one-blank-line"""
    rng = chk.rng
    for i in range(chk.n(40, 400)):
        for fmt in ("po", "properties", "ini", "inc"):
            c = make_case(fmt, rng, 1 + i % 4, exotic=True)
            check_case(chk, c)
            chk.evaluations += 1
            chk.hist("extra_stream", fmt)


def direct_suites(chk, model):
    """the unescape functions themselves on random strings (valid and malformed)"""
    rng = chk.rng
    from compare_locales.parser import properties, po, base, defines, dtd, android
    n = chk.n(1500, 15000)

    class PE(properties.PropertiesEntityMixin):
        raw_val = ""

    alpha_p = list("\\\\\\\\u09afAFgn rt\n\t x=") + ["é", "\U0001F600"]
    alpha_o = list('\\\\\\\\ntr"x \n') + ["é"]
    alpha_c = list("#; ab\n\n") + list(parsing.EXOTIC[:6]) + ["\r\n", "<!--", "-->", "-"]
    alpha_a = list(" \t\n\nab") + ["é"]
    cases, impl, reqs = [], [], []
    for _ in range(n):
        s = "".join(rng.choice(alpha_p) for _ in range(rng.randint(0, 10)))
        e = PE()
        e.raw_val = s
        cases.append(("props_val", s)); impl.append(common.impl_result(lambda: e.val)); reqs.append((7, [s2l(s)]))
    if model:
        chk.correspond("VAL-properties", cases, impl, model.call(reqs))
    cases, impl, reqs = [], [], []
    for _ in range(n):
        lines = ["".join(rng.choice(alpha_o) for _ in range(rng.randint(0, 8))) for _ in range(rng.randint(0, 3))]
        cases.append(("eval_stringlist", lines))
        impl.append(common.impl_result(lambda: po.eval_stringlist(lines)))
        reqs.append((9, [[s2l(l) for l in lines]]))
    if model:
        chk.correspond("VAL-po", cases, impl, model.call(reqs))
    cases, impl, reqs = [], [], []
    classes = [(0, base.OffsetComment), (1, dtd.DTDParser.Comment), (2, base.OffsetComment),
               (3, defines.DefinesParser.Comment), (4, base.Comment)]
    for _ in range(n):
        s = "".join(rng.choice(alpha_c) for _ in range(rng.randint(0, 10)))
        code, cls = rng.choice(classes)
        c = cls(base.Parser.Context(s), (0, len(s)))
        cases.append(("comment_val", code, s)); impl.append(canon(c.val)); reqs.append((10, [code, s2l(s)]))
    if model:
        chk.correspond("COMMENT-VAL", cases, impl, model.call(reqs))
    cases, impl, reqs = [], [], []
    for _ in range(n // 2):
        s = "".join(rng.choice(alpha_a) for _ in range(rng.randint(0, 10)))
        cases.append(("normalize", s)); impl.append([0, canon(android.normalize(s))]); reqs.append((11, [s2l(s)]))
    if model:
        chk.correspond("ANDROID-normalize", cases, impl, model.call(reqs))
    chk.evaluations += 3 * n + n // 2


def replay(chk, path):
    data = json.load(open(path))
    rc = 0
    for f in data.get("failures", []):
        c = f["case"]
        es = impl_entries(c["format"], c["text"])
        got = observed(c["format"], es)
        d = compare(c["expected"], got)
        print("case", repr(c["text"]), "->", d)
        rc |= d is not None
    for d in data.get("disagreements", []):
        print("disagreement", d)
        rc = 1
    return int(rc)
