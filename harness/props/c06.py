"""C06 — properties: printf and plural verdicts match the argument model.

Suites
  RX[c06]        the printf / #n / digits / mochibake / escape regexes: engine + translator vs re
  DIFFLIB        model get_opcodes vs difflib.SequenceMatcher(None, a, b).get_opcodes()
  PLURAL-TABLE   model get_plural vs plurals.get_plural for every locale of the table + variants
  SPECS          getPrintfSpecs of rendered token lists: implementation vs model, and vs the
                 Coq argument model [argmodel] (the right-hand side of theorem C06_specs_tokens)
  PROPS-CHECK-*  getChecker(File('x.properties', 'x.properties', locale=L)).check(ref, l10n) on
                 entities parsed from real .properties texts vs the model's check:
                 printf (pairs of token sequences), plural (with the Localization_and_Plurals
                 comment, every locale of the table), select (branch selection), escape
                 (backslash escapes and U+FFFD)
  COMPARE-E2E    END TO END: ContentComparer().compare(File(ref), File(l10n, locale=L), None) with an
                 Observer on real .properties files in a temporary directory (removed afterwards):
                 entries over the token alphabet with IDs in eight styles (plain, containing key/Key,
                 accesskey/commandkey-like), a third of them verbatim copies of the reference, printf
                 and plural-documented, locales with 1..6 plural forms; every entry the model flags
                 must be reported with its key, line and column, and nothing else
Oracle (implementation only): an independent positional-argument model computed from the
token lists (never from the rendered text): expected (severity, position, category) lists.
"""
import itertools
import json

from harness import common, rxsuite
from harness.common import Model, canon, impl_result

FACTS = ("tables", "c06")
RUNNERS = ["RX"]

RULE = ("values are sequences over the token alphabet of the property: text 'a', %S, %d, %1$S, %2$d, "
        "%%, lone % (core, 7 tokens) plus %2$S, %3$S, %1$d, width/precision forms (%5d, %.2f, %*.*s, "
        "%1$5.2f, %.x), #1, #2, ';' and three texts that fuse with a preceding % ('d', '1', '$'). "
        "PROPS-CHECK-printf: EVERY pair of core sequences up to 3+3 tokens (160 000 pairs; thorough: "
        "also a seeded sample of 3 000 000 pairs out of the 7.8 million of length <= 4+4, i.e. the "
        "4+4 enumeration is SUBSAMPLED (about 38 %), and every pair over the full alphabet up to 2+2), "
        "a seeded sample of pairs over the full alphabet up to 2+2 (quick), and seeded random pairs of "
        "up to 8 tokens where the "
        "localized value is a mutation of the reference (trailing arguments dropped, ordered "
        "arguments permuted, text/%% inserted, a type changed, an argument inserted). "
        "PROPS-CHECK-plural: pairs over {a, #1, #2, ';', '#', %S} up to 3+3 tokens (quick: seeded "
        "sample; thorough: all 67 081) with the Localization_and_Plurals comment, cycling through "
        "every locale of plurals.CATEGORIES_BY_LOCALE plus None / unknown / region-tagged locales, "
        "and for each locale 1..7 forms. A case is distinct by (suite, reference, localized value, "
        "locale); non-trivial = the reference has at least one argument or variable")

# ------------------------------------------------------------------ tokens ---
PCT = ("pct",)
LONE = ("lone",)


def text(s):
    return ("text", s)


def spec(c, num=None, w=None, p=None):
    """%[num$][w][p]c ; w: None | '*' | digits ; p: None | '.' | '.*' | '.' + digits"""
    return ("spec", num, w, p, c)


def render_tok(t):
    k = t[0]
    if k == "text":
        return t[1]
    if k == "pct":
        return "%%"
    if k == "lone":
        return "%"
    _, num, w, p, c = t
    return "%" + (num + "$" if num is not None else "") + (w or "") + (p or "") + c


def render(toks):
    return "".join(render_tok(t) for t in toks)


def tok_sx(t):
    k = t[0]
    if k == "text":
        return [0, t[1]]
    if k == "pct":
        return [1]
    if k == "lone":
        return [2]
    _, num, w, p, c = t
    wx = [0] if w is None else [1] if w == "*" else [2, w]
    px = [0] if p is None else [1] if p == "." else [2] if p == ".*" else [3, p[1:]]
    return [3, [num] if num is not None else [], wx, px, ord(c)]


CORE = [text("a"), spec("S"), spec("d"), spec("S", "1"), spec("d", "2"), PCT, LONE]
MORE = [spec("S", "2"), spec("S", "3"), spec("d", "1"), spec("d", w="5"), spec("f", p=".2"),
        spec("s", w="*", p=".*"), spec("f", "1", "5", ".2"), spec("x", p=".")]
PLURALISH = [text("#1"), text("#2"), text(";")]
DIRTY = [text("d"), text("1"), text("$")]
FULL = CORE + MORE + PLURALISH + DIRTY
PLURAL_ALPHABET = [text("a"), text("#1"), text("#2"), text(";"), text("#"), spec("S")]

STARTS_CONVERSION = set("%*.0123456789duxXosScpfg")


def clean(toks):
    """the side condition of the argument model: a lone % is not followed by something that
    turns it into a conversion, texts have no %"""
    for i, t in enumerate(toks):
        if t[0] == "text" and "%" in t[1]:
            return False
        if t[0] == "lone":
            rest = render(toks[i + 1:])
            if rest and rest[0] in STARTS_CONVERSION:
                return False
    return True


def arg_model(toks):
    """the independent positional argument model: ('err', offset, kind) | ('ok', [type chars])"""
    off, style, unordered, slots = 0, None, [], {}
    for t in toks:
        if t[0] == "lone":
            return ("err", off, "single")
        if t[0] == "spec":
            ordered = t[1] is not None
            if style is None:
                style = ordered
            elif style != ordered:
                return ("err", off, "mixed")
            if ordered:
                slots[int(t[1])] = t[4]
            else:
                unordered.append(t[4])
        off += len(render_tok(t))
    if style:
        top = max(slots)
        if any(i not in slots for i in range(1, top + 1)):
            return ("err", 0, "missing")
        return ("ok", [slots[i] for i in range(1, top + 1)])
    return ("ok", unordered)


def expected_printf(ref_toks, l10n_toks):
    """expected [(severity, position, category)] of the printf branch, or the marker 'error'
    (exactly one error at 0, possibly followed by one warning at 0)"""
    r = arg_model(ref_toks)
    if r[0] == "err" or not r[1]:
        return []
    l = arg_model(l10n_toks)
    if l[0] == "err":
        return [("error", l[1], "printf")]
    if l[1] == r[1]:
        return []
    if r[1][:len(l[1])] == l[1]:
        return [("warning", 0, "printf")]
    return "error"


def verdict_matches(expected, got):
    if expected == "error":
        return (got[:1] == [("error", 0, "printf")]
                and got[1:] in ([], [("warning", 0, "printf")]))
    return got == expected


def plural_vars_of(toks):
    out = set()
    for t in toks:
        if t[0] == "text" and len(t[1]) > 1 and t[1][0] == "#" and t[1][1:].isdigit():
            out.add(int(t[1][1:]))
    return out


def plural_clean(toks):
    """no token fuses with a preceding #n (a text starting with a digit after '#...')"""
    for a, b in zip(toks, toks[1:]):
        if a[0] == "text" and a[1].startswith("#") and b[0] == "text" and b[1][:1].isdigit():
            return False
    return True


def expected_plural(ref_toks, l10n_toks, nforms):
    """nforms: the locale's number of plural forms or None"""
    out = []
    found = sum(1 for t in l10n_toks if t == text(";")) + 1
    if nforms and nforms != found:
        out.append(("warning", 0, "plural"))
    rv, lv = plural_vars_of(ref_toks), plural_vars_of(l10n_toks)
    if rv:
        if rv - lv:
            out.append(("warning", 0, "plural"))
        elif lv - rv:
            out.append(("error", 0, "plural"))
    return out


# --------------------------------------------------------- implementation ---
PLURAL_COMMENT = "# See https://developer.mozilla.org/en/docs/Localization_and_Plurals"
OTHER_COMMENT = "# LOCALIZATION NOTE: Localization and Plurals, not the magic word"

_checkers = {}


def checker(locale):
    if locale not in _checkers:
        from compare_locales.checks import getChecker
        from compare_locales.paths import File
        _checkers[locale] = getChecker(File("x.properties", "x.properties", locale=locale))
    return _checkers[locale]


def parse_entities(items):
    """items: list of (key, value text, comment or None) -> the parsed entities, in order"""
    from compare_locales import parser
    lines = []
    for key, val, comment in items:
        if comment is not None:
            lines.append(comment + "\n")
        lines.append(f"{key} = {val}\n")
    p = parser.getParser("x.properties")
    p.readUnicode("".join(lines))
    ents = [e for e in p.walk() if isinstance(e, parser.Entity)]
    if len(ents) != len(items) or any(e.key != k for e, (k, _, _) in zip(ents, items)):
        raise RuntimeError("harness: the generated .properties text did not parse into its entities")
    return ents


def canon_findings(fs):
    from compare_locales.checks import EntityPos
    return [[canon(sev), int(pos), int(isinstance(pos, EntityPos)), canon(msg), canon(cat)]
            for sev, pos, msg, cat in fs]


def impl_check(locale, ref, l10n):
    fs = []

    def go():
        fs.extend(checker(locale).check(ref, l10n))
        return canon_findings(fs)
    return impl_result(go, conv=lambda x: x), fs


def payload(ref, l10n, locale):
    pc = ref.pre_comment
    return [[pc.all] if pc is not None else [], ref.key, ref.val, l10n.key, l10n.all, l10n.val,
            l10n.raw_val, [locale] if locale is not None else []]


def short(fs):
    return [(s, int(p), c) for s, p, _, c in fs]


PE_CODE = {"Found single %": 0, "Mixed ordered and non-ordered args": 1, "Ordered argument missing": 2}


def impl_specs(val):
    from compare_locales.checks.properties import PrintfException
    try:
        specs = checker(None).getPrintfSpecs(val)
    except PrintfException as e:
        return [0, [1, e.pos, PE_CODE.get(e.msg, 9), canon(e.msg)]]
    return [0, [0, [[canon(s)] if s is not None else [] for s in specs]]]


def model_sres(r):
    """the positional model's answer in the wire form of sres_sx"""
    if r[0] == "err":
        code = {"single": 0, "mixed": 1, "missing": 2}[r[2]]
        return [1, r[1], code]
    return [0, [[[ord(c)]] for c in r[1]]]


# ------------------------------------------------------------- generators ---
def sequences(alphabet, maxlen):
    for n in range(maxlen + 1):
        yield from itertools.product(alphabet, repeat=n)


def mutate(rng, toks):
    toks = list(toks)
    kind = rng.randrange(8)
    specs_at = [i for i, t in enumerate(toks) if t[0] == "spec"]
    if kind == 0 and specs_at:            # drop trailing arguments
        n = rng.randint(1, len(specs_at))
        for i in sorted(specs_at[-n:], reverse=True):
            del toks[i]
    elif kind == 1:                       # permute
        rng.shuffle(toks)
    elif kind == 2:                       # insert text or %%
        toks.insert(rng.randint(0, len(toks)), rng.choice([text("a"), PCT, text("b c")]))
    elif kind == 3 and specs_at:          # change a type
        i = rng.choice(specs_at)
        t = toks[i]
        toks[i] = ("spec", t[1], t[2], t[3], rng.choice("dSsxf"))
    elif kind == 4:                       # insert an argument
        toks.insert(rng.randint(0, len(toks)), rng.choice(CORE + MORE))
    elif kind == 5 and specs_at:          # drop any argument
        del toks[rng.choice(specs_at)]
    elif kind == 6:                       # number the unordered arguments / unnumber
        n = 0
        for i, t in enumerate(toks):
            if t[0] == "spec":
                n += 1
                toks[i] = ("spec", str(n) if t[1] is None else None, t[2], t[3], t[4])
    return tuple(toks)


def random_value(rng, alphabet, maxlen):
    return tuple(rng.choice(alphabet) for _ in range(rng.randint(0, maxlen)))


class Pool:
    """token sequences -> parsed entities (one real .properties text per pool)"""

    def __init__(self, seqs, comment=None, key=None):
        self.seqs = list(dict.fromkeys(seqs))
        items = [(key or f"k{i}", render(s), comment) for i, s in enumerate(self.seqs)]
        if key is None:
            ents = parse_entities(items)
        else:   # the same key for every entity: one text per entity
            ents = [parse_entities([it])[0] for it in items]
        for s, e in zip(self.seqs, ents):
            if e.val != render(s) or e.raw_val != render(s):
                raise RuntimeError(f"harness: value {render(s)!r} came back as {e.val!r}")
        self.ent = dict(zip(self.seqs, ents))


# ------------------------------------------------------------------ suites ---
def suite_difflib(chk, model):
    import difflib
    code = {"replace": 0, "delete": 1, "insert": 2, "equal": 3}
    seqs = [list(s) for s in sequences(range(3), 5)]
    cases = [(a, b) for a in seqs for b in seqs]
    rng = chk.rng
    for _ in range(chk.n(3000, 30000)):
        k = rng.randint(2, 5)
        cases.append(([rng.randrange(k) for _ in range(rng.randint(0, 14))],
                      [rng.randrange(k) for _ in range(rng.randint(0, 14))]))
    impl = []
    for a, b in cases:
        ops = difflib.SequenceMatcher(None, a, b).get_opcodes()
        impl.append([[[code[t], i1, i2, j1, j2] for t, i1, i2, j1, j2 in ops]])
        chk.count(("difflib", a, b))
        # what the theorems use: the opcodes tile both sequences, equal blocks are equal slices
        i = j = 0
        for t, i1, i2, j1, j2 in ops:
            okay = (i1, j1) == (i, j) and i1 <= i2 and j1 <= j2 and (
                (t == "equal" and a[i1:i2] == b[j1:j2] and i2 > i1) or
                (t == "delete" and j1 == j2 and i1 < i2) or
                (t == "insert" and i1 == i2 and j1 < j2) or
                (t == "replace" and i1 < i2 and j1 < j2))
            if not okay:
                chk.fail("difflib-tiling", {"a": a, "b": b}, {"opcodes": ops})
            i, j = i2, j2
        if (i, j) != (len(a), len(b)):
            chk.fail("difflib-tiling", {"a": a, "b": b}, {"opcodes": ops})
    chk.sample({"suite": "DIFFLIB", "a": cases[4321][0], "b": cases[4321][1], "impl": impl[4321]})
    if model:
        outs = model.call([(1, [a, b]) for a, b in cases])
        chk.correspond("DIFFLIB", cases, impl, outs)


def locales_of_table():
    from harness import plural_snapshot
    return plural_snapshot.locales()


EXTRA_LOCALES = [None, "xx", "en-US", "zh-XX", "sr-Latn-RS", "pt-BR", "-", "", "de-", "ZH-cn"]


def nforms(locale):
    """the locale's plural-form count from the PINNED plural data (harness/plural_snapshot.py), not from the tree"""
    from harness import plural_snapshot
    c = plural_snapshot.categories(locale)
    return None if c is None else len(c)


def suite_plural_table(chk, model):
    from compare_locales import plurals
    from harness import plural_snapshot
    plural_snapshot.check_table(chk)
    locs = locales_of_table()
    cases = locs + EXTRA_LOCALES + [l + "-XX" for l in locs] + [l[:1] for l in locs[:20]]
    impl = []
    for l in cases:
        r = impl_result(lambda: plurals.get_plural(l),
                        conv=lambda v: [[canon(c) for c in v]] if v is not None else [])
        impl.append(r)
        chk.count(("plural-table", l))
        got = None if r[1] == [] else len(r[1][0])
        if r[0] != 0 or got != nforms(l):
            chk.fail("plural-table", {"locale": l}, {"got": r, "expected_forms": nforms(l)})
    if model:
        outs = model.call([(2, [[l] if l is not None else []]) for l in cases])
        chk.correspond("PLURAL-TABLE", cases, impl, outs)


def suite_specs(chk, model):
    rng = chk.rng
    seqs = list(sequences(CORE, 3)) + list(sequences(FULL, 2))
    for _ in range(chk.n(3000, 60000)):
        seqs.append(random_value(rng, FULL, 9))
    big = [spec("S", "12"), spec("d", "10"), spec("S", "11"), spec("d", w="12", p=".34"),
           spec("S", "9"), spec("x", "20")] + [spec("S", str(i)) for i in range(1, 9)]
    for _ in range(chk.n(500, 5000)):
        seqs.append(random_value(rng, big + CORE, 12))
    seqs = list(dict.fromkeys(seqs))
    impl, want_model, reqs = [], [], []
    n_clean = 0
    for s in seqs:
        val = render(s)
        got = impl_specs(val)
        am = arg_model(s)
        cl = clean(s)
        chk.count(("specs", val))
        chk.hist("specs_outcome", "error" if got[1][0] == 1 else min(len(got[1][1]), 6))
        if cl:
            n_clean += 1
            if got[1][:3] != model_sres(am):
                chk.fail("specs-argmodel", {"suite": "SPECS", "tokens": s, "value": val},
                         {"getPrintfSpecs": got, "argument_model": am})
        impl.append(got)
        reqs.append((4, [[tok_sx(t) for t in s]]))
    chk.notes.append(f"SPECS: {len(seqs)} token lists, {n_clean} clean (argument model applies)")
    if model:
        outs = model.call(reqs)
        # [clean; rendering; argmodel; get_printf_specs (render toks)]
        dis_spec = []
        mouts = []
        for s, o, got in zip(seqs, outs, impl):
            mouts.append(o[3])
            if o[1] != canon(render(s)) or bool(o[0]) != clean(s):
                dis_spec.append((s, "render/clean", o[:2]))
            elif o[0] and [0, o[2]] != got:
                dis_spec.append((s, "argmodel", o[2], got))
        chk.correspond("SPECS", seqs, impl, mouts, describe=lambda s: {"tokens": s, "value": render(s)})
        chk.obligations.append(common.Obligation(
            f"SPECS: Coq argmodel = implementation on {n_clean} clean token lists; render/clean agree",
            "correspondence", not dis_spec, repr(dis_spec[:3])))
        chk.suites.append({"name": "SPECS-argmodel", "cases": n_clean, "disagreements": len(dis_spec)})


def run_pairs(chk, model, suite, cases, oracle):
    """cases: list of (ref tokens, l10n tokens, ref entity, l10n entity, locale)."""
    impl, reqs = [], []
    for rt, lt, re_, le, loc in cases:
        res, fs = impl_check(loc, re_, le)
        impl.append(res)
        reqs.append((0, payload(re_, le, loc)))
        chk.count((suite, re_.key, re_.val, le.val, loc, re_.pre_comment is not None))
        oracle(rt, lt, re_, le, loc, res, fs)
    mid = len(cases) // 2
    if cases:
        rt, lt, re_, le, loc = cases[mid]
        chk.sample({"suite": suite, "reference": re_.val, "l10n": le.val, "locale": loc,
                    "impl": [(s, int(p), m, c) for s, p, m, c in impl_check(loc, re_, le)[1]]}, cap=12)
    if model:
        outs = model.call(reqs)
        chk.correspond(suite, cases, impl, outs,
                       describe=lambda c: {"reference": c[2].val, "l10n": c[3].val, "locale": c[4],
                                           "comment": c[2].pre_comment.all if c[2].pre_comment else None,
                                           "key": c[2].key, "ref_tokens": c[0], "l10n_tokens": c[1]},
                       classify=lambda c: classify(oracle, c))


def classify(oracle, c):
    rt, lt, re_, le, loc = c
    res, fs = impl_check(loc, re_, le)
    hit = []
    oracle(rt, lt, re_, le, loc, res, fs, report=lambda sig, case, detail: hit.append(sig))
    return ["violation", hit[0]] if hit else None


def case_dict(suite, rt, lt, re_, le, loc):
    return {"suite": suite, "ref_tokens": rt, "l10n_tokens": lt, "reference": re_.val, "l10n": le.val,
            "l10n_raw": le.raw_val, "key": re_.key, "locale": loc,
            "comment": re_.pre_comment.all if re_.pre_comment is not None else None}


def make_printf_oracle(chk, suite):
    def oracle(rt, lt, re_, le, loc, res, fs, report=None):
        report = report or chk.fail
        if not (clean(rt) and clean(lt)):
            chk.hist("printf_expected", "not-clean (correspondence only)")
            return
        exp = expected_printf(rt, lt)
        chk.hist("printf_expected", exp if isinstance(exp, str) else
                 "+".join(s for s, _, _ in exp) or "nothing")
        if res[0] != 0 or not verdict_matches(exp, short(fs)):
            report("printf-verdict", case_dict(suite, rt, lt, re_, le, loc),
                   {"got": [list(map(str, f)) for f in fs] if res[0] == 0 else res, "expected": exp,
                    "ref_model": arg_model(rt), "l10n_model": arg_model(lt)})
    return oracle


def make_plural_oracle(chk, suite, plural_branch=True):
    def oracle(rt, lt, re_, le, loc, res, fs, report=None):
        report = report or chk.fail
        if not (plural_clean(rt) and plural_clean(lt)):
            return
        exp = expected_plural(rt, lt, nforms(loc))
        chk.hist("plural_expected", "+".join(s for s, _, _ in exp) or "nothing")
        if res[0] != 0 or short(fs) != exp:
            report("plural-verdict", case_dict(suite, rt, lt, re_, le, loc),
                   {"got": [list(map(str, f)) for f in fs] if res[0] == 0 else res, "expected": exp,
                    "forms": nforms(loc)})
    return oracle


def suite_printf(chk, model):
    rng = chk.rng
    core3 = list(sequences(CORE, 3))
    full2 = list(sequences(FULL, 2))
    pool = Pool(core3 + full2 + (list(sequences(CORE, 4)) if chk.thorough else []))
    locs = locales_of_table()

    def with_entities(pairs):
        return [(r, l, pool.ent[r], pool.ent[l], locs[i % len(locs)] if i % 5 else None)
                for i, (r, l) in enumerate(pairs)]
    cases = [(r, l) for r in core3 for l in core3]
    if chk.thorough:
        cases += [(r, l) for r in full2 for l in full2]
    else:
        cases += [(rng.choice(full2), rng.choice(full2)) for _ in range(30000)]
    run_pairs(chk, model, "PROPS-CHECK-printf", with_entities(cases),
              make_printf_oracle(chk, "PROPS-CHECK-printf"))
    if chk.thorough:
        # a seeded sample of the 7.8 million pairs of core sequences up to 4+4 tokens, in chunks
        core4 = list(sequences(CORE, 4))
        for part in range(10):
            cases = [(rng.choice(core4), rng.choice(core4)) for _ in range(300000)]
            run_pairs(chk, model, f"PROPS-CHECK-printf-4+4-sample[{part}]", with_entities(cases),
                      make_printf_oracle(chk, "PROPS-CHECK-printf-4+4-sample"))
    # random longer values, the localized one a mutation of the reference
    pairs = []
    for _ in range(chk.n(12000, 150000)):
        r = random_value(rng, FULL if rng.random() < 0.5 else CORE + MORE, 8)
        l = mutate(rng, r)
        if rng.random() < 0.3:
            l = mutate(rng, l)
        pairs.append((r, l))
    pool = Pool([x for p in pairs for x in p])
    full = [(r, l, pool.ent[r], pool.ent[l], "de") for r, l in pairs]
    run_pairs(chk, model, "PROPS-CHECK-printf-mutations", full,
              make_printf_oracle(chk, "PROPS-CHECK-printf-mutations"))


def suite_plural(chk, model):
    rng = chk.rng
    seqs = list(sequences(PLURAL_ALPHABET, 3))
    pool = Pool(seqs, comment=PLURAL_COMMENT)
    locs = locales_of_table() + EXTRA_LOCALES
    pairs = [(r, l) for r in seqs for l in seqs]
    if not chk.thorough:
        pairs = rng.sample(pairs, 30000)
    cases = []
    for i, (r, l) in enumerate(pairs):
        reps = 3 if chk.thorough and i % 7 == 0 else 1
        for k in range(reps):
            cases.append((r, l, pool.ent[r], pool.ent[l], locs[(i + 53 * k) % len(locs)]))
    # every locale against 1..7 forms and the variable verdict table
    forms = [tuple([text("#1")] + [text(";"), text("#1")] * n) for n in range(7)]
    vars_ = [(), (text("#1"),), (text("#2"),), (text("#1"), text("#2")), (text("a"),)]
    pool2 = Pool(forms + vars_, comment=PLURAL_COMMENT)
    for loc in locs:
        for f in forms:
            cases.append((forms[1], f, pool2.ent[forms[1]], pool2.ent[f], loc))
        for r in vars_:
            for l in vars_:
                cases.append((r, l, pool2.ent[r], pool2.ent[l], loc))
    for c in cases:
        chk.hist("plural_forms_of_locale", nforms(c[4]))
    run_pairs(chk, model, "PROPS-CHECK-plural", cases, make_plural_oracle(chk, "PROPS-CHECK-plural"))


def suite_select(chk, model):
    """branch selection: comment literal, pluralRule key, numeric reference values"""
    rng = chk.rng
    vals = [(text("#1"), text(";"), text("#2")), (text("#1"),), (spec("S"), text("#1")), (spec("S"),),
            (spec("S"), spec("d")), (text("12"),), (text("0"),), (text("12a"),), (text("a12"),),
            (text("١٢"),), (text("1 2"),), (), (text("#2"), spec("d", "1")), (LONE,),
            (text("#1"), LONE), (text("1"), text(";"), text("2"))]
    cases = []
    for comment, key in [(PLURAL_COMMENT, None), (OTHER_COMMENT, None), (None, None),
                         (PLURAL_COMMENT, "pluralRule"), (None, "pluralRule"),
                         ("# Localization_and_Plurals", None), ("#Localization_and_Plural\n# s", None),
                         (PLURAL_COMMENT + "\n# more", None), (PLURAL_COMMENT, "pluralRules")]:
        pool = Pool(vals, comment=comment, key=key)
        for r in vals:
            for l in vals:
                for loc in ("de", "ga", None):
                    cases.append((r, l, pool.ent[r], pool.ent[l], loc, comment, key))

    def oracle(rt, lt, re_, le, loc, res, fs, report=None):
        report = report or chk.fail
        comment = re_.pre_comment.all if re_.pre_comment is not None else None
        numeric = bool(rt) and all(t[0] == "text" and t[1].isdigit() for t in rt)
        plural = comment is not None and "Localization_and_Plurals" in comment \
            and re_.key != "pluralRule" and not numeric
        chk.hist("select_branch", "plural" if plural else "printf")
        if plural:
            exp = expected_plural(rt, lt, nforms(loc))
            okay = short(fs) == exp
        else:
            if not (clean(rt) and clean(lt)):
                return
            exp = expected_printf(rt, lt)
            okay = verdict_matches(exp, short(fs))
        if res[0] != 0 or not okay:
            report("branch-selection", case_dict("PROPS-CHECK-select", rt, lt, re_, le, loc),
                   {"got": [list(map(str, f)) for f in fs] if res[0] == 0 else res, "expected": exp,
                    "expected_branch": "plural" if plural else "printf"})
    run_pairs(chk, model, "PROPS-CHECK-select", [c[:5] for c in cases], oracle)


ESC_TOKENS = ["a", "\\n", "\\q", "\\\\", "\\u0041", "\\%", "�", "%S", "%1$d", "\\", "\\x", "\\:",
              "\\t", "\\r", "b c", "\\u00e9", "\\ufffd", "%"]


def suite_escape(chk, model):
    """backslash escapes (raw_val vs val) and U+FFFD; values straight from the parser"""
    rng = chk.rng
    from compare_locales import parser
    vals = []
    for _ in range(chk.n(1500, 15000)):
        v = "".join(rng.choice(ESC_TOKENS) for _ in range(rng.randint(0, 6)))
        v = v.strip()
        if (len(v) - len(v.rstrip("\\"))) % 2:      # an odd run of backslashes would continue the line
            v = v[:-1]
        vals.append(v)
    vals = list(dict.fromkeys(vals))
    ents = []
    for i, v in enumerate(vals):
        key = "k�" if i % 17 == 0 else f"k{i}"
        p = parser.getParser("x.properties")
        p.readUnicode(f"{key} = {v}\n" if i % 5 else f"# c �\n{key} = {v}\n")
        es = [e for e in p.walk() if isinstance(e, parser.Entity)]
        if len(es) == 1:
            ents.append(es[0])
    cases = []
    for _ in range(chk.n(4000, 40000)):
        r, l = rng.choice(ents), rng.choice(ents)
        cases.append(((), (), r, l, rng.choice(["de", None, "pl"])))

    def oracle(rt, lt, re_, le, loc, res, fs, report=None):
        report = report or chk.fail
        enc = [(s, int(p)) for s, p, m, c in fs if c == "encodings"]
        want = [("warning", i) for i, ch in enumerate(le.all) if ch == "�"]
        from compare_locales.checks import EntityPos
        typed = all(isinstance(p, EntityPos) == (c == "encodings") for s, p, m, c in fs)
        # an escape warning for every backslash pair whose second character is not n r t \ u... or newline
        esc = [(s, int(p)) for s, p, m, c in fs if c == "escape"]
        raw, i, want_esc = le.raw_val, 0, []
        while i < len(raw):
            if raw[i] == "\\" and i + 1 < len(raw):
                nxt = raw[i + 1]
                is_uni = nxt == "u" and i + 2 < len(raw) and raw[i + 2] in "0123456789abcdefABCDEF"
                if nxt not in "nrt\\\n" and not is_uni:
                    want_esc.append(("warning", i))
                i += 2
                if is_uni:
                    k = 0
                    while k < 4 and i < len(raw) and raw[i] in "0123456789abcdefABCDEF":
                        i += 1
                        k += 1
                elif nxt == "\n":
                    while i < len(raw) and raw[i] in " \t":
                        i += 1
            else:
                i += 1
        if res[0] != 0 or enc != want or not typed or esc != want_esc:
            report("encoding-escape", case_dict("PROPS-CHECK-escape", rt, lt, re_, le, loc),
                   {"got": [list(map(str, f)) for f in fs] if res[0] == 0 else res,
                    "expected_encodings": want, "expected_escapes": want_esc})
    run_pairs(chk, model, "PROPS-CHECK-escape", cases, oracle)


# ------------------------------------------------------------ end to end ---
E2E_LOCALES = ["ja", "de", "fr", "ru", "sl", "ga-IE", "ar", "en-GB", "xx", None]
ID_STYLES = ["msg%d", "hotkey%dError", "open%dKeyFailed", "monkey%d.message", "item%d.accesskey",
             "cmd%d.commandkey", "tab%d.label", "Key%d"]
E2E_COMMENT = ("# LOCALIZATION NOTE: Semi-colon list of plural forms.\n"
               "# See: http://developer.mozilla.org/en/docs/Localization_and_Plurals")


def e2e_entries(rng, n_printf, n_plural):
    """(ref tokens, l10n tokens, plural?) with clean token lists; a third are verbatim copies"""
    core = [s_ for s_ in sequences(CORE + MORE[:3], 2) if clean(s_)]
    withargs = [s_ for s_ in core if arg_model(s_)[0] == "ok" and arg_model(s_)[1]]
    out = []
    for i in range(n_printf):
        r = rng.choice(withargs if i % 4 else core)
        l = r if i % 3 == 0 else rng.choice(core)
        out.append((r, l, False))
    pl = [s_ for s_ in sequences(PLURAL_ALPHABET, 3) if plural_clean(s_)]
    forms = [tuple([text("#1")] + [text(";"), text("#1")] * n) for n in range(6)]
    for i in range(n_plural):
        r = rng.choice(forms) if i % 2 else rng.choice(pl)
        l = r if i % 3 == 0 else (rng.choice(forms) if i % 5 == 0 else rng.choice(pl))
        out.append((r, l, True))
    rng.shuffle(out)
    return out


def run_compare_e2e(tmp, locale, entries):
    """entries: [(key, ref text, l10n text, plural?)] -> (reports [(severity, text)], stats, entities)"""
    import os
    from compare_locales.compare import ContentComparer, Observer
    from compare_locales.paths import File
    from compare_locales import parser
    refpath = os.path.join(tmp, "en-US", "foo.properties")
    l10npath = os.path.join(tmp, str(locale), "foo.properties")
    reftext = "".join((E2E_COMMENT + "\n" if pl else "") + f"{k} = {r}\n" for k, r, _, pl in entries)
    l10ntext = "".join(f"{k} = {l}\n" for k, _, l, _ in entries)
    for path, txt in ((refpath, reftext), (l10npath, l10ntext)):
        os.makedirs(os.path.dirname(path), exist_ok=True)
        with open(path, "w", encoding="utf-8", newline="\n") as f:
            f.write(txt)
    cc = ContentComparer()
    obs = Observer()
    cc.observers.append(obs)
    l10nfile = File(l10npath, "foo.properties", locale=locale)
    cc.compare(File(refpath, "foo.properties"), l10nfile, None)
    reports = []
    for item in obs.details[l10nfile]:
        for tp, txt in item.items():
            reports.append((tp, txt))
    ents = []
    for txt in (reftext, l10ntext):
        pp = parser.getParser("foo.properties")
        pp.readUnicode(txt)
        ents.append([e for e in pp.walk() if isinstance(e, parser.Entity)])
    # the linter on the reference file (it has the plural comments), the other file as its reference
    from compare_locales.lint.linter import L10nLinter
    lint = [[r["lineno"], r["column"], int(r["level"] == "error"), lint_message(r["message"])]
            for r in L10nLinter().lint_file(refpath, l10npath, None)]
    return reports, dict(obs.summary[locale]), ents, (reftext, l10ntext, lint)


SUMMARY_KEYS = ["errors", "warnings", "missing", "missing_w", "report", "obsolete", "changed",
                "changed_w", "unchanged", "unchanged_w", "keys"]


def lint_message(msg):
    for i, prefix in enumerate(("Duplicate string with ID: ", "Changes to string require a new ID: ")):
        if msg.startswith(prefix):
            return [i, canon(msg[len(prefix):])]
    if msg.startswith("Unparsed content"):
        return [2]
    return [3, canon(msg)]


def suite_compare(chk, model):
    """END TO END: ContentComparer.compare on real files in a temporary directory; every entry
    the positional-argument / plural model flags must be reported with its key, nothing else,
    whatever the ID looks like and whether or not the value is a verbatim copy"""
    import re as _re
    import shutil
    import tempfile
    rng = chk.rng
    tmp = tempfile.mkdtemp(prefix="verif_c06_")
    cases, impl, reqs, want_lines = [], [], [], []
    adapter_cases, adapter_impl, adapter_reqs = [], [], []
    try:
        locs = E2E_LOCALES + (locales_of_table()[::6] if chk.thorough else [])
        for loc in locs:
            toks = e2e_entries(rng, chk.n(36, 150), chk.n(36, 150))
            entries = [(ID_STYLES[i % len(ID_STYLES)] % i, render(r), render(l), pl)
                       for i, (r, l, pl) in enumerate(toks)]
            # small files for the whole-pipeline model runs (the extracted model works on unary
            # offsets: its cost grows fast with the length of the text)
            for k in range(0, min(len(entries), 80), 8):
                _, st, _, (rtx, ltx, lint) = run_compare_e2e(tmp, loc, entries[k:k + 8])
                adapter_cases.append((loc, rtx, ltx))
                adapter_impl.append([0, [st.get(key, 0) for key in SUMMARY_KEYS]])
                adapter_impl.append([0, lint])
                adapter_reqs.append((6, [[loc] if loc is not None else [], rtx, ltx]))
                adapter_reqs.append((7, [["en-x-moz-reference"], rtx, [ltx]]))
            reports, stats, (rents, lents), _ = run_compare_e2e(tmp, loc, entries)
            if len(rents) != len(entries) or len(lents) != len(entries):
                raise RuntimeError("harness: generated files did not parse into their entries")
            by_key, stray = {}, []
            for tp, txt in reports:
                mm = _re.match(r"(.*) at line (\d+), column (\d+) for (.*)$", txt, _re.S)
                if tp in ("error", "warning") and mm:
                    by_key.setdefault(mm.group(4), []).append((tp, mm.group(1), int(mm.group(2)),
                                                               int(mm.group(3))))
                else:
                    stray.append((tp, txt))
            if stray:
                chk.fail("compare-e2e", {"suite": "COMPARE-E2E", "locale": loc, "stray": stray[:5]},
                         "reports that are not per-entity check findings (all keys are in both files)")
            nkeys = sum(1 for k, _, _, _ in entries if "key" in k or "Key" in k)
            same = sum(1 for k, r, l, _ in entries if r == l and not ("key" in k or "Key" in k))
            if (stats.get("keys"), stats.get("unchanged"), stats.get("changed")) != \
                    (nkeys, same, len(entries) - nkeys - same):
                chk.fail("compare-e2e-stats", {"suite": "COMPARE-E2E", "locale": loc},
                         {"stats": stats, "expected_keys": nkeys, "expected_unchanged": same})
            for i, ((rt, lt, pl), (key, rtxt, ltxt, _)) in enumerate(zip(toks, entries)):
                got = by_key.get(key, [])
                exp = expected_plural(rt, lt, nforms(loc)) if pl else expected_printf(rt, lt)
                sev = [(tp, line, col - len(key) - 4) for tp, _, line, col in got]
                if exp == "error":
                    okay = sev[:1] == [("error", i + 1, 0)] and sev[1:] in ([], [("warning", i + 1, 0)])
                else:
                    okay = sev == [(s_, i + 1, p_) for s_, p_, _ in exp]
                chk.count(("e2e", loc, key, rtxt, ltxt, pl))
                chk.hist("e2e_id_style", ID_STYLES[i % len(ID_STYLES)] + (" copy" if rtxt == ltxt else ""))
                if not okay:
                    chk.fail("compare-e2e",
                             {"suite": "COMPARE-E2E", "locale": loc, "key": key, "reference": rtxt,
                              "l10n": ltxt, "plural_comment": pl, "ref_tokens": rt, "l10n_tokens": lt},
                             {"reported": got, "expected": exp,
                              "note": "expected (severity, line, offset in value) by construction"})
                cases.append((loc, key, rtxt, ltxt, pl))
                impl.append([[canon(tp), canon(m_), line, col] for tp, m_, line, col in got])
                reqs.append((0, payload(rents[i], lents[i], loc)))
                want_lines.append((i + 1, len(key) + 4))
    finally:
        shutil.rmtree(tmp, ignore_errors=True)
    flagged = next((i for i, r in enumerate(impl) if r and ("key" in cases[i][1] or "Key" in cases[i][1])), 0)
    chk.sample({"suite": "COMPARE-E2E", "case": cases[flagged],
                "reported": [[common.l2s(r[0]), common.l2s(r[1]), r[2], r[3]] for r in impl[flagged]]},
               cap=14)
    if model:
        outs = model.call(reqs)
        mouts = []
        for o, (line, col0) in zip(outs, want_lines):
            if o[0] != 0:
                mouts.append(o)
            else:
                mouts.append([[f[0], f[3], line, col0 + f[1]] for f in o[1]])
        chk.correspond("COMPARE-E2E (reports of ContentComparer.compare vs model findings)",
                       cases, impl, mouts)
        # the checker model behind the interfaces of the end-to-end models of C03 and C19
        # (Model/CheckPlain.v props_chk / props_lint_chk): whole-pipeline model runs on the TEXTS
        outs = model.call(adapter_reqs, timeout=900)
        chk.correspond("E2E-ADAPTERS (compare_properties with props_chk: summary; lint_properties "
                       "with props_lint_chk: findings; vs ContentComparer / L10nLinter on the files)",
                       [c for c in adapter_cases for _ in (0, 1)], adapter_impl, outs,
                       describe=lambda c: {"locale": c[0], "reference_text": c[1], "l10n_text": c[2]})


def e2e_single(c):
    """re-run one end-to-end case of a replay file"""
    import shutil
    import tempfile
    tmp = tempfile.mkdtemp(prefix="verif_c06_")
    try:
        reports, _, _, _ = run_compare_e2e(tmp, c.get("locale"),
                                        [(c["key"], c["reference"], c["l10n"], c["plural_comment"])])
    finally:
        shutil.rmtree(tmp, ignore_errors=True)
    rt = tuple(tuple(t) for t in c["ref_tokens"])
    lt = tuple(tuple(t) for t in c["l10n_tokens"])
    exp = expected_plural(rt, lt, nforms(c.get("locale"))) if c["plural_comment"] else expected_printf(rt, lt)
    sev = [tp for tp, _ in reports if tp in ("error", "warning")]
    if exp == "error":
        okay = sev[:1] == ["error"] and sev[1:] in ([], ["warning"])
    else:
        okay = sev == [s_ for s_, _, _ in exp]
    return reports, exp, okay


def suite_corpus(chk, model):
    """hand-written cases of corpus/C06 (run first)"""
    import glob
    import os
    cases = []
    for path in sorted(glob.glob(os.path.join(common.VERIF, "corpus", "C06", "*.json"))):
        c = json.load(open(path))
        rt = tuple(tuple(t) for t in c["ref"])
        lt = tuple(tuple(t) for t in c["l10n"])
        key = c.get("key", "k")
        ref = parse_entities([(key, render(rt), c.get("comment"))])[0]
        l10n = parse_entities([(key, render(lt), c.get("comment"))])[0]
        cases.append((rt, lt, ref, l10n, c.get("locale")))
    if not cases:
        return

    def oracle(rt, lt, re_, le, loc, res, fs, report=None):
        report = report or chk.fail
        plural = re_.pre_comment is not None and "Localization_and_Plurals" in re_.pre_comment.all \
            and re_.key != "pluralRule"
        exp = expected_plural(rt, lt, nforms(loc)) if plural else expected_printf(rt, lt)
        okay = short(fs) == exp if plural else verdict_matches(exp, short(fs))
        if res[0] != 0 or not okay:
            report("corpus", case_dict("CORPUS", rt, lt, re_, le, loc),
                   {"got": [list(map(str, f)) for f in fs] if res[0] == 0 else res, "expected": exp})
    run_pairs(chk, model, "CORPUS", cases, oracle)


def run(chk, runner_ok):
    model = Model("C06") if runner_ok else None
    suite_corpus(chk, model)
    suite_compare(chk, model)
    if runner_ok:
        rxsuite.run_rx(chk, groups=["c06"], per_regex=chk.n(60, 400))
    suite_difflib(chk, model)
    suite_plural_table(chk, model)
    suite_specs(chk, model)
    suite_select(chk, model)
    suite_escape(chk, model)
    suite_plural(chk, model)
    suite_printf(chk, model)
    chk.trusted.append("difflib.SequenceMatcher above 199 elements of the localized spec list "
                       "(autojunk) is outside the model: it answers NotSupported there")


def replay(chk, path):
    data = json.load(open(path))
    rc = 0

    def tt(toks):
        return tuple(tuple(t) for t in toks)
    for f in data.get("failures", []):
        c = f["case"]
        if "a" in c and "b" in c:
            import difflib
            print("difflib", c, difflib.SequenceMatcher(None, c["a"], c["b"]).get_opcodes())
            rc = 1
            continue
        if c.get("suite") == "COMPARE-E2E" and "key" in c:
            reports, exp, okay = e2e_single(c)
            print("case", c, "\n  reports", reports, "\n  expected", exp,
                  "\n  ->", "passes now" if okay else "STILL FAILS")
            rc |= not okay
            continue
        if "reference" not in c:
            print("case", c, f.get("detail"))
            rc = 1
            continue
        rt, lt = tt(c.get("ref_tokens", ())), tt(c.get("l10n_tokens", ()))
        ref = parse_entities([(c["key"], c["reference"], c.get("comment"))])[0]
        l10n = parse_entities([(c["key"], c.get("l10n_raw", c["l10n"]), c.get("comment"))])[0]
        res, fs = impl_check(c.get("locale"), ref, l10n)
        sig = f["signature"]
        if sig == "plural-verdict":
            exp = expected_plural(rt, lt, nforms(c.get("locale")))
            bad = short(fs) != exp
        elif sig in ("printf-verdict", "branch-selection") and c.get("ref_tokens") is not None:
            comment = c.get("comment")
            numeric = bool(rt) and all(t[0] == "text" and t[1].isdigit() for t in rt)
            if sig == "branch-selection" and comment and "Localization_and_Plurals" in comment \
                    and c["key"] != "pluralRule" and not numeric:
                exp = expected_plural(rt, lt, nforms(c.get("locale")))
                bad = short(fs) != exp
            else:
                exp = expected_printf(rt, lt)
                bad = not verdict_matches(exp, short(fs))
        else:
            exp, bad = f.get("detail"), True
        print("case", c, "\n  impl", [list(map(str, x)) for x in fs], "\n  expected", exp,
              "\n  ->", "STILL FAILS" if bad else "passes now")
        rc |= bad
    for d in data.get("disagreements", []):
        print("disagreement", d)
        rc = 1
    return int(rc)
