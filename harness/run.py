import argparse
import importlib
import os
import sys

from harness import common


def main():
    ap = argparse.ArgumentParser()
    ap.add_argument("prop")
    ap.add_argument("--tier", default=os.environ.get("VERIF_TIER", "quick"),
                    choices=["quick", "thorough"])
    ap.add_argument("--replay")
    ap.add_argument("--no-build", action="store_true")
    args = ap.parse_args()
    seed = int(os.environ.get("VERIF_SEED", "0"))
    prop = args.prop.upper()
    mod = importlib.import_module("harness.props." + prop.lower())
    chk = common.Check(prop, args.tier, seed)
    if args.replay:
        sys.exit(mod.replay(chk, args.replay))
    if not args.no_build:
        chk.add_obligations(common.build_property(prop, extract=getattr(mod, "EXTRACT", True),
                                                  runners=getattr(mod, "RUNNERS", ()),
                                                  facts=getattr(mod, "FACTS", ("tables", "parser"))))
    runner_ok = all(o.ok for o in chk.obligations if o.kind == "build")
    try:
        mod.run(chk, runner_ok)
    except Exception:  # noqa: a crashing suite is a broken obligation, never a silent pass
        import traceback
        chk.obligations.append(common.Obligation("harness suites ran to completion", "harness", False,
                                                 traceback.format_exc()[-1500:]))
    sys.exit(chk.finish(level="proof", rule=getattr(mod, "RULE", "")))


if __name__ == "__main__":
    main()
