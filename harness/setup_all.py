"""setup_cmd: build everything once so that the per-property checks are incremental."""
import os
import sys
from harness import common
from harness.props import manifest_data as md


def main():
    bad = 0
    with common.BuildLock():
        common.ensure_makefile()
    for prop in sorted(md.CLAIMED):
        import importlib
        mod = importlib.import_module("harness.props." + prop.lower())
        obs = common.build_property(prop, jobs=16, extract=getattr(mod, "EXTRACT", True),
                                    runners=getattr(mod, "RUNNERS", ()),
                                                  facts=getattr(mod, "FACTS", ("tables", "parser")))
        for o in obs:
            if not o.ok:
                bad += 1
                print("setup: broken", prop, o.kind, o.name, o.detail[-500:])
    print("setup done, broken obligations:", bad)
    sys.exit(1 if bad else 0)


if __name__ == "__main__":
    main()
