"""Suite RX: the Gallina regex engine on the generated ASTs against CPython's
`re` on the source patterns: match at every offset, search, finditer, with
spans of all groups.  Validates the translator (tr/rx2coq.py), the generated
Coq terms (by index into Generated.all_regexes) and the engine together."""
import os
import random
import re
import sys

from harness import common

sys.path.insert(0, os.path.join(common.VERIF, "tr"))
import rx2coq  # noqa: E402
import gen_modules  # noqa: E402


def alphabet(t, acc):
    k = t[0]
    if k == "Chr":
        for a, b in t[2]:
            for c in (a - 1, a, b, b + 1, (a + b) // 2):
                if 0 <= c < 0x110000 and not 0xD800 <= c < 0xE000:
                    acc.add(c)
        for cat in t[3]:
            acc.update({ord("a"), ord("Z"), ord("_"), ord("7"), ord(" "), 0xE9, 0x3042})
    for x in t[1:]:
        if isinstance(x, tuple) and x and isinstance(x[0], str):
            alphabet(x, acc)
    return acc


def sample(t, rng, caps, depth=0):
    """a string likely (not surely) matched by t"""
    k = t[0]
    if k == "Chr":
        neg, ranges, cats = t[1], list(t[2]), t[3]
        for c in cats:
            ranges += [(ord("a"), ord("z")), (ord("0"), ord("9"))] if c != "space" else [(32, 32), (10, 10)]
        if not neg:
            if not ranges:
                return ""
            a, b = rng.choice(ranges)
            return chr(rng.randint(a, b))
        for _ in range(20):
            c = rng.choice([rng.randint(32, 126), rng.randint(9, 13), rng.randint(160, 0x2FF), 0x1F600])
            if not any(a <= c <= b for a, b in ranges):
                return chr(c)
        return ""
    if k == "Cat":
        return sample(t[1], rng, caps, depth) + sample(t[2], rng, caps, depth)
    if k == "Alt":
        return sample(t[1 + rng.randint(0, 1)], rng, caps, depth)
    if k == "Rep":
        lo, hi = t[2], t[3]
        n = rng.randint(lo, min(lo + 3, hi if hi is not None else lo + 3))
        return "".join(sample(t[4], rng, caps, depth + 1) for _ in range(n))
    if k == "Grp":
        s = sample(t[2], rng, caps, depth)
        caps[t[1]] = s
        return s
    if k == "Bref":
        return caps.get(t[1], "")
    return ""


def strings_for(ast, rng, n):
    al = sorted(alphabet(ast, set())) + [10, 32, 92, 97]
    out = ["", "\n", "a"]
    for i in range(n):
        mode = i % 3
        if mode == 0:
            s = "".join(chr(rng.choice(al)) for _ in range(rng.randint(0, 10)))
        else:
            parts = []
            for _ in range(rng.randint(1, 3)):
                parts.append("".join(chr(rng.choice(al)) for _ in range(rng.randint(0, 3))))
                parts.append(sample(ast, rng, {}))
            s = "".join(parts)
            if mode == 2 and s:
                j = rng.randrange(len(s))
                s = rng.choice([s[:j] + s[j + 1:], s[:j] + chr(rng.choice(al)) + s[j:],
                                s[:j] + s[j] + s[j:]])
        out.append(s[:40])
    return out


def span_list(m, ngroups):
    return [m.start(), m.end(),
            [[list(m.span(g))] if m.span(g) != (-1, -1) else [] for g in range(1, ngroups + 1)]]


def run_rx(chk, names=None, per_regex=None, groups=None):
    """names: regex names of the registry (None = all of `groups`). Returns #disagreements."""
    try:
        reg = gen_modules.registry()
    except Exception as e:  # noqa
        chk.obligations.append(common.Obligation("translator: regex registry", "translator", False, repr(e)))
        return 0
    if names is None and groups is not None:
        names = list(gen_modules.registry(groups))
    order = list(reg)
    rng = random.Random(chk.seed * 7919 + 17)
    per_regex = per_regex or chk.n(60, 600)
    model = common.Model("RX")
    cases, impl, reqs = [], [], []
    for name in (names or order):
        pat, flags = reg[name]
        idx = order.index(name)
        cre = re.compile(pat, flags)
        try:
            ast, _ = rx2coq.parse(pat, flags)
            sxr = rx2coq.to_sx(ast)
        except Exception as e:  # noqa: fail closed, but keep the other suites and the oracles running
            chk.obligations.append(common.Obligation(
                f"translator: regex {name} {pat!r}", "translator", False, f"{type(e).__name__}: {e}"))
            continue
        ng = cre.groups
        for s in strings_for(ast, rng, per_regex):
            sl = common.s2l(s)
            for off in range(len(s) + 1):
                mm = cre.match(s, off)
                want = [span_list(mm, ng)] if mm else []
                # by index (generated Coq term) and by wire AST (translator output)
                cases.append((name, "match", s, off)); impl.append(want); reqs.append((0, [idx, ng, sl, off]))
                if off % 3 == 0:
                    cases.append((name, "match-wire", s, off)); impl.append(want); reqs.append((0, [sxr, ng, sl, off]))
                    ms = cre.search(s, off)
                    cases.append((name, "search", s, off)); impl.append([span_list(ms, ng)] if ms else [])
                    reqs.append((1, [idx, ng, sl, off]))
            cases.append((name, "finditer", s, 0))
            impl.append([span_list(x, ng) for x in cre.finditer(s)])
            reqs.append((2, [idx, ng, sl, 0]))
            if len(s) > 2:
                e = rng.randint(0, len(s))
                ms = cre.search(s, 0, e)
                cases.append((name, "search-endpos", s, e)); impl.append([span_list(ms, ng)] if ms else [])
                reqs.append((3, [idx, ng, sl, 0, e]))
            chk.count(("rx", name, s))
    if not reqs:
        return 0
    outs = model.call(reqs)
    chk.sample({"suite": "RX", "case": cases[len(cases) // 2], "re": impl[len(cases) // 2]})
    label = ",".join(groups) if groups else (f"{len(names)} regexes" if names else "all")
    return chk.correspond(f"RX[{label}]", cases, impl, outs)
