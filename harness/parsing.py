"""Implementation side of the parser suites: running the real parsers with a
watchdog, canonical entry lists, token alphabets and text generators."""
import itertools
import signal

from harness.common import TAGS

FORMATS = ["properties", "dtd", "ini", "inc", "po"]
FILE = {"properties": "f.properties", "dtd": "f.dtd", "ini": "f.ini", "inc": "f.inc",
        "po": "f.po", "ftl": "f.ftl"}
FCODE = {"properties": 0, "dtd": 1, "ini": 2, "inc": 3, "po": 4}

HANG = [1, 9]


class Watchdog(Exception):
    pass


class Crash:
    """an exception escaped the code under test"""
    def __init__(self, exc):
        self.name = type(exc).__name__
        self.text = repr(exc)[:200]


def _alarm(signum, frame):
    raise Watchdog()


def with_watchdog(fn, seconds=2.0):
    old = signal.signal(signal.SIGALRM, _alarm)
    signal.setitimer(signal.ITIMER_REAL, seconds)
    try:
        return fn()
    finally:
        signal.setitimer(signal.ITIMER_REAL, 0)
        signal.signal(signal.SIGALRM, old)


def sp(x):
    if x is None or tuple(x) == (-1, -1):
        return []
    return [[x[0], x[1]]]


def kind_of(e):
    from compare_locales import parser as P
    if isinstance(e, P.Junk):
        return 3
    if isinstance(e, P.Whitespace):
        return 2
    if isinstance(e, P.Comment):
        return 1
    if isinstance(e, P.IniSection):
        return 4
    if isinstance(e, P.DefinesInstruction):
        return 5
    if isinstance(e, P.Entity):
        return 0
    raise TypeError(type(e))


def canon_entry(e):
    k = kind_of(e)
    pre = getattr(e, "pre_comment", None)
    white = getattr(e, "inner_white", None)
    return [k, [e.span[0], e.span[1]], sp(getattr(e, "key_span", None)),
            sp(getattr(e, "val_span", None)),
            sp(pre.span) if pre is not None else [],
            sp(white.span) if white is not None else []]


def get_parser(fmt):
    from compare_locales import parser
    return parser.getParser(FILE[fmt])


def raw_walk(fmt, text, localizable=False):
    """list of entry objects, or None on hang (watchdog or entry cap)"""
    p = get_parser(fmt)
    p.readUnicode(text)
    cap = len(text) + 2

    def go():
        out = []
        for e in (iter(p) if localizable else p.walk()):
            out.append(e)
            if len(out) > cap:
                return None
        return out
    try:
        return with_watchdog(go)
    except Watchdog:
        return None
    except Exception as e:  # noqa: an exception escaping the walk is an outcome, not a harness crash
        return Crash(e)


def impl_walk(fmt, text):
    """canonical [0, [entries, localizable]] or HANG"""
    es = raw_walk(fmt, text)
    if es is None:
        return HANG, None
    if isinstance(es, Crash):
        return [1, TAGS.get(es.name, 99)], es
    loc = raw_walk(fmt, text, localizable=True)
    if loc is None:
        return HANG, None
    if isinstance(loc, Crash):
        return [1, TAGS.get(loc.name, 99)], loc
    return [0, [[canon_entry(e) for e in es], [canon_entry(e) for e in loc]]], es


# ------------------------------------------------------------------ tokens ---
TOKENS = {
    "properties": ["k", " ", "=", ":", "v", "\\", "\n", "#c", "!", "\\u0041", "\t", "License"],
    "dtd": ["<!ENTITY", " ", "k", '"', "'", "v", ">", "<!--", "-->", "\n", "%", "\ufeff",
            "&", "License", "-"],
    "ini": ["[", "]", "k", "=", "v", "\n", ";", "#", " ", "License"],
    "inc": ["#define", " ", "k", "v", "\n", "# c", "#", "#filter emptyLines",
            "#unfilter emptyLines", "\t"],
    "po": ["msgid", "msgstr", "msgctxt", ' "a"', '"', " ", "\n", "#c", "\\", "x", '""'],
}


def exhaustive(fmt, maxlen):
    toks = TOKENS[fmt]
    for n in range(maxlen + 1):
        for combo in itertools.product(toks, repeat=n):
            yield "".join(combo)


EXOTIC = ["\x0b", "\x0c", "\x1c", "\x85", "\u2028", "é", "あ", "\U0001F600", "\x00",
          "\ufffd", "\ufeff", "\xa0"]


def random_text(fmt, rng, maxtok=14):
    toks = TOKENS[fmt]
    n = rng.randint(0, maxtok)
    out = []
    for _ in range(n):
        r = rng.random()
        if r < 0.8:
            out.append(rng.choice(toks))
        elif r < 0.9:
            out.append(rng.choice(EXOTIC))
        else:
            c = rng.randint(1, 0x2FFF)
            if c == 13 or 0xD800 <= c < 0xE000:
                c = 97
            out.append(chr(c))
    return "".join(out)


# ------------------------------------------------------------- C01 oracle ---
def oracle_c01(fmt, text, es, loc):
    """the statement of C01 on the implementation's own output; returns None or (signature, detail)"""
    if es is None:
        return ("hang", "walk did not terminate within the entry cap / watchdog")
    if isinstance(es, Crash):
        return ("exception", es.text)
    if isinstance(loc, Crash):
        return ("exception", loc.text)
    if loc is None:
        return ("hang", "localizable view did not terminate")
    body = text[1:] if fmt == "dtd" and text.startswith("\ufeff") else text
    joined = "".join(e.all for e in es)
    if joined != body:
        return ("lossy", {"reassembled": joined, "expected": body})
    pos = len(text) - len(body)
    for e in es:
        start = e.span[0]
        pre = getattr(e, "pre_comment", None)
        if pre is not None:
            start = pre.span[0]
        if start != pos:
            return ("gap-or-overlap", {"at": pos, "entry_start": start})
        if not (e.span[0] <= e.span[1] <= len(text)):
            return ("bad-span", {"span": e.span})
        if e.span[1] <= pos and not (fmt == "dtd" and text == "\ufeff"):
            return ("zero-width", {"span": e.span})
        pos = e.span[1]
        if kind_of(e) == 0:
            for nm in ("key_span", "val_span"):
                s_ = getattr(e, nm, None)
                if s_ is None or tuple(s_) == (-1, -1):
                    continue
                if not (start <= s_[0] <= s_[1] <= e.span[1]):
                    return ("span-outside-entity", {"which": nm, "span": s_, "entity": [start, e.span[1]]})
    want = [canon_entry(e) for e in es if kind_of(e) in (0, 3)]
    got = [canon_entry(e) for e in loc]
    if want != got:
        return ("localizable-view", {"walk_filtered": want, "iter": got})
    return None


# ------------------------------------------------------- structured files ---
def _val(rng):
    return rng.choice(["v", "some value", "a=b", "x:y", "%S", "\\u0041", "two\\\n   lines", "", "é"])


def structured(fmt, rng):
    """a mostly well-formed file: entities with attached / abutting / detached comments,
    blank lines, a possible license header, a possible garbage line"""
    out = []
    n = rng.randint(0, 5)
    if rng.random() < 0.15:
        out.append({"properties": "# License x\n", "dtd": "<!-- License x -->\n", "ini": "; License x\n",
                    "inc": "# License x\n", "po": "# License x\n"}[fmt] + rng.choice(["", "\n"]))
    if fmt == "ini":
        out.append("[Strings]\n")
    if fmt == "inc" and rng.random() < 0.5:
        out.append("#filter emptyLines\n")
    for i in range(n):
        k = "k%d" % i if rng.random() < 0.9 else "k0"
        c = rng.random()
        sep = rng.choice(["", "", "\n", "\n\n"])  # between comment and entity: abutting, newline, blank line
        if fmt == "properties":
            if c < 0.4:
                out.append(rng.choice("#!") + " c%d" % i + ("\n" if sep == "" else sep))
            out.append(k + rng.choice(["=", " = ", ":", " : "]) + _val(rng) + "\n")
        elif fmt == "dtd":
            if c < 0.4:
                out.append("<!-- c%d -->" % i + sep)
            q = rng.choice("\"'")
            out.append("<!ENTITY " + k + " " + q + rng.choice(["v", "a &amp; b", "x\ny", ""]) + q + ">"
                       + rng.choice(["\n", "", "\n\n"]))
        elif fmt == "ini":
            if c < 0.4:
                out.append(rng.choice(";#") + " c%d" % i + ("\n" if sep == "" else sep))
            out.append(k + "=" + rng.choice(["v", "a b", "", "x=y"]) + "\n")
        elif fmt == "inc":
            if c < 0.4:
                out.append("# c%d" % i + ("\n" if sep == "" else sep))
            out.append("#define " + k + rng.choice([" v", " a b", "", "\tz"]) + "\n")
        elif fmt == "po":
            if c < 0.4:
                out.append("#c%d\n" % i + sep.replace("\n\n", "\n"))
            if rng.random() < 0.3:
                out.append('msgctxt "ctx%d"\n' % i)
            out.append('msgid "id%d"' % i + rng.choice(["\n", '\n"more\\n"\n']))
            out.append('msgstr ' + rng.choice(['"s"', '""', '"a\\"b"', '"q\\\\n"']) + "\n")
        if rng.random() < 0.3:
            out.append("\n")
        if rng.random() < 0.12:
            out.append("garbage line\n")
    text = "".join(out)
    if text.endswith("\n") and rng.random() < 0.2:
        text = text[:-1]
    return text


def mutate(text, rng, toks):
    if not text:
        return rng.choice(toks)
    j = rng.randrange(len(text) + 1)
    r = rng.random()
    if r < 0.3:
        return text[:j] + text[j + 1:]
    if r < 0.6:
        return text[:j] + rng.choice(toks) + text[j:]
    if r < 0.8:
        k = rng.randrange(len(text) + 1)
        a, b = min(j, k), max(j, k)
        return text[:a] + text[b:]
    return text[:j] + text[j:j + 3] + text[j:]
