"""Pinned plural data: the locale -> plural-rule table of compare_locales/plurals.py as it was when the
properties were verified (tr/pins_plurals.json; CLDR-derived data, not code).  C06 and C08 speak of "the
locale's plural-form count" / "plural-category set": the oracles take that from this snapshot, not from the
tree under test, so a changed table entry is a failing input (signature plural-table-differs-from-pinned-data).
A deliberate data update needs a re-pin: python -c "..." as in DESIGN.md B.1 (source pins)."""
import json
import os

_D = json.load(open(os.path.join(os.path.dirname(os.path.abspath(__file__)), "..", "tr", "pins_plurals.json")))
BY_LOCALE = _D["by_locale"]
BY_INDEX = [tuple(c) for c in _D["by_index"]]


def locales():
    return list(BY_LOCALE)


def categories(locale):
    """plurals.get_plural as documented: the exact code, else the language before the first '-', else None"""
    if locale is None:
        return None
    idx = BY_LOCALE.get(locale)
    if idx is None:
        idx = BY_LOCALE.get(locale.split("-", 1)[0])
    return None if idx is None else BY_INDEX[idx]


def check_table(chk):
    """every locale of the pinned table (+ region / script variants, unknown codes) against plurals.get_plural"""
    from compare_locales import plurals
    cases = locales() + [l + "-XX" for l in locales()] + [l + "-Latn-XX" for l in locales()[::7]] + \
        ["", "x", "x-testing", "zz", "-", "en-x-moz-reference"]
    from compare_locales import plurals as _p
    cases += [l for l in _p.CATEGORIES_BY_LOCALE if l not in BY_LOCALE]
    for loc in cases:
        try:
            got = plurals.get_plural(loc)
        except Exception as e:  # noqa
            got = f"raised {type(e).__name__}"
        want = categories(loc)
        chk.evaluations += 1
        if (tuple(got) if isinstance(got, (list, tuple)) else got) != want:
            chk.fail("plural-table-differs-from-pinned-data", {"locale": loc},
                     {"got": got, "pinned": want})
