"""Shared machinery of the checks: build of the Coq cone and the extracted
model runner, the sx wire format, the verdict rule and the evidence file.

Every check is `./check Cnn --tier quick|thorough`; see DESIGN.md section 1.5
for the verdict rule implemented by `Check.finish`.
"""
import fcntl
import hashlib
import json
import os
import random
import re
import subprocess
import sys
import time

VERIF = os.path.dirname(os.path.dirname(os.path.abspath(__file__)))
REPO = os.environ.get("VERIF_REPO", "/repo")
COQ = os.path.join(VERIF, "coq")
BIN = os.path.join(VERIF, "bin")
BUILD = os.path.join(VERIF, "build")
PY = "/venv/bin/python"

FORBIDDEN = re.compile(
    r"\b(Admitted|admit|Axiom|Axioms|Parameter|Parameters|Conjecture|Conjectures|"
    r"Admit Obligations|bypass_check|Unset Guard Checking|Unset Positivity Checking|"
    r"Unset Universe Checking|type-in-type|impredicative-set)\b"
)


# --------------------------------------------------------------------- sx ---
def sx_dump(x):
    if isinstance(x, bool):
        return "1" if x else "0"
    if isinstance(x, int):
        return str(x)
    if isinstance(x, str):
        return "(" + " ".join(str(ord(c)) for c in x) + ")"
    if x is None:
        return "()"
    return "(" + " ".join(sx_dump(y) for y in x) + ")"


def sx_load(s):
    s = s.strip()
    stack = [[]]
    i, n = 0, len(s)
    while i < n:
        c = s[i]
        if c == "(":
            stack.append([])
            i += 1
        elif c == ")":
            top = stack.pop()
            stack[-1].append(top)
            i += 1
        elif c == " ":
            i += 1
        else:
            j = i + 1
            while j < n and s[j] not in " ()":
                j += 1
            stack[-1].append(int(s[i:j]))
            i = j
    assert len(stack) == 1 and len(stack[0]) == 1, s[:200]
    return stack[0][0]


def s2l(s):
    """Python str -> list of code points"""
    return [ord(c) for c in s]


def l2s(l):
    return "".join(chr(c) for c in l)


def canon(x):
    """tuples -> lists, bools -> ints, str -> code point lists, None -> []"""
    if isinstance(x, bool):
        return int(x)
    if isinstance(x, int):
        return x
    if isinstance(x, str):
        return s2l(x)
    if x is None:
        return []
    return [canon(y) for y in x]


def ok(v):
    return [0, v]


def raised(code):
    return [1, code]


TAGS = {
    "TypeError": 1, "IndexError": 2, "KeyError": 3, "AssertionError": 4,
    "ValueError": 5, "BadEntity": 6, "error": 7, "RuntimeError": 8,
    "Hang": 9, "MissingEnvironment": 10, "MergeNotSupportedError": 11,
}


def impl_result(fn, conv=canon):
    """run fn(); Ok value or the small exception tag enum"""
    try:
        return ok(conv(fn()))
    except Exception as e:  # noqa
        code = TAGS.get(type(e).__name__)
        if code is None:
            raise
        return raised(code)


# ------------------------------------------------------------------ build ---
def sh(cmd, timeout=1200, cwd=None, env=None):
    p = subprocess.run(cmd, shell=True, cwd=cwd, env=env, timeout=timeout,
                       stdout=subprocess.PIPE, stderr=subprocess.STDOUT, text=True)
    return p.returncode, p.stdout


class BuildLock:
    def __enter__(self):
        os.makedirs(BUILD, exist_ok=True)
        self.f = open(os.path.join(VERIF, ".build.lock"), "w")
        fcntl.flock(self.f, fcntl.LOCK_EX)
        return self

    def __exit__(self, *a):
        fcntl.flock(self.f, fcntl.LOCK_UN)
        self.f.close()


def coq_sources():
    out = []
    for d, _, fs in os.walk(COQ):
        for f in fs:
            if f.endswith(".v") and not f.startswith("_"):
                out.append(os.path.relpath(os.path.join(d, f), COQ))
    return sorted(out)


def write_if_changed(path, text):
    try:
        if open(path).read() == text:
            return False
    except OSError:
        pass
    os.makedirs(os.path.dirname(path), exist_ok=True)
    with open(path, "w") as f:
        f.write(text)
    return True


def ensure_makefile():
    head = open(os.path.join(COQ, "_CoqProject.head")).read()
    proj = head + "\n".join(coq_sources()) + "\n"
    changed = write_if_changed(os.path.join(COQ, "_CoqProject"), proj)
    if changed or not os.path.exists(os.path.join(COQ, "Makefile")):
        rc, out = sh("coq_makefile -f _CoqProject -o Makefile", cwd=COQ)
        if rc != 0:
            raise RuntimeError("coq_makefile failed: " + out)


def theorem_names(prop):
    src = open(os.path.join(COQ, "Properties", prop + ".v")).read()
    return re.findall(r"^\s*(?:Theorem|Example)\s+([A-Za-z0-9_']+)", src, re.M)


STD_AXIOMS_OK = {
    # standard-library axioms that may appear; each is named in DESIGN.md section 5
    "functional_extensionality_dep", "proof_irrelevance", "classic",
    "propositional_extensionality", "JMeq_eq", "eq_rect_eq",
}


class Obligation:
    def __init__(self, name, kind, okay, detail=""):
        self.name, self.kind, self.ok, self.detail = name, kind, okay, detail

    def as_json(self):
        return {"name": self.name, "kind": self.kind, "ok": self.ok,
                "detail": self.detail[-2000:]}


def build_property(prop, extract=True, jobs=8, runners=(), facts=("tables", "parser")):
    """Regenerate facts, build the cone of Properties/<prop>.vo and the runner.
    Returns a list of Obligation (translator, forbidden vernacular, each
    theorem with its axioms, the runner build)."""
    obs = []
    with BuildLock():
        # 1. translator
        rc, out = sh(f"{PY} {VERIF}/tr/gen_facts.py", timeout=300,
                     env=dict(os.environ, PYTHONPATH=REPO, PYTHONDONTWRITEBYTECODE="1",
                              PYTHONHASHSEED="0"))
        try:
            status = json.load(open(os.path.join(BUILD, "facts_status.json")))
        except Exception:  # noqa
            status = {}
        for fact in facts:
            st = status.get(fact, "plugin did not run: " + out[-500:])
            obs.append(Obligation(f"translator tr/facts_{fact}.py", "translator",
                                  rc == 0 and st == "ok", "" if st == "ok" else st))
        # 2. forbidden vernacular anywhere in the development
        bad = []
        for f in coq_sources():
            txt = open(os.path.join(COQ, f)).read()
            txt = re.sub(r"\(\*.*?\*\)", "", txt, flags=re.S)
            for m in FORBIDDEN.finditer(txt):
                bad.append(f"{f}: {m.group(0)}")
        obs.append(Obligation("no Admitted/Axiom/Parameter/unset checks in coq/", "hygiene",
                              not bad, "; ".join(bad)))
        # 3. make
        ensure_makefile()
        targets = [f"Properties/{prop}.vo"]
        exes = ([prop] if extract else []) + list(runners)
        for x in exes:
            targets.append(f"Extract/Ex{x}.vo")
            os.makedirs(os.path.join(VERIF, "ocaml", x), exist_ok=True)
        rc, out = sh(f"timeout 1500 make -j{jobs} {' '.join(targets)}", cwd=COQ, timeout=1600)
        build_ok = rc == 0
        err = ""
        if not build_ok:
            m = re.search(r'File "([^"]+)", line (\d+).*?\n(Error:.*?)(?:\nmake|\Z)', out, re.S)
            err = (m.group(0) if m else out)[-3000:]
        obs.append(Obligation(f"make {' '.join(targets)}", "build", build_ok, err))
        names = theorem_names(prop)
        if build_ok:
            # 4. Print Assumptions for every theorem of the property file
            os.makedirs(BUILD, exist_ok=True)
            af = os.path.join(BUILD, f"assump_{prop}.v")
            with open(af, "w") as f:
                f.write(f"From CL Require Import Properties.{prop}.\n")
                for n in names:
                    f.write(f'Goal True. idtac "@@ {n}". Abort.\nPrint Assumptions {n}.\n')
            rc, out = sh(f"timeout 300 coqc -Q {COQ} CL {af}", cwd=BUILD)
            chunks = re.split(r"^@@ ", out, flags=re.M)[1:]
            seen = {}
            for ch in chunks:
                name, _, rest = ch.partition("\n")
                seen[name.strip()] = rest.strip()
            for n in names:
                rest = seen.get(n)
                if rest is None:
                    obs.append(Obligation(n, "theorem", False, "no Print Assumptions output: " + out[-500:]))
                    continue
                if rest.startswith("Closed under the global context"):
                    obs.append(Obligation(n, "theorem", True, "Closed under the global context"))
                else:
                    axs = re.findall(r"^([A-Za-z0-9_.']+)\s*:", rest, re.M)
                    short = {a.split(".")[-1] for a in axs}
                    okay = bool(axs) and short <= STD_AXIOMS_OK
                    obs.append(Obligation(n, "theorem", okay, "Axioms: " + ", ".join(axs)))
        else:
            for n in names:
                obs.append(Obligation(n, "theorem", False, "cone did not build"))
        # 5. runner
        for x in (exes if build_ok else []):
            d = os.path.join(VERIF, "ocaml", x)
            ml = os.path.join(d, "model.ml")
            exe = os.path.join(BIN, "model_" + x)
            drv = os.path.join(VERIF, "ocaml", "driver.ml")
            need = (not os.path.exists(exe)
                    or os.path.getmtime(exe) < max(os.path.getmtime(ml), os.path.getmtime(drv)))
            if need:
                os.makedirs(BIN, exist_ok=True)
                rc, out = sh(f"cp {drv} {d}/driver.ml && cd {d} && "
                             f"ocamlfind ocamlopt -w -a model.mli model.ml driver.ml -o {exe}",
                             timeout=600)
                obs.append(Obligation(f"ocamlopt model runner {x}", "build", rc == 0, out))
    return obs


class Model:
    """Batch interface to the extracted runner of one property."""

    def __init__(self, prop):
        self.exe = os.path.join(BIN, "model_" + prop)

    def call(self, requests, chunk=4000, timeout=600):
        """requests: list of (f, payload); returns list of decoded sx."""
        out = []
        for i in range(0, len(requests), chunk):
            part = requests[i:i + chunk]
            data = "".join(f"{f} {sx_dump(x)}\n" for f, x in part)
            p = subprocess.run(["bash", "-c", f"ulimit -s unlimited; exec {self.exe}"],
                               input=data, stdout=subprocess.PIPE,
                               stderr=subprocess.PIPE, text=True, timeout=timeout)
            lines = p.stdout.split("\n")
            if p.returncode != 0 or len(lines) < len(part):
                raise RuntimeError(f"model runner failed rc={p.returncode}: {p.stderr[-500:]}")
            out.extend(sx_load(l) for l in lines[:len(part)])
        return out


# ---------------------------------------------------------------- verdict ---
def load_known(prop):
    p = os.path.join(VERIF, "known_findings.json")
    if not os.path.exists(p):
        return []
    data = json.load(open(p))
    return [f for f in data.get("findings", []) if f["property"] == prop]


class Check:
    def __init__(self, prop, tier, seed):
        self.prop, self.tier, self.seed = prop, tier, seed
        self.t0 = time.time()
        self.rng = random.Random(seed * 1000003 + int(prop[1:]))
        self.obligations = []
        self.suites = []          # dicts: name, cases, distinct, disagreements
        self.samples = []
        self.failures = []        # oracle failures: dict(signature, case, detail)
        self.disagreements = []   # correspondence: dict(suite, case, model, impl)
        self.known = load_known(prop)
        self.known_seen = {}
        self.evaluations = 0
        self.distinct = set()
        self.notes = []
        self.assumptions = []
        self.trusted = []
        self.histograms = {}

    @property
    def thorough(self):
        return self.tier == "thorough"

    def n(self, quick, thorough):
        return thorough if self.thorough else quick

    def add_obligations(self, obs):
        self.obligations.extend(obs)

    def sample(self, x, cap=6):
        if len(self.samples) < cap:
            self.samples.append(x)

    def count(self, key):
        self.evaluations += 1
        self.distinct.add(hashlib.sha1(repr(key).encode()).digest()[:8])

    def hist(self, name, key):
        h = self.histograms.setdefault(name, {})
        h[str(key)] = h.get(str(key), 0) + 1

    # correspondence ---------------------------------------------------
    def correspond(self, suite, cases, impl_outs, model_outs, describe=None, classify=None):
        """Compare implementation and model outputs case by case.
        classify(case) -> None | signature | ('violation', detail): asks the
        implementation-only oracle about a disagreeing input."""
        dis = 0
        for c, a, b in zip(cases, impl_outs, model_outs):
            if a != b:
                dis += 1
                if len(self.disagreements) < 20:
                    self.disagreements.append({
                        "suite": suite, "case": describe(c) if describe else c,
                        "impl": a, "model": b,
                        "oracle": classify(c) if classify else None})
        self.suites.append({"name": suite, "cases": len(cases), "disagreements": dis})
        self.obligations.append(Obligation(f"correspondence {suite} ({len(cases)} cases)",
                                           "correspondence", dis == 0,
                                           f"{dis} disagreements"))
        return dis

    # oracle -------------------------------------------------------------
    def fail(self, signature, case, detail):
        """An implementation-only oracle found an input on which the property fails."""
        for k in self.known:
            if k["signature"] == signature:
                self.known_seen.setdefault(signature, {"finding": k, "case": case, "n": 0})["n"] += 1
                return
        if len(self.failures) < 50:
            self.failures.append({"signature": signature, "case": case, "detail": detail})

    def replay_path(self, kind):
        d = os.path.join(VERIF, "replays")
        os.makedirs(d, exist_ok=True)
        return os.path.join(d, f"{self.prop}-{self.tier}-{self.seed}-{kind}.json")

    def finish(self, level="proof", rule="", checker_cmd=""):
        wall = time.time() - self.t0
        broken = [o for o in self.obligations if not o.ok]
        violations = 0
        lines = []
        for sig, info in sorted(self.known_seen.items()):
            desc = " ".join(str(info['finding']['description']).split())
            lines.append(f"KNOWN-FINDING: property={self.prop} {desc} "
                         f"[{sig}; {info['n']} case(s) this run]")
        if self.failures:
            violations = len(self.failures)
            path = self.replay_path("violation")
            json.dump({"property": self.prop, "seed": self.seed, "tier": self.tier,
                       "kind": "failing-input", "failures": self.failures,
                       "broken_obligations": [o.as_json() for o in broken]},
                      open(path, "w"), indent=1, default=str)
            lines.append(f"VIOLATION property={self.prop} replay={path}")
        elif broken:
            # a disagreement whose input the oracle classifies as failing is a failing input
            failing = [d for d in self.disagreements
                       if isinstance(d.get("oracle"), (list, tuple)) and d["oracle"][0] == "violation"]
            violations = 1
            path = self.replay_path("obligation")
            json.dump({"property": self.prop, "seed": self.seed, "tier": self.tier,
                       "kind": "failing-input" if failing else "obligation-no-longer-checks",
                       "broken_obligations": [o.as_json() for o in broken],
                       "disagreements": self.disagreements},
                      open(path, "w"), indent=1, default=str)
            if failing:
                lines.append(f"VIOLATION property={self.prop} replay={path}")
            else:
                lines.append(f"VIOLATION property={self.prop} replay={path} no-failing-input-found")
        thms = [o for o in self.obligations if o.kind == "theorem"]
        axioms = sorted({o.detail for o in thms if o.detail.startswith("Axioms")})
        ev = {
            "property_id": self.prop,
            "tier": self.tier,
            "seed": self.seed,
            "level": level,
            "coverage": {
                "obligations": len(self.obligations),
                "discharged": len(self.obligations) - len(broken),
                "checker_cmd": checker_cmd or
                    f"make -C coq Properties/{self.prop}.vo (coqc 8.16.1, full .vo build) + "
                    f"Print Assumptions on every theorem of Properties/{self.prop}.v",
                "trusted_base": [
                    "Coq 8.16.1 kernel incl. vm_compute (no native_compute)",
                    "axioms: " + ("; ".join(axioms) if axioms else "none (every theorem closed under the global context)"),
                    "tr/gen_facts.py (translator of regexes, tables, constants; validated by suite RX)",
                    "extraction: ExtrOcamlBasic only, no Extract Constant of ours; ocaml/driver.ml",
                    "correspondence harness (generators, canonicalisers) in harness/",
                ] + self.trusted,
                "theorems": [o.as_json() for o in thms],
                "obligation_list": [o.as_json() for o in self.obligations if o.kind != "theorem"],
                "evaluations": self.evaluations,
                "distinct_nontrivial": len(self.distinct),
                "rule": rule,
                "samples": self.samples or ["(no sample recorded)"],
                "suites": self.suites,
                "traces_validated_against_impl": sum(s["cases"] for s in self.suites),
                "histograms": self.histograms,
                "known_findings_replayed": {k: v["n"] for k, v in self.known_seen.items()},
                "notes": self.notes,
            },
            "assumptions": self.assumptions,
            "wall_s": round(wall, 2),
            "violations": violations,
        }
        # runs against a scratch copy (VERIF_REPO) must not overwrite the evidence of /repo
        evdir = os.path.join(VERIF, "evidence") if REPO == "/repo" else os.path.join(BUILD, "evidence_scratch")
        os.makedirs(evdir, exist_ok=True)
        with open(os.path.join(evdir, self.prop + ".json"), "w") as f:
            json.dump(ev, f, indent=1, default=str)
        for l in lines:
            print(l)
        print(f"{self.prop} {self.tier}: obligations {len(self.obligations) - len(broken)}/"
              f"{len(self.obligations)}, evaluations {self.evaluations}, "
              f"distinct {len(self.distinct)}, {wall:.1f}s, "
              f"{'VIOLATION' if violations else 'ok'}")
        for o in broken:
            print(f"  broken: [{o.kind}] {o.name}: {o.detail[-400:]}")
        return 1 if violations else 0
