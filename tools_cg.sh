#!/bin/bash
# usage: tools_cg.sh FILE LINE  -- show the proof state after line LINE of FILE (relative to /verif/coq)
cd /verif/coq
f=$1; n=$2
tmp=$(dirname $f)/_cg_tmp.v
head -n $n $f > $tmp
echo 'Show.' >> $tmp
timeout 120 coqc -Q . CL -w -notation-overridden $tmp 2>&1 | grep -v 'There are pending proofs\|^Error: There are' | head -${3:-60}
rm -f $tmp $(dirname $f)/_cg_tmp.vo $(dirname $f)/_cg_tmp.glob $(dirname $f)/._cg_tmp.aux $(dirname $f)/_cg_tmp.vok $(dirname $f)/_cg_tmp.vos
