(* Model of compare_locales/checks/fluent.py (ReferenceMessageVisitor,
   L10nMessageVisitor, TermVisitor, GenericL10nChecks, FluentChecker), of
   checks/base.py (Checker.check, CSSCheckMixin.parse_css_spec / check_style) and
   of plurals.get_plural, over the AST of Model/Ftl.v.

   Every literal (severities, MSGS templates, "style", "other", the CSS texts,
   the plural tables) and the three regular expressions come from
   Generated/C08Facts.v and Generated/RxC08.v, regenerated from /repo on every
   run.  Definitions only; proofs are in Proofs/CheckFluentProofs.v. *)
From Coq Require Import ZArith NArith List Bool Arith.
From CL Require Import Base.Sx Base.Res Base.Str Regex.Rx Generated.RxC08 Generated.C08Facts
  Model.Ftl.
Import ListNotations.

(* ---- small Python helpers ---------------------------------------------------- *)
(* template.format(...) / template % (...) *)
Definition render (t : tpl) (args : list str) : str :=
  flat_map (fun p => match p with inl s => s | inr i => nth i args [] end) t.

(* sep.join(l) *)
Fixpoint join (sep : str) (l : list str) : str :=
  match l with
  | [] => []
  | x :: l' => match l' with [] => x | _ => x ++ sep ++ join sep l' end
  end.

Definition mem_str (s : str) (l : list str) : bool := existsb (str_eqb s) l.

Definition ostr_eqb (a b : option str) : bool :=
  match a, b with
  | None, None => true
  | Some x, Some y => str_eqb x y
  | _, _ => false
  end.

(* a Python dict: association list in insertion order; assignment to an existing
   key keeps its position *)
Section Dict.
Context {K V : Type} (eqb : K -> K -> bool).
Fixpoint dset (k : K) (v : V) (m : list (K * V)) : list (K * V) :=
  match m with
  | [] => [(k, v)]
  | (k', v') :: m' => if eqb k k' then (k', v) :: m' else (k', v') :: dset k v m'
  end.
Fixpoint dget (k : K) (m : list (K * V)) : option V :=
  match m with
  | [] => None
  | (k', v') :: m' => if eqb k k' then Some v' else dget k m'
  end.
Fixpoint ddel (k : K) (m : list (K * V)) : list (K * V) :=
  match m with
  | [] => []
  | (k', v') :: m' => if eqb k k' then m' else (k', v') :: ddel k m'
  end.
Definition dhas (k : K) (m : list (K * V)) : bool :=
  match dget k m with Some _ => true | None => false end.
End Dict.

(* lexicographic order of str by code point: the order of sorted() on strings *)
Fixpoint str_ltb (a b : str) : bool :=
  match a, b with
  | _, [] => false
  | [], _ :: _ => true
  | x :: a', y :: b' => N.ltb x y || (N.eqb x y && str_ltb a' b')
  end.

(* sorted(a set of strings): ascending, every element once *)
Fixpoint insert_str (x : str) (l : list str) : list str :=
  match l with
  | [] => [x]
  | y :: l' => if str_ltb x y then x :: l
               else if str_eqb x y then l
               else y :: insert_str x l'
  end.
Definition sorted_set (l : list str) : list str := fold_right insert_str [] l.

(* ---- messages ------------------------------------------------------------------ *)
(* the append site a message comes from; not part of the Python tuple, carried so
   that theorems can speak about classes of messages without parsing texts *)
Inductive kind :=
| KDupAttr | KDupVariant | KPlural
| KObsValue | KMissValue | KMissAttr | KObsAttr
| KObsRef (term : bool) | KMissRef (term : bool)
| KCss.

(* (cat, pos, msg) *)
Record msg := mkmsg {
  m_err : bool;                 (* cat == "error" *)
  m_pos : nat;
  m_text : str;
  m_kind : kind
}.

Definition emit (y : site) (k : kind) (pos : nat) (args : list str) : msg :=
  mkmsg (fst y) pos (render (snd y) args) k.

Definition has_error (l : list msg) : bool := existsb m_err l.

(* ---- plurals.get_plural --------------------------------------------------------- *)
Fixpoint lookup_str {V : Type} (k : str) (m : list (str * V)) : option V :=
  match m with
  | [] => None
  | (k', v) :: m' => if str_eqb k k' then Some v else lookup_str k m'
  end.

(* locale.split("-", 1)[0] *)
Fixpoint before_dash (s : str) : str :=
  match s with
  | [] => []
  | c :: s' => if N.eqb c 45 then [] else c :: before_dash s'
  end.

Definition get_plural_rule (locale : option str) : option nat :=
  match locale with
  | None => None
  | Some l =>
      match lookup_str l categories_by_locale with
      | Some i => Some i
      | None => lookup_str (before_dash l) categories_by_locale
      end
  end.

(* CATEGORIES_BY_INDEX[plural_form] can raise IndexError *)
Definition get_plural (locale : option str) : result (option (list str)) :=
  match get_plural_rule locale with
  | None => Ok None
  | Some i =>
      match nth_error categories_by_index i with
      | Some c => Ok (Some c)
      | None => Raise IndexError
      end
  end.

(* ---- GenericL10nChecks ------------------------------------------------------------ *)
(* The loop shared by check_duplicate_attributes and check_variants:
     warned = set()
     for left in range(len(items) - 1):
         if left in warned: continue
         warned_left = False            (key_string = None)
         for right in range(left + 1, len(items)):
             if equal(items[left], items[right]):
                 if not warned_left: warned_left = True; append(left site)
                 warned.add(right); append(right site)
   An item is (what is compared, span start).  The result lists
   (is it the left site, position, the LEFT item) in append order.  The last index
   is never `left` in Python; its inner loop would be empty, as it is here. *)
Section Dup.
Context {T : Type} (eqb : T -> T -> bool).

Fixpoint dup_inner (left : T * nat) (right : nat) (rest : list (T * nat))
         (warned_left : bool) (warned : list nat)
  : list (bool * nat * T) * list nat :=
  match rest with
  | [] => ([], warned)
  | r :: rest' =>
      if eqb (fst left) (fst r) then
        let first := if warned_left then [] else [(true, snd left, fst left)] in
        let (out, w) := dup_inner left (S right) rest' true (right :: warned) in
        (first ++ (false, snd r, fst left) :: out, w)
      else dup_inner left (S right) rest' warned_left warned
  end.

Fixpoint dup_outer (left : nat) (items : list (T * nat)) (warned : list nat)
  : list (bool * nat * T) :=
  match items with
  | [] => []
  | it :: rest =>
      if existsb (Nat.eqb left) warned then dup_outer (S left) rest warned
      else let (out, w) := dup_inner it (S left) rest false warned in
           out ++ dup_outer (S left) rest w
  end.

Definition dups (items : list (T * nat)) : list (bool * nat * T) := dup_outer 0 items [].
End Dup.

(* check_duplicate_attributes(node) *)
Definition dup_attr_msgs (attrs : list attribute) : list msg :=
  map (fun x => match x with (isleft, pos, name) =>
         emit (if isleft : bool then y_dup_attr_left else y_dup_attr_right) KDupAttr pos [name] end)
      (dups str_eqb (map (fun a => (a_name a, a_pos a)) attrs)).

(* BaseNode.equals on variant keys: same class and same name / value *)
Definition vkey_eqb (a b : vkey) : bool :=
  match a, b with
  | KId x, KId y => str_eqb x y
  | KNum x, KNum y => str_eqb x y
  | _, _ => false
  end.

(* serialize_variant_key *)
Definition key_string (k : vkey) : str :=
  match k with KId n => n | KNum v => v end.

Definition dup_variant_msgs (keys : list (vkey * nat)) : list msg :=
  map (fun x => match x with (isleft, pos, k) =>
         emit (if isleft : bool then y_dup_variant_left else y_dup_variant_right) KDupVariant pos
              [key_string k] end)
      (dups vkey_eqb keys).

(* the plural part of check_variants; [known] = plurals.get_plural(self.locale) *)
Definition plural_msgs (known : option (list str)) (keys : list (vkey * nat)) : list msg :=
  match known with
  | None => []
  | Some [] => []                                   (* if known_plurals: *)
  | Some kp =>
      let check := filter (fun c => negb (str_eqb c s_other)) kp in
      let given := map (fun k => key_string (fst k)) keys in
      if existsb (fun g => mem_str g check) given then      (* given_plurals & check_plurals *)
        let missing := sorted_set (filter (fun c => negb (mem_str c given)) kp) in
        match missing, keys with
        | _ :: _, (_, p0) :: _ => [emit y_missing_plural KPlural p0 [join s_comma missing]]
        | _, _ => []            (* no key: given is empty, the test above failed *)
        end
      else []
  end.

Definition check_variants (known : option (list str)) (keys : list (vkey * nat)) : list msg :=
  dup_variant_msgs keys ++ plural_msgs known keys.

(* ---- CSSCheckMixin ---------------------------------------------------------------- *)
(* running out of engine fuel is excluded by RxLemmas.rmatch_no_fuel /
   rfinditer_no_fuel (Properties/C08.v: C08_css_total) *)
Definition omatch (r : rx) (s : str) (off : nat) : option mres :=
  match rmatch r s off with MSome x => Some x | _ => None end.

(* prop -> unit; m.group("unit") is a str or None *)
Definition cssmap := list (str * option str).
Inductive css_code := BadContent | MissingSemicolon.
Definition css_errs := list (nat * css_code).

Definition or_nil {T : Type} (o : option (list T)) : list T :=       (* x or [] / x or {} *)
  match o with Some l => l | None => [] end.

Definition group_text (val : str) (g : nat) (x : mres) : option str :=
  match group g x with
  | Some (a, b) => Some (slice val a b)
  | None => None
  end.

(* the body of `for m in self._css_spec.finditer(val)` *)
Fixpoint css_loop (val : str) (ms : list mres) (end_ : nat)
         (refMap : option cssmap) (errors : option css_errs)
  : option cssmap * option css_errs :=
  match ms with
  | [] => (refMap, errors)
  | x :: ms' =>
      if (end_ =? 0) && (m_start x =? m_end x) then (None, None)
      else
        let errors :=
          if end_ <? m_start x then
            (* self._css_sep.match(val, end, m.start()) *)
            match omatch rx_c08_css_sep (firstn (m_start x) val) end_ with
            | None => Some (or_nil errors ++ [(end_, BadContent)])
            | Some sp =>
                match group g_c08_css_sep_semi sp with
                | None => if 0 <? end_ then Some (or_nil errors ++ [(end_, MissingSemicolon)])
                          else errors
                | Some _ => errors
                end
            end
          else errors in
        let refMap :=
          match group_text val g_c08_css_spec_prop x with
          | Some (c :: prop) =>                                    (* if m.group("prop"): *)
              Some (dset str_eqb (c :: prop) (group_text val g_c08_css_spec_unit x) (or_nil refMap))
          | _ => refMap
          end in
        css_loop val ms' (m_end x) refMap errors
  end.

Definition parse_css_spec (val : str) : option cssmap * option css_errs :=
  match rfinditer rx_c08_css_spec val with
  | Some ms => css_loop val ms 0 None None
  | None => (None, None)                     (* engine fuel; never, see above *)
  end.

(* "%s" % unit *)
Definition unit_str (u : option str) : str :=
  match u with Some s => s | None => s_None end.

(* for prop, unit in l10n_map.items(): ...  (ref_map.pop mutates the dict passed in) *)
Fixpoint css_l10n_loop (l10n ref_map : cssmap) (msgs : list str) : cssmap * list str :=
  match l10n with
  | [] => (ref_map, msgs)
  | (prop, unit) :: rest =>
      match dget str_eqb prop ref_map with
      | None => css_l10n_loop rest ref_map (render t_only_l10n [prop] :: msgs)
      | Some ref_unit =>
          css_l10n_loop rest (ddel str_eqb prop ref_map)
            (if ostr_eqb unit ref_unit then msgs
             else msgs ++ [render t_units [prop; unit_str unit; unit_str ref_unit]])
      end
  end.

Definition css_bad (l10n_map : option cssmap) (errors : option css_errs) : bool :=
  match l10n_map, errors with
  | None, _ | Some [], _ => true                    (* if not l10n_map *)
  | _, Some (_ :: _) => true                        (* if errors *)
  | _, _ => false
  end.

(* check_style(ref_map, l10n_map, errors) consumed to the end: the (cat, pos, msg)
   tuples and the dict object [ref_map] as it is afterwards *)
Definition check_style (ref_map : cssmap) (l10n_map : option cssmap) (errors : option css_errs)
  : list msg * cssmap :=
  match l10n_map with
  | None | Some [] => ([emit y_css_no_map KCss 0 []], ref_map)
  | Some lm =>
      match errors with
      | Some (_ :: _) => ([emit y_css_errors KCss 0 []], ref_map)
      | _ =>
          let (ref_map', msgs) := css_l10n_loop lm ref_map [] in
          let msgs := fold_left (fun acc p => render t_only_ref [fst p] :: acc) ref_map' msgs in
          (match msgs with
           | [] => []
           | _ => [mkmsg sev_css_warning 0 (join s_comma msgs) KCss]
           end, ref_map')
      end
  end.

(* ---- ReferenceMessageVisitor -------------------------------------------------------- *)
(* ref name -> true for "term-ref", false for "msg-ref" *)
Definition refdict := list (str * bool).

(* css_styles: "skip" | None | dict *)
Inductive css_styles := CssSkip | CssVal (m : option cssmap).

Record rstate := mkr {
  r_refs : list (option str * refdict);       (* entry_refs; key None = the value *)
  r_has_value : bool;                         (* message_has_value *)
  r_attr_pos : list (str * nat);              (* attribute_positions *)
  r_css : css_styles;
  r_css_err : option css_errs
}.

Definition msg_ref_name (id : str) (attr : option str) : str :=
  match attr with Some a => id ++ s_dot ++ a | None => id end.
Definition term_ref_name (id : str) : str := s_dash ++ id.

(* visit_MessageReference / visit_TermReference on the active dict self.refs *)
Definition rvisit_event (d : refdict) (e : event) : refdict :=
  match e with
  | EvMsgRef _ id attr => dset str_eqb (msg_ref_name id attr) false d
  | EvTermRef _ id attr =>
      match attr with
      | Some _ => d
      | None => dset str_eqb (term_ref_name id) true d
      end
  | EvSelect _ => d
  end.

(* defaultdict access entry_refs[k] *)
Definition dict_at {V : Type} (k : option str) (m : list (option str * list V)) : list V :=
  match dget ostr_eqb k m with Some d => d | None => [] end.

(* the part of visit_Attribute after the traversal: the `style` attribute *)
Definition style_of (a : attribute) (css : css_styles) (err : option css_errs)
  : css_styles * option css_errs :=
  if negb (str_eqb (a_name a) s_style) then (css, err)
  else match pattern_variants (a_value a) with
       | None => (CssSkip, err)
       | Some t => let (m, e) := parse_css_spec t in (CssVal m, e)
       end.

Definition rvisit_attr (st : rstate) (a : attribute) : rstate :=
  let k := Some (a_name a) in
  let d := fold_left rvisit_event (walk_pattern false (a_value a)) (dict_at k (r_refs st)) in
  let (css, err) := style_of a (r_css st) (r_css_err st) in
  mkr (dset ostr_eqb k d (r_refs st)) (r_has_value st)
      (dset str_eqb (a_name a) (a_pos a) (r_attr_pos st)) css err.

Definition events_of_value (deep : bool) (e : entry) : list event :=
  match e_value e with Some (_, p) => walk_pattern deep p | None => [] end.

Definition is_some {T : Type} (o : option T) : bool :=
  match o with Some _ => true | None => false end.

(* ReferenceMessageVisitor().visit(entry).  A Term has no visit_Term here: it is
   walked by generic_visit, message_has_value stays False *)
Definition rvisit (e : entry) : rstate :=
  let d := fold_left rvisit_event (events_of_value false e) [] in
  fold_left rvisit_attr (e_attrs e)
    (mkr [(None, d)] (negb (e_term e) && is_some (e_value e)) [] (CssVal None) None).

(* ---- L10nMessageVisitor ---------------------------------------------------------------- *)
Record lstate := mkl {
  l_refs : list (option str * list str);      (* entry_refs: sets of names *)
  l_attr_pos : list (str * nat);
  l_msgs : list msg;
  l_ref_css : css_styles                      (* self.reference.css_styles (check_style pops from it) *)
}.

Definition set_add (s : str) (l : list str) : list str :=
  if mem_str s l then l else l ++ [s].

(* check_obsolete_ref *)
Definition obsolete_ref (rrefs : refdict) (pos : nat) (ref : str) (term : bool) : list msg :=
  if dhas str_eqb ref rrefs then []
  else [emit (if term then y_obsolete_term_ref else y_obsolete_msg_ref) (KObsRef term) pos [ref]].

(* one handler call; [rrefs] = self.reference_refs, acc = (self.refs, self.messages) *)
Definition lvisit_event (known : option (list str)) (rrefs : refdict)
           (acc : list str * list msg) (e : event) : list str * list msg :=
  match e with
  | EvMsgRef p id attr =>
      let ref := msg_ref_name id attr in
      (set_add ref (fst acc), snd acc ++ obsolete_ref rrefs p ref false)
  | EvTermRef p id attr =>
      match attr with
      | Some _ => acc
      | None =>
          let ref := term_ref_name id in
          (set_add ref (fst acc), snd acc ++ obsolete_ref rrefs p ref true)
      end
  | EvSelect keys => (fst acc, snd acc ++ check_variants known keys)
  end.

(* the `style` part of L10nMessageVisitor.visit_Attribute *)
Definition lstyle (a : attribute) (ref_css : css_styles) : list msg * css_styles :=
  if negb (str_eqb (a_name a) s_style) then ([], ref_css)
  else match pattern_variants (a_value a) with
       | None => ([], ref_css)                       (* css_styles == "skip" *)
       | Some t =>
           let (m, e) := parse_css_spec t in
           match ref_css with
           | CssVal (Some d) =>
               let (out, d') := check_style d m e in (out, CssVal (Some d'))
           | _ =>                                    (* ref_styles in ("skip", None): a fresh {} *)
               (fst (check_style [] m e), ref_css)
           end
       end.

Definition lvisit_attr (known : option (list str)) (R : rstate) (st : lstate) (a : attribute)
  : lstate :=
  let k := Some (a_name a) in
  let (s, ms) := fold_left (lvisit_event known (dict_at k (r_refs R)))
                           (walk_pattern false (a_value a)) (dict_at k (l_refs st), l_msgs st) in
  let (out, rc) := lstyle a (l_ref_css st) in
  mkl (dset ostr_eqb k s (l_refs st)) (dset str_eqb (a_name a) (a_pos a) (l_attr_pos st))
      (ms ++ out) rc.

(* the checks at the end of visit_Message.  `for x in ref_attrs - l10n_attrs`
   iterates a set of strings: Python fixes no order (it depends on the string
   hashes); the model uses the dict order of the side the names come from and the
   harness compares such runs as multisets. *)
Definition value_msgs (R : rstate) (l : entry) : list msg :=
  match e_value l, r_has_value R with
  | Some (vpos, _), false => [emit y_obsolete_value KObsValue vpos []]
  | None, true => [emit y_missing_value KMissValue 0 []]
  | _, _ => []
  end.

Definition attr_msgs (rpos lpos : list (str * nat)) : list msg :=
  flat_map (fun p => if dhas str_eqb (fst p) lpos then []
                     else [emit y_missing_attribute KMissAttr 0 [fst p]]) rpos
  ++ flat_map (fun p => if dhas str_eqb (fst p) rpos then []
                        else [emit y_obsolete_attribute KObsAttr (snd p) [fst p]]) lpos.

(* L10nMessageVisitor(locale, R).visit(l) for a Message l *)
Definition lvisit (known : option (list str)) (R : rstate) (l : entry) : lstate :=
  let (s, ms) := fold_left (lvisit_event known (dict_at None (r_refs R)))
                           (events_of_value false l) ([], dup_attr_msgs (e_attrs l)) in
  let st := fold_left (lvisit_attr known R) (e_attrs l) (mkl [(None, s)] [] ms (r_css R)) in
  mkl (l_refs st) (l_attr_pos st)
      (l_msgs st ++ value_msgs R l ++ attr_msgs (r_attr_pos R) (l_attr_pos st)) (l_ref_css st).

(* ---- FluentChecker ------------------------------------------------------------------------ *)
Definition missing_ref_msgs (rrefs : list (option str * refdict))
           (lrefs : list (option str * list str)) : list msg :=
  flat_map (fun kd =>
    flat_map (fun rt =>
      if mem_str (fst rt) (dict_at (fst kd) lrefs) then []
      else [emit (if snd rt : bool then y_missing_term_ref else y_missing_msg_ref)
                 (KMissRef (snd rt)) 0 [fst rt]]) (snd kd)) rrefs.

Definition check_message (known : option (list str)) (r l : entry) : list msg :=
  let R := rvisit r in
  let Lst := lvisit known R l in
  l_msgs Lst ++ missing_ref_msgs (r_refs R) (l_refs Lst).

(* TermVisitor: generic_visit of the Term (id, value, attributes), check_variants
   after the children of every SelectExpression *)
Definition term_events (l : entry) : list event :=
  events_of_value true l ++ flat_map (fun a => walk_pattern true (a_value a)) (e_attrs l).

Definition term_event_msgs (known : option (list str)) (e : event) : list msg :=
  match e with
  | EvSelect keys => check_variants known keys
  | _ => []
  end.

Definition check_term (known : option (list str)) (l : entry) : list msg :=
  dup_attr_msgs (e_attrs l) ++ flat_map (term_event_msgs known) (term_events l).

(* messages.sort(key=lambda t: t[1]): a stable sort on the position *)
Fixpoint insert_msg (x : msg) (s : list msg) : list msg :=
  match s with
  | [] => [x]
  | y :: s' => if m_pos y <? m_pos x then y :: insert_msg x s' else x :: y :: s'
  end.
Definition sort_msgs (l : list msg) : list msg := fold_right insert_msg [] l.

(* what check() yields: (cat, pos, msg, category); pos is an EntityPos for the
   encoding check of the base class *)
Record issue := mkissue {
  i_err : bool;
  i_entitypos : bool;
  i_pos : Z;
  i_text : str;
  i_cat : str
}.

(* if pos: pos = pos - l10n_entry.span.start *)
Definition rebase (start : nat) (m : msg) : issue :=
  mkissue (m_err m) false
          (match m_pos m with O => 0%Z | p => (Z.of_nat p - Z.of_nat start)%Z end)
          (m_text m) s_cat_fluent.

(* Checker.check of checks/base.py: U+FFFD in l10nEnt.all *)
Definition encoding_issues (all key : str) : result (list issue) :=
  match rfinditer rx_c08_mochibake all with
  | None => Raise OutOfFuel
  | Some ms => Ok (map (fun x => mkissue (fst y_encoding) true (Z.of_nat (m_start x))
                                         (render (snd y_encoding) [key]) s_cat_encodings) ms)
  end.

Definition entry_msgs (known : option (list str)) (r l : entry) : list msg :=
  if e_term l then check_term known l else check_message known r l.

(* FluentChecker.check(refEnt, l10nEnt): [all], [key] are l10nEnt.all / l10nEnt.key.
   get_plural is evaluated by the first check_variants call in Python and at once
   here; it cannot raise on the generated tables (C08_plural_total). *)
Definition check (locale : option str) (r l : entry) (all key : str) : result (list issue) :=
  do enc <- encoding_issues all key;
  do known <- get_plural locale;
  Ok (enc ++ map (rebase (e_pos l)) (sort_msgs (entry_msgs known r l))).
