(* Models of the text parsers: parser/base.py Parser.walk / getNext / getJunk,
   and the overrides in properties.py, dtd.py, ini.py, defines.py, po.py.
   The regular expressions are parameters here; Model/ParseFormats.v
   instantiates them with the ASTs generated from the source. *)
From Coq Require Import NArith List Bool Arith.
From CL Require Import Base.Sx Base.Res Base.Str Regex.Rx Model.Entry.
Import ListNotations.

(* regex calls; running out of fuel is excluded by RxLemmas.*_no_fuel *)
Definition omatch (r : rx) (s : str) (off : nat) : option mres :=
  match rmatch r s off with MSome x => Some x | _ => None end.
Definition osearch (r : rx) (s : str) (off : nat) : option mres :=
  match rsearch r s off with MSome x => Some x | _ => None end.
Definition osearch_end (r : rx) (s : str) (off e : nat) : option mres :=
  match rsearch_end r s off e with MSome x => Some x | _ => None end.

Definition mspan (x : mres) : span := (m_start x, m_end x).

Definition s_License : str := of_ascii [76; 105; 99; 101; 110; 115; 101].

(* Comment.val variants, only as far as the License test needs them *)
Inductive comment_style := CPlain | COffset (n : nat) | CDtd.

(* all.split("\n") and "\n".join(...) *)
Fixpoint split_lf (s : str) : list str :=
  match s with
  | [] => [[]]
  | c :: s' =>
      match split_lf s' with
      | l :: ls => if N.eqb c 10%N then [] :: l :: ls else (c :: l) :: ls
      | [] => [[]]
      end
  end.
Definition join_lf (ls : list str) : str :=
  match ls with
  | [] => []
  | l :: rest => l ++ flat_map (fun x => 10%N :: x) rest
  end.

(* OffsetComment.val: "\n".join(line[offset:] for line in self.all.split("\n")) *)
Definition comment_val (st : comment_style) (all : str) : str :=
  match st with
  | CPlain => all
  | COffset n => join_lf (map (skipn n) (split_lf all))
  | CDtd => slice all 4 (length all - 3)
  end.

(* ---- getJunk -------------------------------------------------------------
   junkend = None
   for exp in expressions:
       m = exp.search(contents, offset + 1)
       if m: junkend = min(junkend, m.start()) if junkend else m.start()
   return Junk(ctx, (offset, junkend or len(contents)))                      *)
Definition truthy (o : option nat) : bool :=
  match o with Some (S _) => true | _ => false end.

Fixpoint junk_end (exprs : list rx) (s : str) (off : nat) (junkend : option nat) : option nat :=
  match exprs with
  | [] => junkend
  | r :: rest =>
      match osearch r s (S off) with
      | Some x =>
          let je := if truthy junkend
                    then match junkend with Some j => Some (Nat.min j (m_start x)) | None => None end
                    else Some (m_start x) in
          junk_end rest s off je
      | None => junk_end rest s off junkend
      end
  end.

Definition get_junk (exprs : list rx) (s : str) (off : nat) : entry :=
  let je := junk_end exprs s off None in
  mk_junk (off, if truthy je then match je with Some j => j | None => 0 end else length s).

(* ---- Parser.getNext -------------------------------------------------------- *)
Record fmt := mkfmt {
  f_comment : rx;
  f_ws : rx;
  f_key : rx;
  f_cstyle : comment_style;
  f_license_below : nat;        (* the heuristic applies when offset < this *)
  (* createEntity(ctx, m, current_comment, white_space); None = BadEntity *)
  f_create : str -> mres -> option span -> option span -> option entry;
  f_junk : list rx               (* end-of-junk expressions, in call order *)
}.

Definition get_next_base (F : fmt) (s : str) (offset : nat) : entry :=
  let junk_offset := offset in
  let mc := omatch (f_comment F) s offset in
  let license :=
    match mc with
    | Some x => (offset <? f_license_below F) &&
                contains s_License (comment_val (f_cstyle F) (slice s (m_start x) (m_end x)))
    | None => false
    end in
  match mc, license with
  | Some x, true => mk_comment (mspan x)
  | _, _ =>
      let current_comment := match mc with Some x => Some (mspan x) | None => None end in
      let offset := match mc with Some x => m_end x | None => offset end in
      let mw := omatch (f_ws F) s offset in
      let standalone :=
        match mw, current_comment with
        | Some w, Some _ => 1 <? count_char 10%N (slice s (m_start w) (m_end w))
        | _, _ => false
        end in
      match current_comment, standalone, mw with
      | Some c, true, _ => mk_comment c
      | None, _, Some w => mk_white (mspan w)
      | _, _, _ =>
          let white_space := match mw with Some w => Some (mspan w) | None => None end in
          let offset := match mw with Some w => m_end w | None => offset end in
          let created :=
            match omatch (f_key F) s offset with
            | Some k => f_create F s k current_comment white_space
            | None => None
            end in
          match created with
          | Some e => e
          | None =>
              match current_comment, white_space with
              | Some c, _ => mk_comment c
              | None, Some w => mk_white w
              | None, None => get_junk (f_junk F) s junk_offset
              end
          end
      end
  end.

(* Parser.createEntity *)
Definition create_base (gkey gval : nat) (s : str) (k : mres) (c w : option span) : option entry :=
  Some (mkentry KEntity (mspan k) (group gkey k) (group gval k) c w).

(* ---- walk -------------------------------------------------------------------
   next_offset = 0
   while next_offset < len(contents):
       entity = self.getNext(ctx, next_offset); yield ...; next_offset = entity.span[1] *)
Section Walk.
Context {C : Type} (get_next : C -> str -> nat -> entry * C).

Fixpoint walk_loop (fuel : nat) (c : C) (s : str) (off : nat) : result (list entry) :=
  if off <? length s then
    match fuel with
    | O => Raise OutOfFuel
    | S f =>
        let (e, c') := get_next c s off in
        match walk_loop f c' s (snd (e_span e)) with
        | Ok es => Ok (e :: es)
        | Raise t => Raise t
        end
    end
  else Ok [].

Definition walk (c0 : C) (s : str) : result (list entry) :=
  walk_loop (S (length s)) c0 s 0.

Definition walk_localizable (c0 : C) (s : str) : result (list entry) :=
  match walk c0 s with
  | Ok es => Ok (filter is_localizable es)
  | Raise t => Raise t
  end.
End Walk.

Definition stateless (g : str -> nat -> entry) : unit -> str -> nat -> entry * unit :=
  fun _ s off => (g s off, tt).

(* ---- properties.py PropertiesParser.getNext -------------------------------- *)
Section Properties.
Context (reComment reWs reKey reEscapedEnd reTrailingWS : rx) (gkey : nat).

(* the value loop; returns (endval, startline) *)
Fixpoint value_loop (fuel : nat) (s : str) (offset startline : nat) : nat * nat :=
  match fuel with
  | O => (length s, startline)
  | S f =>
      match find_char 10%N s offset with
      | None => (length s, startline)
      | Some nextline =>
          match osearch_end reEscapedEnd s offset nextline with
          | None => (nextline, startline)
          | Some e =>
              if Nat.even (m_end e - m_start e) then (nextline, startline)
              else value_loop f s (S nextline) (S nextline)
          end
      end
  end.

Definition get_next_properties (s : str) (offset : nat) : entry :=
  let junk_offset := offset in
  let mc := omatch reComment s offset in
  let license :=
    match mc with
    | Some x => Nat.eqb offset 0 &&
                contains s_License (comment_val (COffset 1) (slice s (m_start x) (m_end x)))
    | None => false
    end in
  match mc, license with
  | Some x, true => mk_comment (mspan x)
  | _, _ =>
      let current_comment := match mc with Some x => Some (mspan x) | None => None end in
      let offset := match mc with Some x => m_end x | None => offset end in
      let mw := omatch reWs s offset in
      let standalone :=
        match mw, current_comment with
        | Some w, Some _ => 1 <? count_char 10%N (slice s (m_start w) (m_end w))
        | _, _ => false
        end in
      match current_comment, standalone, mw with
      | Some c, true, _ => mk_comment c
      | None, _, Some w => mk_white (mspan w)
      | _, _, _ =>
          let white_space := match mw with Some w => Some (mspan w) | None => None end in
          let offset := match mw with Some w => m_end w | None => offset end in
          match omatch reKey s offset with
          | Some k =>
              let (endval, startline) := value_loop (S (length s)) s (m_end k) (m_end k) in
              let endval := match osearch reTrailingWS s startline with
                            | Some ws => m_start ws
                            | None => endval
                            end in
              mkentry KEntity (m_start k, endval) (group gkey k) (Some (m_end k, endval))
                      current_comment white_space
          | None =>
              match current_comment, white_space with
              | Some c, _ => mk_comment c
              | None, Some w => mk_white w
              | None, None => get_junk [reKey; reComment] s junk_offset
              end
          end
      end
  end.
End Properties.

(* ---- dtd.py DTDParser ---------------------------------------------------------- *)
Section DTD.
Context (reComment reWs reKey reHeader rePE : rx) (gkey gval gpekey gpeval : nat).

(* valspan = (valspan[0] + 1, valspan[1] - 1) *)
Definition create_dtd (s : str) (k : mres) (c w : option span) : option entry :=
  let v := match group gval k with
           | Some (a, b) => Some (a + 1, b - 1)
           | None => None
           end in
  Some (mkentry KEntity (mspan k) (group gkey k) v c w).

Definition fmt_dtd : fmt :=
  mkfmt reComment reWs reKey CDtd 2 create_dtd [reKey; reComment].

Definition get_next_dtd (s : str) (offset : nat) : entry :=
  let offset :=
    if Nat.eqb offset 0 && match omatch reHeader s 0 with Some _ => true | None => false end
    then offset + 1 else offset in
  let entity := get_next_base fmt_dtd s offset in
  match e_kind entity with
  | KJunk =>
      match omatch rePE s offset with
      | Some x => mkentry KEntity (mspan x) (group gpekey x) (group gpeval x) None None
      | None => entity
      end
  | _ => entity
  end.
End DTD.

(* ---- ini.py IniParser ------------------------------------------------------------ *)
Section Ini.
Context (reComment reWs reKey reSection : rx) (gkey gval gsecval : nat).

Definition fmt_ini : fmt :=
  mkfmt reComment reWs reKey (COffset 1) 2 (create_base gkey gval) [reKey; reComment; reSection].

Definition get_next_ini (s : str) (offset : nat) : entry :=
  match omatch reSection s offset with
  | Some x => mkentry KSection (mspan x) (group gsecval x) (group gsecval x) None None
  | None => get_next_base fmt_ini s offset
  end.
End Ini.

(* ---- defines.py DefinesParser ------------------------------------------------------- *)
Section Defines.
Context (reComment reWs reKey rePI : rx) (gkey gval gpival : nat).

Definition s_filter : str :=
  of_ascii [102; 105; 108; 116; 101; 114; 32; 101; 109; 112; 116; 121; 76; 105; 110; 101; 115].
Definition s_unfilter : str := of_ascii [117; 110] ++ s_filter.

(* the context carries filter_empty_lines *)
Definition get_next_defines (filter_empty : bool) (s : str) (offset : nat) : entry * bool :=
  let junk_offset := offset in
  let mc := omatch reComment s offset in
  let current_comment := match mc with Some x => Some (mspan x) | None => None end in
  let offset := match mc with Some x => m_end x | None => offset end in
  let mw := omatch reWs s offset in
  let bad_blank :=
    match mw with
    | Some w => Nat.eqb offset 0 || negb (Nat.eqb (m_end w - m_start w) 1 || filter_empty)
    | None => false
    end in
  match mw, bad_blank with
  | Some w, true =>
      match current_comment with
      | Some c => (mk_comment c, filter_empty)
      | None => (mk_junk (mspan w), filter_empty)
      end
  | _, _ =>
      let standalone :=
        match mw, current_comment with
        | Some w, Some _ => 1 <? count_char 10%N (slice s (m_start w) (m_end w))
        | _, _ => false
        end in
      match current_comment, standalone, mw with
      | Some c, true, _ => (mk_comment c, filter_empty)
      | None, _, Some w => (mk_white (mspan w), filter_empty)
      | _, _, _ =>
          let white_space := match mw with Some w => Some (mspan w) | None => None end in
          let offset := match mw with Some w => m_end w | None => offset end in
          match omatch reKey s offset with
          | Some k =>
              (mkentry KEntity (mspan k) (group gkey k) (group gval k) current_comment white_space,
               filter_empty)
          | None =>
              match current_comment, white_space with
              | Some c, _ => (mk_comment c, filter_empty)
              | None, Some w => (mk_white w, filter_empty)
              | None, None =>
                  match omatch rePI s offset with
                  | Some x =>
                      let v := group gpival x in
                      let txt := match v with Some (a, b) => slice s a b | None => [] end in
                      let fe := if str_eqb txt s_filter then true
                                else if str_eqb txt s_unfilter then false else filter_empty in
                      (mkentry KInstruction (mspan x) v v None None, fe)
                  | None => (get_junk [reComment; reKey; rePI] s junk_offset, filter_empty)
                  end
              end
          end
      end
  end.
End Defines.

(* ---- po.py PoParser ------------------------------------------------------------------- *)
Section Po.
Context (reComment reWs reKey reListItem : rx).

Definition s_msgctxt : str := of_ascii [109; 115; 103; 99; 116; 120; 116].
Definition s_msgid : str := of_ascii [109; 115; 103; 105; 100].
Definition s_msgstr : str := of_ascii [109; 115; 103; 115; 116; 114].

(* the while-loop of _parse_string_list: spans of group 1 of the items, and the cursor *)
Fixpoint list_items (fuel : nat) (s : str) (cursor : nat) : list span * nat :=
  match fuel with
  | O => ([], cursor)
  | S f =>
      match omatch reListItem s cursor with
      | None => ([], cursor)
      | Some x =>
          let (rest, c') := list_items f s (m_end x) in
          (match group 1 x with Some sp => sp :: rest | None => rest end, c')
      end
  end.

(* None = BadEntity; otherwise the fragment spans and the cursor after the list *)
Definition parse_string_list (s : str) (cursor : nat) (key : str) : option (list span * nat) :=
  if startswith_at key s cursor then
    let (frags, c') := list_items (S (length s)) s (cursor + length key) in
    match frags with
    | [] => None
    | _ => Some (frags, c')
    end
  else None.

Definition skip_ws (s : str) (cursor : nat) : nat :=
  match omatch reWs s cursor with Some w => m_end w | None => cursor end.

Record po_strings := mkpo { po_ctxt : option (list span); po_id : list span; po_str : list span }.

Definition create_po_full (s : str) (k : mres) (c w : option span) : option (entry * po_strings) :=
  let start := m_start k in
  let (msgctxt, cursor) :=
    match parse_string_list s start s_msgctxt with
    | Some (fr, c1) => (Some fr, skip_ws s c1)
    | None => (None, start)
    end in
  match parse_string_list s cursor s_msgid with
  | None => None
  | Some (msgid, c2) =>
      let id_end := c2 in
      let c3 := skip_ws s c2 in
      match parse_string_list s c3 s_msgstr with
      | None => None
      | Some (msgstr, c4) =>
          Some (mkentry KEntity (start, c4) (Some (start, id_end)) (Some (c3, c4)) c w,
                mkpo msgctxt msgid msgstr)
      end
  end.

Definition create_po (s : str) (k : mres) (c w : option span) : option entry :=
  match create_po_full s k c w with Some (e, _) => Some e | None => None end.

Definition fmt_po : fmt :=
  mkfmt reComment reWs reKey CPlain 2 create_po [reKey; reComment].
End Po.
