(* Wire encoding (harness <-> model) of the path matcher models; shared by the
   extraction files of C11 and C12.  [sx_of_rx] prints a regex with the tags of
   tr/rx2coq.py to_sx / Regex/RxSx.v so that the harness can compare the
   model's regex with CPython's reading of the text the implementation compiles. *)
From Coq Require Import ZArith NArith List Bool Arith.
From CL Require Import Base.Sx Base.Res Base.Str Regex.Rx Model.Pattern Model.Matcher.
Import ListNotations.
Open Scope Z_scope.

Fixpoint sx_of_rx (r : rx) : sx :=
  match r with
  | Eps => L [A 0]
  | Chr neg rs => L [A 1; of_bool neg; of_list (fun p => L [of_N (fst p); of_N (snd p)]) rs]
  | Cat a b => L [A 2; sx_of_rx a; sx_of_rx b]
  | Alt a b => L [A 3; sx_of_rx a; sx_of_rx b]
  | Rep g lo hi r' => L [A 4; of_bool g; of_nat lo; of_option of_nat hi; sx_of_rx r']
  | Grp n r' => L [A 5; of_nat n; sx_of_rx r']
  | Bref n => L [A 6; of_nat n]
  | Bol mu => L [A 7; of_bool mu]
  | Eol mu => L [A 8; of_bool mu]
  | EndStr => L [A 9]
  | Look ah ng r' => L [A 10; of_bool ah; of_bool ng; sx_of_rx r']
  end.

Definition node_sx (n : node) : sx :=
  match n with
  | NLit s => L [A 0; of_str s]
  | NVar name rep => L [A 1; of_str name; of_bool rep]
  | NAndroid rep => L [A 2; of_bool rep]
  | NStar k => L [A 3; of_nat k]
  | NStarstar k suffix => L [A 4; of_nat k; of_str suffix]
  end.

Definition pattern_sx (p : pattern) : sx :=
  L [of_list node_sx (p_nodes p); of_option of_str (p_root p); of_nat (p_prefix p)].

Definition dict_sx (d : list (str * option str)) : sx :=
  of_list (fun kv => L [of_str (fst kv); of_option of_str (snd kv)]) d.

Definition to_kv (x : sx) : list (str * str) := to_list (to_pair to_str to_str) x.
Definition to_root (x : sx) : option str := to_option to_str x.

Definition matcher_of (x : sx) (i : nat) : result matcher :=
  mk_matcher (to_str (nth_sx i x)) (to_kv (nth_sx (i + 1) x)) (to_root (nth_sx (i + 2) x)).

Definition match_sx (r : result (option (list (str * option str)))) : sx :=
  of_result (of_option dict_sx) r.

Definition views_sx (M : result matcher) (path : str) : sx :=
  match M with
  | Raise t => L [A 1; A (tag_code t)]
  | Ok M => L [A 0; L [of_result of_str (str_of M); of_result of_str (prefix M);
                       match_sx (match_ M path)]]
  end.

(* derivation chains: the model has no regex cache, so a derived matcher is a
   function of the construction chain alone (what history independence demands) *)
Definition reroot (M : matcher) (root : option str) : matcher :=
  mkm (with_root (m_pat M) root) (m_env M).

Definition apply_op (M : matcher) (op : sx) : result matcher :=
  match to_Z (nth_sx 0 op) with
  | 0 => with_env M (to_kv (nth_sx 1 op))                       (* m.with_env(env) *)
  | 1 => Ok (reroot M (to_root (nth_sx 1 op)))                   (* Matcher(m, root=r) *)
  | _ => do M2 <- mk_matcher (to_str (nth_sx 1 op)) (to_kv (nth_sx 2 op)) None;
         concat_matcher M M2                                      (* m.concat(Matcher(p, env)) *)
  end.

Fixpoint apply_ops (M : result matcher) (ops : list sx) : result matcher :=
  match ops with
  | [] => M
  | op :: ops' => apply_ops (do m <- M; apply_op m op) ops'
  end.

Definition chain_sx (M : result matcher) (partner : result matcher) (paths : list str) : sx :=
  match M, partner with
  | Ok M, Ok Q =>
      L [A 0; L [of_result of_str (str_of M); of_result of_str (prefix M);
                 of_list (fun p => match_sx (match_ M p)) paths;
                 of_list (fun p => of_result (of_option of_str) (sub M Q p)) paths;
                 of_list (fun p => of_result (of_option of_str) (sub Q M p)) paths]]
  | Raise t, _ => L [A 1; A (tag_code t)]
  | _, Raise t => L [A 1; A (tag_code t)]
  end.

Definition dispatch (f : Z) (x : sx) : sx :=
  match f with
  | 0 => of_result pattern_sx (parse_pattern (to_str (nth_sx 0 x)))
  | 1 => of_result (fun rn => L [sx_of_rx (fst rn);
                                 of_list (fun p => L [of_str (fst p); of_nat (snd p)]) (snd rn)])
                   (do M <- matcher_of x 0; regex_of_pattern (m_env M) (m_pat M))
  | 2 => match_sx (do M <- matcher_of x 0; match_ M (to_str (nth_sx 3 x)))
  | 3 => of_result (of_option of_str)
                   (do M <- matcher_of x 0; do M2 <- matcher_of x 3;
                    sub M M2 (to_str (nth_sx 6 x)))
  | 4 => of_result of_str (do M <- matcher_of x 0; prefix M)
  | 5 => of_result of_str (do M <- matcher_of x 0; str_of M)
  | 6 => let l := to_str (nth_sx 0 x) in
         L [of_result of_str (to_android l);
            of_result of_str (do a <- to_android l; to_bcp47 a)]
  | 7 => of_result of_str (to_bcp47 (to_str (nth_sx 0 x)))
  | 8 => of_result of_bool (mozpath_match (to_str (nth_sx 0 x)) (to_str (nth_sx 1 x)))
  | 9 => of_result sx_of_rx (glob_regex (to_str (nth_sx 0 x)))
  | 10 => views_sx (do M <- matcher_of x 0; with_env M (to_kv (nth_sx 3 x)))
                   (to_str (nth_sx 4 x))
  | 11 => views_sx (do M <- matcher_of x 0;
                    do M2 <- mk_matcher (to_str (nth_sx 3 x)) (to_kv (nth_sx 4 x)) None;
                    concat_matcher M M2)
                   (to_str (nth_sx 5 x))
  | 12 => of_result of_bool
            (do M <- matcher_of x 0; do M2 <- matcher_of x 3; Ok (matcher_eqb M M2))
  | 13 => of_result of_str
            (expand_fn (to_root (nth_sx 0 x)) (to_str (nth_sx 1 x)) (to_kv (nth_sx 2 x)))
  | 14 => chain_sx (apply_ops (matcher_of x 0) (to_list (fun o => o) (nth_sx 3 x)))
                   (matcher_of x 5) (to_list to_str (nth_sx 4 x))
  | _ => sx_err
  end.
