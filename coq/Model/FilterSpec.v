(* C14: the documented semantics of the filter, written independently of
   ProjectConfig._filter/_compile_rule as a direct interpreter over the DATA of
   the configuration files (rules not expanded, no caches, no early exits):

   * a configuration covers (locale, file) when one of its paths, enabled for
     the locale, matches;
   * a rule applies when one of its paths matches and either it has no key and
     a file is asked about, or it has keys, an entity is asked about and one of
     the keys matches it (literal keys by equality -- also with one trailing
     newline after the key, the `$` of the compiled pattern; `re:` keys as
     regular expressions anchored at the start);
   * the own verdict of a covering configuration is the action of the LAST
     rule that applies, `error` when none does;
   * the verdict of a project is the MOST SEVERE own verdict over the
     configuration and all included configurations (error > warning > ignore),
     `ignore` when none covers the file, when the locale is not one of the
     project's, or when an excluded configuration covers the file. *)
From Coq Require Import NArith List Bool Arith.
From CL Require Import Base.Sx Base.Res Base.Str Regex.Rx Generated.FilterFacts Model.Filter.
Import ListNotations.

Definition sev (a : action) : nat :=
  match a with AError => 2 | AWarning => 1 | AIgnore => 0 end.

Definition most_severe (l : list action) : action :=
  fold_right (fun a b => if sev b <? sev a then a else b) AIgnore l.

Definition last_such {A} (p : A -> bool) (l : list A) : option A :=
  fold_left (fun acc x => if p x then Some x else acc) l None.

Definition is_nil {A} (l : list A) : bool := match l with [] => true | _ => false end.

Section Spec.
Variables (matcher locale file : Type).
Variable loc_eqb : locale -> locale -> bool.
Variable matches : matcher -> locale -> file -> bool.
Variable compile_re : str -> option rx.

Notation rawrule := (rawrule matcher).
Notation rawconfig := (rawconfig matcher locale).
Notation pathd := (pathd matcher locale).

Definition spec_key_match (k e : str) : bool :=
  if starts_with key_re_prefix k then
    match compile_re (skipn key_re_skip k) with
    | Some r => key_match r e
    | None => false
    end
  else str_eqb e k || str_eqb e (k ++ [10%N]).

Definition rule_applies (r : rawrule) (loc : locale) (f : file) (ent : option str) : bool :=
  existsb (fun p => matches p loc f) (paths_of _ (rr_path _ r)) &&
  match rr_key _ r, ent with
  | None, None => true
  | Some k, Some e => existsb (fun s => spec_key_match s e) (flat_keys k)
  | _, _ => false
  end.

Definition path_covers (p : pathd) (loc : locale) (f : file) : bool :=
  match p_locales _ _ p with
  | None => matches (p_l10n _ _ p) loc f
  | Some ls => existsb (loc_eqb loc) ls && matches (p_l10n _ _ p) loc f
  end.

Definition own_verdict (paths : list pathd) (rules : list rawrule)
           (loc : locale) (f : file) (ent : option str) : list action :=
  if existsb (fun p => path_covers p loc f) paths then
    match last_such (fun r => rule_applies r loc f ent) rules with
    | Some r => [rr_action _ r]
    | None => [AError]
    end
  else [].

Fixpoint raw_locales (r : rawconfig) : list locale :=
  match r with
  | mkrawc _ _ locs paths _ children _ =>
      match locs with Some l => l | None => [] end ++
      flat_map (fun p => match p_locales _ _ p with Some l => l | None => [] end) paths ++
      flat_map raw_locales children
  end.

(* the own verdicts of every configuration of the project that covers the
   file; none at all when an excluded configuration covers it *)
Fixpoint verdicts (r : rawconfig) (loc : locale) (f : file) (ent : option str) : list action :=
  match r with
  | mkrawc _ _ locs paths rules children excludes =>
      if existsb (fun e => existsb (loc_eqb loc) (raw_locales e) &&
                           negb (is_nil (verdicts e loc f None))) excludes
      then []
      else own_verdict paths rules loc f ent ++
           flat_map (fun ch => verdicts ch loc f ent) children
  end.

Definition excl_covers (e : rawconfig) (loc : locale) (f : file) : bool :=
  existsb (loc_eqb loc) (raw_locales e) && negb (is_nil (verdicts e loc f None)).

Definition spec (r : rawconfig) (loc : locale) (f : file) (ent : option str) : action :=
  if existsb (loc_eqb loc) (raw_locales r) then
    match verdicts r loc f ent with
    | [] => AIgnore
    | l => most_severe l
    end
  else AIgnore.

(* the negation of the known finding "exclude-nonerror-verdict": every
   excluded configuration that covers the file has the file verdict `error` *)
Fixpoint excludes_error_only (r : rawconfig) (loc : locale) (f : file) : bool :=
  match r with
  | mkrawc _ _ _ _ _ children excludes =>
      forallb (fun e => excludes_error_only e loc f &&
                        (negb (excl_covers e loc f) ||
                         action_beq (most_severe (verdicts e loc f None)) AError)) excludes &&
      forallb (fun ch => excludes_error_only ch loc f) children
  end.

(* a syntactic sufficient condition: excluded configurations (and what they
   include) carry no file-level rule with an action other than `error` *)
Fixpoint file_rules_error (r : rawconfig) : bool :=
  match r with
  | mkrawc _ _ _ _ rules children _ =>
      forallb (fun x => match rr_key _ x with
                        | Some _ => true
                        | None => action_beq (rr_action _ x) AError
                        end) rules &&
      forallb file_rules_error children
  end.

Fixpoint no_exclude_rules (r : rawconfig) : bool :=
  match r with
  | mkrawc _ _ _ _ _ children excludes =>
      forallb (fun e => file_rules_error e && no_exclude_rules e) excludes &&
      forallb no_exclude_rules children
  end.

End Spec.

(* ---- what `Matcher.match` returns ---------------------------------------
   None when the path does not match, otherwise the dictionary of the matched
   variables and wildcards; [pmatch] gives the number of its entries (0 for a
   pattern without variables or wildcards).  `_filter` compares the result
   with None, so [matches] is "Some". *)
Section Dict.
Variables (matcher locale file : Type).
Variable pmatch : matcher -> locale -> file -> option nat.

Definition doc_matches (m : matcher) (l : locale) (f : file) : bool :=
  match pmatch m l f with Some _ => true | None => false end.

End Dict.
