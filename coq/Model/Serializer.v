(* Model of compare_locales/serializer.py: serialize, sanitize_old, placeholder,
   prune_placeholders; and of Entity.wrap (parser/base.py), FluentEntity.wrap,
   AndroidEntity.wrap (oracle).  Built on Model/Channels.v (merge_resources with
   keep_newest=False).  Definitions only; proofs in Proofs/SerializerProofs.v. *)
From Coq Require Import ZArith NArith List Bool Arith.
From CL Require Import Base.Sx Base.Res Base.Str Model.AddRemove Model.Channels
                       Generated.ChannelFacts.
Import ListNotations.
Local Open Scope nat_scope.

(* ---- Python slicing s[a:b] with integer (possibly negative) bounds ------------ *)
Definition py_index (len : nat) (i : Z) : nat :=
  if (i <? 0)%Z then Z.to_nat (Z.max 0 (i + Z.of_nat len)) else Nat.min (Z.to_nat i) len.

Definition pyslice (s : str) (a b : Z) : str :=
  slice s (py_index (length s) a) (py_index (length s) b).

(* ---- wrap -------------------------------------------------------------------------
   LiteralEntity(key, raw_val, all): a new entity that is not a placeholder        *)
Definition literal (key raw all : str) : centry := mkc CEntity key all raw 0.

Definition zspan := (Z * Z)%type.

Inductive wrapinfo :=
| WBase (span : zspan) (val_span : option zspan) (pre_comment : option zspan)
    (* Entity.wrap over ctx.contents; a val_span of an unmatched group is (-1,-1) *)
| WFluent (comment : str)
    (* FluentEntity.wrap: serialize_comment(entry.comment) (library; "" when None) *)
| WTable (t : list (str * str)).
    (* AndroidEntity.wrap: minidom cloneNode/toxml (library): raw value -> all *)

(* Entry._span_start *)
Definition span_start (span : zspan) (pre : option zspan) : Z :=
  match pre with Some p => fst p | None => fst span end.

Definition apply_wrap (contents : str) (w : wrapinfo) (key raw : str) : result centry :=
  match w with
  | WBase span vs pre =>
      match vs with
      | None => Raise TypeError               (* self.val_span[0] on None *)
      | Some v =>
          Ok (literal key raw
                (pyslice contents (span_start span pre) (fst v) ++ raw ++
                 pyslice contents (snd v) (snd span)))
      end
  | WFluent c => Ok (literal key raw (c ++ raw))
  | WTable t =>
      match od_get str_eqb raw t with
      | Some all => Ok (literal key raw all)
      | None => Raise KeyError                 (* the oracle was not asked: never in the harness *)
      end
  end.

(* ---- placeholder ------------------------------------------------------------------- *)
Definition placeholder_of (key : str) : centry :=
  mkc CPlaceholder key placeholder_all placeholder_val 0.

Definition placeholder (e : centry) : centry :=
  if is_entity e then placeholder_of (c_key e) else e.

Fixpoint mem_str (k : str) (l : list str) : bool :=
  match l with [] => false | x :: l' => str_eqb k x || mem_str k l' end.

(* ref_mapping = {entry.key: entry for entry in reference if isinstance(entry, Entity)} *)
Definition ref_mapping (reference : list centry) : list (str * centry) :=
  od_of_pairs str_eqb (map (fun e => (c_key e, e)) (filter is_entity reference)).

Definition new_data_t := list (str * option str).

Definition should_placeholder (known : list str) (new_data : new_data_t) (e : centry) : bool :=
  if negb (is_entity e) then false
  else if negb (mem_str (c_key e) known) then true
  else match od_get str_eqb (c_key e) new_data with
       | Some None => true                     (* key in new_data and new_data[key] is None *)
       | _ => false
       end.

Definition sanitize_old (known : list str) (old : list centry) (new_data : new_data_t)
  : list centry :=
  map (fun e => if should_placeholder known new_data e then placeholder e else e)
      (filter (fun e => negb (is_junk e)) old).

Section Serialize.
(* ref_ent.wrap(new_raw_val) *)
Variable wrap : centry -> str -> result centry.

Fixpoint new_entities (rm : list (str * centry)) (new_data : new_data_t) : result (list centry) :=
  match new_data with
  | [] => Ok []
  | (k, v) :: rest =>
      match v with
      | None => new_entities rm rest
      | Some raw =>
          match od_get str_eqb k rm with
          | None => new_entities rm rest        (* key not in ref_mapping *)
          | Some r =>
              do e <- wrap r raw;
              do es <- new_entities rm rest;
              Ok (e :: es)
          end
      end
  end.

(* prune_placeholders *)
Definition prune_ws_step (acc : list centry) (e : centry) : list centry :=   (* acc reversed *)
  match acc with
  | pe :: acc' =>
      if is_white e && is_white pe then
        if length (c_text pe) <? length (c_text e) then e :: acc' else acc
      else e :: acc
  | [] => e :: acc
  end.

Definition prune_placeholders (es : list centry) : list centry :=
  rev (fold_left prune_ws_step (filter (fun e => negb (is_placeholder e)) es) []).

(* the three resources handed to merge_resources *)
Definition placeholders (reference : list centry) : list centry :=
  map placeholder (filter (fun e => negb (is_junk e)) reference).

Definition serialize_entries (reference old : list centry) (new_data : new_data_t)
  : result (list centry) :=
  let rm := ref_mapping reference in
  let old' := sanitize_old (map fst rm) old new_data in
  do new_l10n <- new_entities rm new_data;
  do merged <- merge_resources false [placeholders reference; old'; new_l10n];
  Ok (prune_placeholders merged).

Definition serialize (name : str) (reference old : list centry) (new_data : new_data_t)
  : result str :=
  do p <- get_parser name;
  match p with
  | None => Raise NotSupported                  (* SerializationNotSupportedError *)
  | Some _ =>
      do es <- serialize_entries reference old new_data;
      Ok (serialize_legacy es)
  end.
End Serialize.

(* ---- wire ------------------------------------------------------------------------------ *)
Definition zspan_of_sx (s : sx) : zspan := (to_Z (nth_sx 0 s), to_Z (nth_sx 1 s)).

(* [0; span; [val_span]; [pre_span]] | [1; comment] | [2; [[raw; all]; ...]] *)
Definition wrapinfo_of_sx (s : sx) : wrapinfo :=
  match to_Z (nth_sx 0 s) with
  | 0%Z => WBase (zspan_of_sx (nth_sx 1 s)) (to_option zspan_of_sx (nth_sx 2 s))
                 (to_option zspan_of_sx (nth_sx 3 s))
  | 1%Z => WFluent (to_str (nth_sx 1 s))
  | _ => WTable (to_list (to_pair to_str to_str) (nth_sx 1 s))
  end.

(* the wrap method of the reference entities, found by object identity *)
Definition wrap_by_id (contents : str) (tbl : list (nat * wrapinfo)) (e : centry) (raw : str)
  : result centry :=
  match od_get Nat.eqb (c_id e) tbl with
  | Some w => apply_wrap contents w (c_key e) raw
  | None => Raise KeyError
  end.
