(* Model of compare_locales/merge.py: merge_channels, merge_resources
   (parse_resource / get_key_value), merge_two with prune, get_newer_entity,
   get_older_entity, serialize_legacy_resource; and of parser.getParser as far
   as merge_channels / serialize use it (MergeNotSupportedError).

   Entity level: a resource is a list of entries [centry]; parsing itself is
   the subject of C01/C02 and is an input here (the harness feeds the
   implementation's own parse).  Definitions only; proofs are in
   Proofs/ChannelsProofs.v. *)
From Coq Require Import ZArith NArith List Bool Arith.
From CL Require Import Base.Sx Base.Res Base.Str Regex.Rx Model.AddRemove
                       Generated.ChannelFacts.
Import ListNotations.
Local Open Scope nat_scope.

(* ---- entries -------------------------------------------------------------
   what merge.py / serializer.py distinguish with isinstance:
     CEntity       parser.Entity (incl. LiteralEntity), not a placeholder
     CPlaceholder  PlaceholderEntity (an Entity)
     CComment      parser.Comment          (key: entity.val)
     CWhite        parser.Whitespace       (key: the object itself)
     CJunk         parser.Junk             (key: its unique junk key)
     CSticky       StickyEntry             (Android DocumentWrapper)
     CSection      parser.IniSection       (key: ("[section]", entity.key))
     COther        any other Entry (DefinesInstruction)                         *)
Inductive ckind := CEntity | CPlaceholder | CComment | CWhite | CJunk | CSticky | COther | CSection.

Record centry := mkc {
  c_kind : ckind;
  c_key : str;      (* entity.key; for a comment entity.val *)
  c_text : str;     (* entity.all *)
  c_val : str;      (* entity.raw_val (entities only; informative) *)
  c_id : nat        (* object identity; only whitespace entries are keyed by it *)
}.

Definition is_comment (e : centry) : bool :=
  match c_kind e with CComment => true | _ => false end.
Definition is_white (e : centry) : bool :=
  match c_kind e with CWhite => true | _ => false end.
Definition is_section (e : centry) : bool :=
  match c_kind e with CSection => true | _ => false end.
Definition is_sticky (e : centry) : bool :=
  match c_kind e with CSticky => true | _ => false end.
Definition is_junk (e : centry) : bool :=
  match c_kind e with CJunk => true | _ => false end.
Definition is_placeholder (e : centry) : bool :=
  match c_kind e with CPlaceholder => true | _ => false end.
(* isinstance(e, Entity) *)
Definition is_entity (e : centry) : bool :=
  match c_kind e with CEntity | CPlaceholder => true | _ => false end.

(* ---- dict keys -------------------------------------------------------------
   DK k     entity.key (a str)
   DC v n   (comment.val, occurrence counter)
   DW i     the Whitespace object with identity i
   DS s     ("[section]", section.key): an IniSection                          *)
Inductive dkey := DK (k : str) | DC (v : str) (n : nat) | DW (i : nat) | DS (s : str).

Definition dkey_eqb (a b : dkey) : bool :=
  match a, b with
  | DK x, DK y => str_eqb x y
  | DC x n, DC y m => str_eqb x y && Nat.eqb n m
  | DW i, DW j => Nat.eqb i j
  | DS x, DS y => str_eqb x y
  | _, _ => false
  end.

Definition is_ws_key (k : dkey) : bool := match k with DW _ => true | _ => false end.

(* ---- OrderedDict / dict: association list in insertion order; assignment
   to an existing key keeps its position ------------------------------------ *)
Section OD.
Context {K V : Type} (eqb : K -> K -> bool).

Fixpoint od_set (k : K) (v : V) (m : list (K * V)) : list (K * V) :=
  match m with
  | [] => [(k, v)]
  | (k', v') :: m' => if eqb k k' then (k', v) :: m' else (k', v') :: od_set k v m'
  end.

Fixpoint od_get (k : K) (m : list (K * V)) : option V :=
  match m with
  | [] => None
  | (k', v') :: m' => if eqb k k' then Some v' else od_get k m'
  end.

(* OrderedDict(pairs) *)
Definition od_of_pairs (ps : list (K * V)) : list (K * V) :=
  fold_left (fun m p => od_set (fst p) (snd p) m) ps [].
End OD.

Definition dict := list (dkey * centry).
Definition dkeys (d : dict) : list dkey := map fst d.
Definition dvalues (d : dict) : list centry := map snd d.

(* ---- parse_resource / get_key_value --------------------------------------- *)
(* counter = defaultdict(int) *)
Definition counter := list (str * nat).
Definition cget (v : str) (c : counter) : nat :=
  match od_get str_eqb v c with Some n => n | None => 0 end.

Definition get_key_value (e : centry) (c : counter) : (dkey * centry) * counter :=
  match c_kind e with
  | CComment =>
      (* counter[entity.val] += 1; return ((entity.val, counter[entity.val]), entity) *)
      let n := S (cget (c_key e) c) in
      ((DC (c_key e) n, e), od_set str_eqb (c_key e) n c)
  | CWhite => ((DW (c_id e), e), c)          (* (entity, entity) *)
  | CSection => ((DS (c_key e), e), c)       (* (("[section]", entity.key), entity) *)
  | _ => ((DK (c_key e), e), c)              (* (entity.key, entity) *)
  end.

Fixpoint key_values (es : list centry) (c : counter) : list (dkey * centry) :=
  match es with
  | [] => []
  | e :: es' => let (p, c') := get_key_value e c in p :: key_values es' c'
  end.

Definition parse_resource (es : list centry) : dict :=
  od_of_pairs dkey_eqb (key_values es []).

(* ---- merge_two -------------------------------------------------------------- *)
Definition get_newer_entity (newer older : dict) (k : dkey) : option centry :=
  match od_get dkey_eqb k newer with
  | Some e => Some e
  | None => od_get dkey_eqb k older
  end.

Definition get_older_entity (newer older : dict) (k : dkey) : option centry :=
  match od_get dkey_eqb k older with
  | None => od_get dkey_eqb k newer
  | Some e => if is_sticky e then od_get dkey_eqb k newer else Some e
  end.

Definition get_entity (keep_newer : bool) :=
  if keep_newer then get_newer_entity else get_older_entity.

(* prune(acc, cur); [acc] is kept in reverse (acc[-1] is its head) *)
Definition prune_step (acc : list (dkey * centry)) (cur : dkey * option centry)
  : list (dkey * centry) :=
  match snd cur with
  | None => acc                                   (* entity is None *)
  | Some e =>
      match acc with
      | (pk, pe) :: acc' =>
          if is_white e && is_white pe then
            (* prefer the longer whitespace: acc[-1] = (entity, entity) *)
            if length (c_text pe) <? length (c_text e) then (DW (c_id e), e) :: acc' else acc
          else (fst cur, e) :: acc
      | [] => (fst cur, e) :: acc
      end
  end.

Definition merge_contents (newer older : dict) (keep_newer : bool)
  : list (dkey * option centry) :=
  map (fun lk => (snd lk, get_entity keep_newer newer older (snd lk)))
      (addremove dkey_eqb (dkeys newer) (dkeys older)).

Definition merge_two (newer older : dict) (keep_newer : bool) : dict :=
  od_of_pairs dkey_eqb (rev (fold_left prune_step (merge_contents newer older keep_newer) [])).

(* reduce(lambda x, y: merge_two(x, y, keep_newer), dicts): TypeError on no dicts *)
Definition merge_dicts (keep_newest : bool) (ds : list dict) : result dict :=
  match ds with
  | [] => Raise TypeError
  | d :: rest => Ok (fold_left (fun x y => merge_two x y keep_newest) rest d)
  end.

(* merge_resources on already parsed resources (lists of entries) *)
Definition merge_resources (keep_newest : bool) (rs : list (list centry)) : result (list centry) :=
  do d <- merge_dicts keep_newest (map parse_resource rs); Ok (dvalues d).

(* serialize_legacy_resource *)
Definition serialize_legacy (es : list centry) : str := concat (map c_text es).

(* ---- object identities ------------------------------------------------------
   parser.walk() creates new objects for every resource: the entries of the
   versions are numbered consecutively from a counter *)
Fixpoint number (ctr : nat) (es : list centry) : list centry :=
  match es with
  | [] => []
  | e :: es' => mkc (c_kind e) (c_key e) (c_text e) (c_val e) ctr :: number (S ctr) es'
  end.

Fixpoint number_all (ctr : nat) (vs : list (list centry)) : list (list centry) :=
  match vs with
  | [] => []
  | v :: vs' => number ctr v :: number_all (ctr + length v) vs'
  end.

(* ---- getParser ----------------------------------------------------------------
   for item in __constructors: if re.search(item[0], path): return item[1]
   raise UserWarning   (no entry-point plugins: trusted, see the manifest)         *)
Fixpoint get_parser_from (tbl : list (rx * nat)) (name : str) : result (option nat) :=
  match tbl with
  | [] => Ok None
  | (r, code) :: tbl' =>
      match rsearch r name 0 with
      | MSome _ => Ok (Some code)
      | MNone => get_parser_from tbl' name
      | MFuel => Raise OutOfFuel
      end
  end.

Definition get_parser (name : str) : result (option nat) := get_parser_from constructors name.

(* merge_channels(name, resources); [versions] = the walk() of each resource *)
Definition merge_channels (name : str) (versions : list (list centry)) : result str :=
  do p <- get_parser name;
  match p with
  | None => Raise NotSupported                   (* MergeNotSupportedError *)
  | Some _ =>
      do es <- merge_resources true (number_all 0 versions);
      Ok (serialize_legacy es)
  end.

(* ---- wire ---------------------------------------------------------------------- *)
Definition ckind_of_Z (z : Z) : ckind :=
  match z with
  | 0 => CEntity | 1 => CComment | 2 => CWhite | 3 => CJunk
  | 4 => CSticky | 5 => COther | 7 => CSection | _ => CPlaceholder
  end%Z.

Definition ckind_code (k : ckind) : Z :=
  match k with
  | CEntity => 0 | CComment => 1 | CWhite => 2 | CJunk => 3
  | CSticky => 4 | COther => 5 | CPlaceholder => 6 | CSection => 7
  end%Z.

(* [kind; key; text; val; id] *)
Definition centry_of_sx (s : sx) : centry :=
  mkc (ckind_of_Z (to_Z (nth_sx 0 s))) (to_str (nth_sx 1 s)) (to_str (nth_sx 2 s))
      (to_str (nth_sx 3 s)) (to_nat (nth_sx 4 s)).

Definition sx_of_centry (e : centry) : sx :=
  L [A (ckind_code (c_kind e)); of_str (c_key e); of_str (c_text e); of_str (c_val e);
     of_nat (c_id e)].
