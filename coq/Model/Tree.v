(* Model of compare_locales/compare/utils.py class Tree: the path-compressed
   tree behind Observer.details.  Definitions only; proofs are in
   Proofs/TreeProofs.v.

   A Python tuple of path segments is a [key] (list of segment ids; the
   harness maps segment strings to ids in an order-preserving way, so that
   sorted() on tuples of str is [key_ltb] on ids).  [self.branches] is a Python
   dict: an association list in insertion order; assignment to an existing key
   keeps its position, pop removes, a new key goes to the end. *)
From Coq Require Import ZArith NArith List Bool Arith.
From CL Require Import Base.Sx Base.Res.
Import ListNotations.

Definition seg := N.
Definition key := list seg.

Fixpoint key_eqb (a b : key) : bool :=
  match a, b with
  | [], [] => true
  | x :: a', y :: b' => N.eqb x y && key_eqb a' b'
  | _, _ => false
  end.

(* tuple < tuple: lexicographic, a proper prefix is smaller *)
Fixpoint key_ltb (a b : key) : bool :=
  match a, b with
  | [], [] => false
  | [], _ :: _ => true
  | _ :: _, [] => false
  | x :: a', y :: b' =>
      if N.ltb x y then true else if N.eqb x y then key_ltb a' b' else false
  end.

(* bool(tuple) *)
Definition truthy {T} (l : list T) : bool :=
  match l with [] => false | _ :: _ => true end.

(* ---- dict operations ---------------------------------------------------- *)
Section Dict.
Context {T : Type}.

Fixpoint dset (k : key) (v : T) (m : list (key * T)) : list (key * T) :=
  match m with
  | [] => [(k, v)]
  | (k', v') :: m' => if key_eqb k k' then (k', v) :: m' else (k', v') :: dset k v m'
  end.

Fixpoint dpop (k : key) (m : list (key * T)) : list (key * T) :=
  match m with
  | [] => []
  | (k', v') :: m' => if key_eqb k k' then m' else (k', v') :: dpop k m'
  end.

Fixpoint dget (k : key) (m : list (key * T)) : option T :=
  match m with
  | [] => None
  | (k', v') :: m' => if key_eqb k k' then Some v' else dget k m'
  end.

(* sorted(keys): insertion sort, stable *)
Fixpoint insert_sorted (x : key * T) (s : list (key * T)) : list (key * T) :=
  match s with
  | [] => [x]
  | y :: s' => if key_ltb (fst y) (fst x) then y :: insert_sorted x s' else x :: y :: s'
  end.

Definition sort_by_key (m : list (key * T)) : list (key * T) :=
  fold_right insert_sorted [] m.
End Dict.

(* the leaf given to Tree.__getitem__: a paths.File (module, file; the locale
   is passed separately) or a plain str; the harness has done the
   str.split("/") *)
Inductive leafkind :=
| LFile (module : option key) (file : key)   (* module = Some m  iff  leaf.module is truthy *)
| LStr (path : key).

(*  parts = []
    if leaf.module: parts += [leaf.locale] + leaf.module.split("/")
    parts += leaf.file.split("/")          /   parts = leaf.split("/")   *)
Definition leaf_parts (locale : seg) (l : leafkind) : key :=
  match l with
  | LFile (Some m) f => (locale :: m) ++ f
  | LFile None f => f
  | LStr p => p
  end.

Section Tree.
Context {V : Type}.

Inductive tree :=
| Node (value : option (list V)) (branches : list (key * tree)).

Definition t_value (t : tree) := match t with Node v _ => v end.
Definition t_branches (t : tree) := match t with Node _ b => b end.
Definition empty_tree : tree := Node None [].

(*  for i, part in enumerate(zip(k, parts)):
        if part[0] != part[1]:
            i -= 1
            break
    The value of [i] afterwards: [cur] (what it was before) when the zip is
    empty, (index of the first mismatch) - 1 after a break, the last index
    when the zip is exhausted. *)
Fixpoint scan (k parts : key) (i : Z) (cur : option Z) : option Z :=
  match k, parts with
  | a :: k', b :: p' =>
      if N.eqb a b then scan k' p' (i + 1)%Z (Some i) else Some (i - 1)%Z
  | _, _ => cur
  end.

(*  for k, v in self.branches.items():
        <scan>
        if i < 0: continue
        i += 1
        ... break
    [i_prev] is the (possibly unbound = None) value of the local [i] left by
    the previous iteration.  Reading an unbound [i] is UnboundLocalError,
    rendered as [Raise RuntimeError]; it needs an empty key or empty [parts]
    (TreeProofs.find_branch_no_raise: unreachable from __getitem__). *)
Fixpoint find_branch (bs : list (key * tree)) (parts : key) (i_prev : option Z)
  : result (option (key * tree * nat)) :=
  match bs with
  | [] => Ok None
  | (k, v) :: bs' =>
      match scan k parts 0%Z i_prev with
      | None => Raise RuntimeError
      | Some i =>
          if (i <? 0)%Z then find_branch bs' parts (Some i)
          else Ok (Some (k, v, Z.to_nat (i + 1)))
      end
  end.

(*  if t.value is None: t.value = t.valuetype()
    return t.value                  -- and the caller extends that list by xs *)
Definition with_value (t : tree) (xs : list V) : tree :=
  match t with
  | Node val bs => Node (Some (match val with Some l => l | None => [] end ++ xs)) bs
  end.

(* Tree.__get(parts) followed by the caller's .append/.extend on the returned
   list (xs = [] is the bare lookup).  The recursion t.__get(new) is on a
   strictly shorter [new]; [fuel] > length parts is never exhausted
   (TreeProofs.get_app_fuel). *)
Fixpoint get_app (fuel : nat) (t : tree) (parts : key) (xs : list V) : result tree :=
  match fuel with
  | O => Raise OutOfFuel
  | S fuel' =>
    match t with
    | Node val bs =>
      do found <- find_branch bs parts None;
      match found with
      | None =>
          (* common = old = None, new = tuple(parts), t = self *)
          if truthy parts then
            (* t2 = t; t = Tree(); t2.branches[new] = t; t.value = [] *)
            Ok (Node val (dset parts (with_value empty_tree xs) bs))
          else Ok (with_value (Node val bs) xs)
      | Some (k, v, i) =>
          let common := firstn i k in
          let old := skipn i k in
          let new := skipn i parts in
          if truthy old then
            (* self.branches.pop(k); t = Tree(); t.branches[old] = v;
               self.branches[common] = t *)
            let bs1 := dpop k bs in
            let t1 := Node None [(old, v)] in
            if truthy new then
              if truthy common then
                do t1' <- get_app fuel' t1 new xs;
                Ok (Node val (dset common t1' bs1))
              else
                Ok (Node val (dset common
                       (Node None (dset new (with_value empty_tree xs) [(old, v)])) bs1))
            else Ok (Node val (dset common (with_value t1 xs) bs1))
          else if truthy common then
            (* t = self.branches[common] *)
            match dget common bs with
            | None => Raise KeyError
            | Some t1 =>
                if truthy new then
                  do t1' <- get_app fuel' t1 new xs;
                  Ok (Node val (dset common t1' bs))
                else Ok (Node val (dset common (with_value t1 xs) bs))
            end
          else if truthy new then
            Ok (Node val (dset new (with_value empty_tree xs) bs))
          else Ok (with_value (Node val bs) xs)
      end
    end
  end.

(* Tree.__getitem__ on already split parts *)
Definition tree_getitem (t : tree) (parts : key) (xs : list V) : result tree :=
  get_app (S (length parts)) t parts xs.

(* toJSON: a node with a value shows only the value.  Keys stay tuples; the
   "/".join is injective on segments without "/" *)
Inductive json :=
| JVal (l : list V)
| JDict (d : list (key * json)).

Fixpoint toJSON (t : tree) : json :=
  match t with
  | Node (Some v) _ => JVal v
  | Node None bs =>
      JDict ((fix go (bs : list (key * tree)) : list (key * json) :=
                match bs with
                | [] => []
                | (k, c) :: r => (k, toJSON c) :: go r
                end) bs)
  end.

(* getContent(depth): (depth, "value", value) then per sorted key
   (depth, "key", key) followed by the child's content one level deeper *)
Inductive row :=
| RValue (depth : nat) (v : list V)
| RKey (depth : nat) (k : key).

Fixpoint getContent (t : tree) (depth : nat) : list row :=
  match t with
  | Node val bs =>
      (match val with Some v => [RValue depth v] | None => [] end) ++
      concat (map (fun kc : key * list row => RKey depth (fst kc) :: snd kc)
        (sort_by_key
           ((fix go (bs : list (key * tree)) : list (key * list row) :=
               match bs with
               | [] => []
               | (k, c) :: r => (k, getContent c (S depth)) :: go r
               end) bs)))
  end.

(* ---- specification side: the association full path -> value list -------- *)
Fixpoint flatten (t : tree) : list (key * list V) :=
  match t with
  | Node val bs =>
      (match val with Some v => [([], v)] | None => [] end) ++
      (fix go (bs : list (key * tree)) : list (key * list V) :=
         match bs with
         | [] => []
         | (k, c) :: r => map (fun pv => (k ++ fst pv, snd pv)) (flatten c) ++ go r
         end) bs
  end.

Fixpoint flatten_json (j : json) : list (key * list V) :=
  match j with
  | JVal v => [([], v)]
  | JDict d =>
      (fix go (d : list (key * json)) : list (key * list V) :=
         match d with
         | [] => []
         | (k, c) :: r => map (fun pv => (k ++ fst pv, snd pv)) (flatten_json c) ++ go r
         end) d
  end.

(* a history of insertions: tree[path].extend(xs) in turn *)
Fixpoint run_tree (t : tree) (h : list (key * list V)) : result tree :=
  match h with
  | [] => Ok t
  | (p, xs) :: h' => do t' <- tree_getitem t p xs; run_tree t' h'
  end.

End Tree.
Arguments tree : clear implicits.
Arguments json : clear implicits.
Arguments row : clear implicits.
