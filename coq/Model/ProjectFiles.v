(* Model of compare_locales/paths/files.py (ProjectFiles) and of the part of
   compare_locales/paths/project.py it reads (configs, all_locales, children,
   excludes), plus the file-level dispatch of compare/__init__.py
   compareProjects.  Definitions only; proofs are in Proofs/ProjectFilesProofs.v.

   Path matching is NOT modelled here (it is the object of C11/C12): a
   Matcher is an abstract id of type [M]; what ProjectFiles asks of a Matcher
   is a Section variable:
     prefix m            Matcher.prefix
     pat m m'            m.pattern == m'.pattern (Pattern.__eq__)
     matches m p         Matcher.match(p) is not None
     sub m m' p          Matcher.sub(m', p)
     with_locale m       m.with_env({"locale": locale or REFERENCE_LOCALE})
     with_merge m        m.with_env({"locale": locale, "l10n_base": mergebase})
   (the locale and the merge base are fixed for one ProjectFiles object).
   The file system is the list [fs] of the existing files in os.walk order;
   realpath is a table.  Strings are compared as strings: os.walk of a
   directory yields exactly the files whose path starts with the directory
   path and a slash (paths are normalised, no symlinks). *)
From Coq Require Import ZArith NArith List Bool Arith.
From CL Require Import Base.Sx Base.Str.
Import ListNotations.

(* exceptions that the modelled code can raise *)
Inductive perr := ERuntime | EType | EAttribute.

Inductive pres (T : Type) :=
| POk (v : T)
| PRaise (e : perr).
Arguments POk {T} v.
Arguments PRaise {T} e.

Definition pbind {T U} (r : pres T) (f : T -> pres U) : pres U :=
  match r with POk v => f v | PRaise e => PRaise e end.

Definition perr_code (e : perr) : Z :=
  match e with ERuntime => 8 | EType => 1 | EAttribute => 12 end%Z.

(* ---- strings ------------------------------------------------------------ *)
Definition SLASH : N := 47.

(* Python's < on str: lexicographic on code points *)
Fixpoint str_ltb (a b : str) : bool :=
  match a, b with
  | _, [] => false
  | [], _ :: _ => true
  | x :: a', y :: b' =>
      if N.ltb x y then true else if N.eqb x y then str_ltb a' b' else false
  end.
Definition str_leb (a b : str) : bool := negb (str_ltb b a).

Definition mem_str (s : str) (l : list str) : bool := existsb (str_eqb s) l.

Definition ends_slash (s : str) : bool :=
  match rev s with c :: _ => N.eqb c SLASH | [] => false end.

Definition ensure_slash (s : str) : str := if ends_slash s then s else s ++ [SLASH].

Fixpoint drop_while (f : N -> bool) (s : str) : str :=
  match s with
  | [] => []
  | c :: s' => if f c then drop_while f s' else s
  end.

(* posixpath.dirname: head = p[:p.rfind('/')+1]; strip trailing slashes
   unless head consists of slashes only *)
Definition dirname (s : str) : str :=
  let head := rev (drop_while (fun c => negb (N.eqb c SLASH)) (rev s)) in
  let stripped := rev (drop_while (fun c => N.eqb c SLASH) (rev head)) in
  match stripped with [] => head | _ :: _ => stripped end.

(* keys of the `known` dict: a path, or None when Matcher.sub returned None *)
Definition okey := option str.
Definition okey_eqb (a b : okey) : bool :=
  match a, b with
  | None, None => true
  | Some x, Some y => str_eqb x y
  | _, _ => false
  end.
Definition okey_leb (a b : okey) : bool :=
  match a, b with
  | None, _ => true
  | Some _, None => false
  | Some x, Some y => str_leb x y
  end.

(* ---- configuration data (ProjectConfig) --------------------------------- *)
Section Config.
Context {M : Type}.

(* one element of ProjectConfig.paths *)
Record rule := mkrule {
  r_l10n : M;                       (* paths["l10n"] *)
  r_ref : option M;                 (* paths["reference"], if any *)
  r_test : list N;                  (* paths.get("test", []) *)
  r_locales : option (list str)     (* paths["locales"], if any *)
}.

(* A ProjectConfig with its children.  Included configurations never have
   excludes of their own (add_child raises ExcludeError), nor do excluded
   ones (exclude raises): only the top carries an exclude list. *)
Inductive cnode :=
| CNode (path : str) (locales : option (list str)) (rules : list rule)
        (children : list cnode).

Definition c_path (c : cnode) := match c with CNode p _ _ _ => p end.
Definition c_locales (c : cnode) := match c with CNode _ l _ _ => l end.
Definition c_rules (c : cnode) := match c with CNode _ _ r _ => r end.
Definition c_children (c : cnode) := match c with CNode _ _ _ ch => ch end.

Record project := mkproject {
  p_root : cnode;
  p_excludes : list cnode           (* ProjectConfig.excludes *)
}.

(* ProjectConfig.configs: self, then the children's configs *)
Fixpoint configs_of (c : cnode) : list cnode :=
  match c with
  | CNode _ _ _ ch => c :: flat_map configs_of ch
  end.

Definition olist (o : option (list str)) : list str :=
  match o with Some l => l | None => [] end.

(* ProjectConfig.all_locales (as a set; it is only used for membership) *)
Definition cfg_locales (c : cnode) : list str :=
  olist (c_locales c) ++ flat_map (fun r => olist (r_locales r)) (c_rules c).
Definition all_locales (c : cnode) : list str :=
  flat_map cfg_locales (configs_of c).

(* ConfigList.maybe_extend *)
Fixpoint maybe_extend (mine other : list cnode) : list cnode :=
  match other with
  | [] => mine
  | c :: other' =>
      if existsb (fun m => str_eqb (c_path m) (c_path c)) mine
      then maybe_extend mine other'
      else maybe_extend (mine ++ [c]) other'
  end.

End Config.
Arguments rule : clear implicits.
Arguments cnode : clear implicits.
Arguments project : clear implicits.

(* ---- ProjectFiles -------------------------------------------------------- *)
Section ProjectFiles.
Context {M : Type}.
Variable prefix : M -> str.
Variable pat : M -> M -> bool.          (* Pattern.__eq__ of the two matchers' patterns *)
Variable realpath : str -> str.
Variable matches : M -> str -> bool.
Variable sub : M -> M -> str -> option str.
Variable with_locale : M -> M.
Variable with_merge : M -> M.
Variable fs : list str.

(* `if locale` / `locale is not None` *)
Definition truthy (locale : option str) : bool :=
  match locale with Some (_ :: _) => true | _ => false end.
Definition not_none (locale : option str) : bool :=
  match locale with Some _ => true | None => false end.

(* `locale not in xs`, for a locale that is not None *)
Definition loc_in (locale : option str) (xs : list str) : bool :=
  match locale with Some l => mem_str l xs | None => false end.

(* the dicts of self.matchers ("module" is always None for TOML projects and
   "locales" is never read again) *)
Record mrec := mkmrec {
  m_l10n : M;
  m_ref : option M;
  m_merge : option M;
  m_test : list N                   (* a set; order and repetitions are not observable *)
}.

(* the body of `for paths in pc.paths` *)
Definition mk_matcher (locale : option str) (has_merge : bool) (r : rule M) : pres mrec :=
  let l10n := with_locale (r_l10n r) in
  match (if has_merge
         then match locale with
              | None => PRaise EType      (* PatternParser.parse(None) *)
              | Some _ => POk (Some (with_merge (r_l10n r)))
              end
         else POk None) with
  | PRaise e => PRaise e
  | POk mg => POk (mkmrec l10n (r_ref r) mg (r_test r))
  end.

Definition rule_enabled (locale : option str) (r : rule M) : bool :=
  negb (truthy locale && match r_locales r with
                         | Some ls => negb (loc_in locale ls)
                         | None => false
                         end).

Definition config_enabled (locale : option str) (c : cnode M) : bool :=
  negb (truthy locale && match c_locales c with
                         | Some ls => negb (loc_in locale ls)
                         | None => false
                         end).

Fixpoint rules_matchers (locale : option str) (has_merge : bool) (rs : list (rule M))
  : pres (list mrec) :=
  match rs with
  | [] => POk []
  | r :: rs' =>
      if rule_enabled locale r then
        pbind (mk_matcher locale has_merge r) (fun m =>
        pbind (rules_matchers locale has_merge rs') (fun ms => POk (m :: ms)))
      else rules_matchers locale has_merge rs'
  end.

(* `for pc in configs: ... self.matchers.append(m)` *)
Fixpoint configs_matchers (locale : option str) (has_merge : bool) (cs : list (cnode M))
  : pres (list mrec) :=
  match cs with
  | [] => POk []
  | c :: cs' =>
      if config_enabled locale c then
        pbind (rules_matchers locale has_merge (c_rules c)) (fun ms =>
        pbind (configs_matchers locale has_merge cs') (fun ms' => POk (ms ++ ms')))
      else configs_matchers locale has_merge cs'
  end.

(* the test inside the duplicate scan: Ok true = duplicate *)
Definition dup_check (m m_ : mrec) : pres bool :=
  if negb (str_eqb (realpath (prefix (m_l10n m))) (realpath (prefix (m_l10n m_))))
  then POk false
  else if negb (pat (m_l10n m) (m_l10n m_)) then POk false
  else match m_ref m with
       | Some r =>
           match m_ref m_ with
           | None => PRaise EAttribute       (* m_.get("reference").prefix on None *)
           | Some r_ =>
               if str_eqb (realpath (prefix r)) (realpath (prefix r_))
               then POk true else PRaise ERuntime
           end
       | None => POk true
       end.

Definition add_tests (m : mrec) (ts : list N) : mrec :=
  mkmrec (m_l10n m) (m_ref m) (m_merge m) (m_test m ++ ts).

Definition mem_nat (i : nat) (l : list nat) : bool := existsb (Nat.eqb i) l.

(* `for i_, m_ in enumerate(self.matchers[(i + 1):])`, j = i_ + i + 1 *)
Fixpoint dedup_inner (m : mrec) (rest : list mrec) (j : nat) (drops : list nat)
  : pres (mrec * list nat) :=
  match rest with
  | [] => POk (m, drops)
  | m_ :: rest' =>
      match dup_check m m_ with
      | PRaise e => PRaise e
      | POk false => dedup_inner m rest' (S j) drops
      | POk true => dedup_inner (add_tests m (m_test m_)) rest' (S j) (j :: drops)
      end
  end.

(* `for i, m in enumerate(self.matchers[:-1])` *)
Fixpoint dedup_outer (i : nat) (ms : list mrec) (drops : list nat)
  : pres (list mrec * list nat) :=
  match ms with
  | [] => POk ([], drops)
  | m :: rest =>
      match rest with
      | [] => POk ([m], drops)
      | _ :: _ =>
          if mem_nat i drops then
            pbind (dedup_outer (S i) rest drops) (fun rd => POk (m :: fst rd, snd rd))
          else
            pbind (dedup_inner m rest (S i) drops) (fun md =>
            pbind (dedup_outer (S i) rest (snd md)) (fun rd =>
            POk (fst md :: fst rd, snd rd)))
      end
  end.

(* `for i in sorted(drops, reverse=True): del self.matchers[i]` *)
Fixpoint remove_drops (i : nat) (ms : list mrec) (drops : list nat) : list mrec :=
  match ms with
  | [] => []
  | m :: rest =>
      if mem_nat i drops then remove_drops (S i) rest drops
      else m :: remove_drops (S i) rest drops
  end.

Definition build_matchers (locale : option str) (has_merge : bool) (cs : list (cnode M))
  : pres (list mrec) :=
  pbind (configs_matchers locale has_merge cs) (fun ms =>
  let ms := rev ms in
  pbind (dedup_outer 0 ms []) (fun rd => POk (remove_drops 0 (fst rd) (snd rd)))).

(* the first loop of __init__ *)
Definition project_enabled (locale : option str) (root : cnode M) : bool :=
  match locale with
  | None => true
  | Some l => mem_str l (all_locales root)
  end.

Fixpoint gather (locale : option str) (ps : list (project M))
                (configs excludes : list (cnode M)) : list (cnode M) * list (cnode M) :=
  match ps with
  | [] => (configs, excludes)
  | p :: ps' =>
      if project_enabled locale (p_root p)
      then gather locale ps' (maybe_extend configs (configs_of (p_root p)))
                             (maybe_extend excludes (p_excludes p))
      else gather locale ps' configs excludes
  end.

Definition has_path (cs : list (cnode M)) (c : cnode M) : bool :=
  existsb (fun c' => str_eqb (c_path c') (c_path c)) cs.

Record pfiles := mkpfiles {
  pf_locale : option str;
  pf_matchers : list mrec;
  pf_exclude : option (list mrec)     (* the matchers of self.exclude; its own exclude is None *)
}.

(* ProjectFiles(locale, projects, mergebase) *)
Definition build (locale : option str) (has_merge : bool) (ps : list (project M))
  : pres pfiles :=
  let (configs, excludes) := gather locale ps [] [] in
  let excludes := filter (fun e => negb (has_path configs e)) excludes in
  pbind (match excludes with
         | [] => POk None
         | _ :: _ =>
             (* ProjectFiles(locale, excludes): excluded configurations have no
                excludes, so the nested object has exclude = None *)
             let (xconfigs, _) :=
               gather locale (map (fun e => mkproject e []) excludes) [] [] in
             pbind (build_matchers locale false xconfigs) (fun ms => POk (Some ms))
         end) (fun ex =>
  pbind (build_matchers locale has_merge configs) (fun ms =>
  POk (mkpfiles locale ms ex))).

(* ---- match ---------------------------------------------------------------- *)
Definition entry := (okey * option str * option str * list N)%type.

Definition osub (m : M) (o : option M) (p : str) : option str :=
  match o with Some m' => sub m m' p | None => None end.

(* the loop of ProjectFiles.match *)
Fixpoint match_ms (locale : option str) (ms : list mrec) (p : str) : option entry :=
  match ms with
  | [] => None
  | m :: ms' =>
      if not_none locale && matches (m_l10n m) p then
        Some (Some p, osub (m_l10n m) (m_ref m) p, osub (m_l10n m) (m_merge m) p, m_test m)
      else
        match m_ref m with
        | None => match_ms locale ms' p
        | Some r =>
            if matches r p then
              Some (sub r (m_l10n m) p, Some p, osub r (m_merge m) p, m_test m)
            else match_ms locale ms' p
        end
  end.

(* `self.exclude and self.exclude.match(path) is not None` *)
Definition excluded (locale : option str) (ex : option (list mrec)) (p : str) : bool :=
  match ex with
  | None => false
  | Some xms => match match_ms locale xms p with Some _ => true | None => false end
  end.

Definition pf_match (f : pfiles) (p : str) : option entry :=
  if not_none (pf_locale f) && excluded (pf_locale f) (pf_exclude f) p then None
  else match_ms (pf_locale f) (pf_matchers f) p.

(* ---- _files ----------------------------------------------------------------- *)
Definition isfile (p : str) : bool := mem_str p fs.

(* os.walk(base), flattened to the joined file paths *)
Definition walk (base : str) : list str :=
  match base with
  | [] => []
  | _ :: _ => filter (starts_with (ensure_slash base)) fs
  end.

Definition files (locale : option str) (ex : option (list mrec)) (m : M) : list str :=
  let base := prefix m in
  if isfile base then
    if excluded locale ex base then []
    else if matches m base then [base] else []
  else
    let base := if ends_slash base then base else dirname base in
    filter (fun p => negb (excluded locale ex p) && matches m p) (walk base).

(* ---- iteration ------------------------------------------------------------- *)
(* known[path] = {"reference": .., "merge": .., "test": ..}; d.get(..) does not
   tell an absent key from a None value *)
Definition info := (option str * option str * list N)%type.
Definition known_t := list (okey * info).

Definition kmem (k : okey) (known : known_t) : bool :=
  existsb (fun kv => okey_eqb k (fst kv)) known.
Definition kadd (k : okey) (v : info) (known : known_t) : known_t :=
  if kmem k known then known else known ++ [(k, v)].

Definition step_l10n (m : mrec) (known : known_t) (p : str) : known_t :=
  kadd (Some p) (osub (m_l10n m) (m_ref m) p, osub (m_l10n m) (m_merge m) p, m_test m) known.

Definition step_ref (m : mrec) (r : M) (known : known_t) (p : str) : known_t :=
  kadd (sub r (m_l10n m) p) (Some p, osub r (m_merge m) p, m_test m) known.

Definition step_matcher (locale : option str) (ex : option (list mrec))
                        (known : known_t) (m : mrec) : known_t :=
  let known := fold_left (step_l10n m) (files locale ex (m_l10n m)) known in
  match m_ref m with
  | None => known
  | Some r => fold_left (step_ref m r) (files locale ex r) known
  end.

(* sorted(known.items()): the keys are distinct, so the values are never
   compared; comparing None with a str raises TypeError *)
Fixpoint kinsert (x : okey * info) (s : known_t) : known_t :=
  match s with
  | [] => [x]
  | y :: s' => if okey_leb (fst x) (fst y) then x :: y :: s' else y :: kinsert x s'
  end.
Definition ksort (known : known_t) : known_t := fold_right kinsert [] known.

Definition to_entry (kv : okey * info) : entry :=
  let '(k, (r, mg, t)) := kv in (k, r, mg, t).

Definition finish (known : known_t) : pres (list entry) :=
  if kmem None known && (2 <=? length known) then PRaise EType
  else POk (map to_entry (ksort known)).

Definition iter_locale (f : pfiles) : pres (list entry) :=
  finish (fold_left (step_matcher (pf_locale f) (pf_exclude f)) (pf_matchers f) []).

(* iter_reference: self.exclude is None while it runs; merge is None *)
Definition step_refonly (r : M) (m : mrec) (known : known_t) (p : str) : known_t :=
  kadd (sub r r p) (Some p, None, m_test m) known.

Definition step_matcher_ref (locale : option str) (known : known_t) (m : mrec) : known_t :=
  match m_ref m with
  | None => known
  | Some r => fold_left (step_refonly r m) (files locale None r) known
  end.

Definition iter_reference (f : pfiles) : pres (list entry) :=
  finish (fold_left (step_matcher_ref (pf_locale f)) (pf_matchers f) []).

(* __iter__ *)
Definition iterate (f : pfiles) : pres (list entry) :=
  if truthy (pf_locale f) then iter_locale f else iter_reference f.

(* ---- compareProjects: what is done with each enumerated file ------------------ *)
Inductive action := DoAdd | DoRemove | DoCompare.

(* os.path.exists: a file, or a directory (one that holds a file) *)
Definition exists_ (p : str) : bool :=
  match p with
  | [] => false
  | _ :: _ => isfile p || existsb (starts_with (ensure_slash p)) fs
  end.

(* the calls made before a TypeError (relpath / os.path.exists of None), and
   whether one was raised *)
Fixpoint drive (es : list entry) : list (action * entry) * option perr :=
  match es with
  | [] => ([], None)
  | ((k, r, mg, t) as e) :: es' =>
      match k with
      | None => ([], Some EType)
      | Some l =>
          if negb (exists_ l) then
            let (cs, x) := drive es' in ((DoAdd, e) :: cs, x)
          else match r with
               | None => ([], Some EType)
               | Some rp =>
                   if negb (exists_ rp) then
                     let (cs, x) := drive es' in ((DoRemove, e) :: cs, x)
                   else
                     let (cs, x) := drive es' in ((DoCompare, e) :: cs, x)
               end
      end
  end.

End ProjectFiles.

Definition action_code (a : action) : Z :=
  match a with DoAdd => 0 | DoRemove => 1 | DoCompare => 2 end%Z.
