(* Model of compare_locales/checks/android.py (AndroidChecker.check,
   check_string, not_translatable, no_at_string, non_simple_data,
   check_apostrophes, get_params, check_params), of checks/base.py
   Checker.check (the encoding warning) and of parser/android.py textContent /
   AndroidEntity.val.  Definitions only.

   xml.dom.minidom is an oracle: the input is the element already parsed — its
   nodeName, the value of its translatable attribute (None = no attribute), its
   child list and the text minidom prints for it (node.toxml(), used by
   textContent for content that is not plain) — plus the entity's key and
   source text (AndroidEntity.all, scanned by the encoding check).

   All regular expressions, message literals/templates, severities, categories,
   the early-exit string constants, the silencer's replacement and the
   whitespace table of str.strip() come from Generated/RxC09.v and
   Generated/C09Facts.v, which are rewritten from the source on every run. *)
From Coq Require Import NArith List Bool Arith.
From CL Require Import Base.Sx Base.Res Base.Str Regex.Rx Generated.RxC09 Generated.C09Facts.
Import ListNotations.

(* ---- the DOM as the checker sees it ------------------------------------ *)
Inductive child :=
| Text (data : str)
| CData (data : str)
| Elem
| Comment
| Other.                          (* processing instruction, ... *)

Record node := mknode {
  n_name : str;                   (* nodeName *)
  n_transl : option str;          (* getAttribute("translatable") when hasAttribute *)
  n_children : list child;
  n_xml : str                     (* node.toxml() *)
}.

Record entity := mkent {
  e_node : node;
  e_key : str;
  e_all : str                     (* AndroidEntity.all *)
}.

Definition is_cdata (c : child) : bool := match c with CData _ => true | _ => false end.
Definition is_text (c : child) : bool := match c with Text _ => true | _ => false end.

Fixpoint first_cdata (cs : list child) : option str :=
  match cs with
  | [] => None
  | CData d :: _ => Some d
  | _ :: cs' => first_cdata cs'
  end.

(* parser/android.py textContent *)
Definition text_content (n : node) : str :=
  match n_children n with
  | [] => []
  | cs =>
      match first_cdata cs with
      | Some d => d
      | None =>
          match cs with
          | [Text d] => d
          | _ => n_xml n            (* "Return something, we'll fail in checks on this" *)
          end
      end
  end.

(* AndroidEntity.val = Entity.val = raw_val = textContent(element) *)
Definition val (e : entity) : str := text_content (e_node e).

(* ---- issues ------------------------------------------------------------- *)
Inductive position :=
| PInt (n : nat)
| PEnt (n : nat).                 (* EntityPos(n) *)

Record issue := mkissue {
  i_error : bool;                 (* "error" / "warning" *)
  i_pos : position;
  i_msg : str;
  i_cat : str
}.

Definition lit_issue (y : ylit) (p : nat) : issue :=
  mkissue (fst (fst y)) (PInt p) (snd (fst y)) (snd y).

(* str(int) *)
Fixpoint uint_str (u : Decimal.uint) : str :=
  match u with
  | Decimal.Nil => []
  | Decimal.D0 u => 48%N :: uint_str u
  | Decimal.D1 u => 49%N :: uint_str u
  | Decimal.D2 u => 50%N :: uint_str u
  | Decimal.D3 u => 51%N :: uint_str u
  | Decimal.D4 u => 52%N :: uint_str u
  | Decimal.D5 u => 53%N :: uint_str u
  | Decimal.D6 u => 54%N :: uint_str u
  | Decimal.D7 u => 55%N :: uint_str u
  | Decimal.D8 u => 56%N :: uint_str u
  | Decimal.D9 u => 57%N :: uint_str u
  end.
Definition dec_of_nat (n : nat) : str := uint_str (Nat.to_uint n).

(* str.format / f-string with positional pieces *)
Definition render (t : tpl) (args : list str) : str :=
  concat (map (fun p => match p with inl s => s | inr i => nth i args [] end) t).

Definition tpl_issue (y : bool * tpl * str) (p : position) (args : list str) : issue :=
  mkissue (fst (fst y)) p (render (snd (fst y)) args) (snd y).

(* ---- regex helpers -------------------------------------------------------- *)
Definition finditer (r : rx) (s : str) : result (list mres) :=
  match rfinditer r s with
  | Some l => Ok l
  | None => Raise OutOfFuel        (* excluded by RxLemmas.rfinditer_no_fuel *)
  end.

(* pattern.sub(repl, s) for a replacement without escapes: the spans of
   finditer are replaced by repl *)
Fixpoint sub_spans (repl s : str) (pos : nat) (ms : list mres) : str :=
  match ms with
  | [] => skipn pos s
  | x :: ms' => slice s pos (m_start x) ++ repl ++ sub_spans repl s (m_end x) ms'
  end.

Definition rsub (r : rx) (repl s : str) : result str :=
  do ms <- finditer r s;
  Ok (sub_spans repl s 0 ms).

Definition ends_with (p s : str) : bool := starts_with (rev p) (rev s).

(* ---- Checker.check (checks/base.py) ------------------------------------------
   for m in mochibake.finditer(l10nEnt.all):
       yield ("warning", EntityPos(m.start()), f"� in: {l10nEnt.key}", "encodings") *)
Definition check_base (l10n : entity) : result (list issue) :=
  do ms <- finditer rx_c09_mochibake (e_all l10n);
  Ok (map (fun x => tpl_issue y_encoding (PEnt (m_start x)) [e_key l10n]) ms).

(* ---- early exits ---------------------------------------------------------------- *)
(* any(node.hasAttribute("translatable") and node.getAttribute("translatable") == "false") *)
Definition not_translatable (nodes : list node) : bool :=
  existsb (fun n => match n_transl n with
                    | Some v => str_eqb v s_false
                    | None => false
                    end) nodes.

(* any(textContent(node).startswith("@string/") for node in ref_nodes) *)
Definition no_at_string (nodes : list node) : bool :=
  existsb (fun n => starts_with s_at_string (text_content n)) nodes.

Definition is_py_space (c : N) : bool :=
  existsb (fun r => N.leb (fst r) c && N.leb c (snd r)) py_space_ranges.

(* data.strip() != "" *)
Definition strip_nonempty (d : str) : bool := negb (forallb is_py_space d).

(* cdata = [child for child in node.childNodes if child.nodeType == CDATA_SECTION_NODE]
   if len(cdata) == 0:
       if node.childNodes.length == 0: return False
       if node.childNodes.length != 1: return True
       return node.childNodes[0].nodeType != TEXT_NODE
   if len(cdata) > 1: return True
   for child in node.childNodes:
       if child == cdata[0]: continue                 (node identity: the one CDATA child)
       if child.nodeType != TEXT_NODE: return True
       if child.data.strip() != "": return True
   return False *)
Definition non_simple_data (n : node) : bool :=
  let cs := n_children n in
  match filter is_cdata cs with
  | [] =>
      match cs with
      | [] => false
      | [c] => negb (is_text c)
      | _ => true
      end
  | [_] =>
      existsb (fun c => match c with
                        | CData _ => false
                        | Text d => strip_nonempty d
                        | _ => true
                        end) cs
  | _ => true
  end.

(* ---- check_apostrophes ------------------------------------------------------------
   for m in re.finditer('""', string): yield ("error", m.start(), "Double straight ...")
   string = silencer.sub("  ", string)
   is_quoted = string.startswith('"') and string.endswith('"')
   if not is_quoted:
       for m in re.finditer("'", string): yield ("error", m.start(), "Apostrophe must ...") *)
Definition silence (s : str) : result str := rsub rx_c09_silencer s_silence s.

Definition is_quoted (s : str) : bool :=
  starts_with s_quote_start s && ends_with s_quote_end s.

Definition check_apostrophes (s : str) : result (list issue) :=
  do dq <- finditer rx_c09_dq s;
  do s' <- silence s;
  do ap <- (if is_quoted s' then Ok [] else finditer rx_c09_apos s');
  Ok (map (fun x => lit_issue y_double_quotes (m_start x)) dq ++
      map (fun x => lit_issue y_apostrophe (m_start x)) ap).

(* ---- get_params ----------------------------------------------------------------------- *)
(* one match of the printf-like expression: explicit position (None = implicit),
   conversion text, m.start() *)
Definition occ := (option nat * str * nat)%type.

(* int(c) for the one-character string order[0]; the expression only lets
   ASCII digits 1-9 through *)
Definition int_of_digit (c : N) : result nat :=
  if N.leb 48 c && N.leb c 57 then Ok (N.to_nat c - 48) else Raise ValueError.

(* order = m.group("order"); if order: order = int(order[0]) ...; fmt = m.group("format") *)
Definition occ_of_match (s : str) (x : mres) : result occ :=
  do fmt <- match group g_c09_params_format x with
            | Some (a, b) => Ok (slice s a b)
            | None => Raise AssertionError   (* the group is not optional in the expression *)
            end;
  match group g_c09_params_order x with
  | Some (a, b) =>
      if a <? b then
        match nth_error s a with
        | Some c => do n <- int_of_digit c; Ok (Some n, fmt, m_start x)
        | None => Raise IndexError
        end
      else Ok (None, fmt, m_start x)          (* empty string is falsy *)
  | None => Ok (None, fmt, m_start x)
  end.

Fixpoint mapM {T U} (f : T -> result U) (l : list T) : result (list U) :=
  match l with
  | [] => Ok []
  | x :: l' => do y <- f x; do ys <- mapM f l'; Ok (y :: ys)
  end.

Definition scan_params (s : str) : result (list occ) :=
  do ms <- finditer rx_c09_params s;
  mapM (occ_of_match s) ms.

(* a dict with int keys, in insertion order *)
Definition pmap := list (nat * str).

Fixpoint pget (k : nat) (m : pmap) : option str :=
  match m with
  | [] => None
  | (k', v) :: m' => if Nat.eqb k k' then Some v else pget k m'
  end.

Record pstate := mkps {
  ps_params : pmap;
  ps_errors : list (str * nat);    (* (message, position) *)
  ps_count : nat;
  ps_next : nat                    (* next_implicit *)
}.

(* the body of the loop over the matches *)
Definition pstep (st : pstate) (o : occ) : pstate :=
  let '(explicit, fmt, start) := o in
  let count := S (ps_count st) in
  let order := match explicit with Some n => n | None => ps_next st end in
  let next := match explicit with Some _ => ps_next st | None => S (ps_next st) end in
  match pget order (ps_params st) with
  | None => mkps (ps_params st ++ [(order, fmt)]) (ps_errors st) count next
  | Some f2 =>
      if str_eqb f2 fmt then mkps (ps_params st) (ps_errors st) count next
      else mkps (ps_params st)
                (ps_errors st ++ [(render t_conflict [dec_of_nat order; fmt; f2], start)])
                count next
  end.

Definition params_of_occs (os : list occ) : pstate :=
  fold_left pstep os (mkps [] [] 0 1).

(* get_params([s]) for one string *)
Definition get_params (s : str) : result pstate :=
  do os <- scan_params s;
  Ok (params_of_occs os).

(* ---- check_params ------------------------------------------------------------------------ *)
(* sorted(lparams) with the value looked up for each key (keys of a dict are distinct) *)
Fixpoint insert_item (x : nat * str) (l : pmap) : pmap :=
  match l with
  | [] => [x]
  | y :: l' => if fst x <=? fst y then x :: l else y :: insert_item x l'
  end.
Definition sorted_items (m : pmap) : pmap := fold_right insert_item [] m.

Definition mem_nat (k : nat) (l : list nat) : bool := existsb (Nat.eqb k) l.

(* the body of `for order in sorted(lparams)` *)
Definition l10n_param_issue (params : pmap) (kv : nat * str) : list issue :=
  match pget (fst kv) params with
  | None => [tpl_issue y_not_in_ref (PInt 0) [dec_of_nat (fst kv); snd kv]]
  | Some f => if str_eqb f (snd kv) then [] else [lit_issue y_mismatch 0]
  end.

(* the body of `for order in params` *)
Definition ref_param_issue (lparams : pmap) (kv : nat * str) : list issue :=
  if mem_nat (fst kv) (map fst (sorted_items lparams)) then []
  else [tpl_issue y_not_in_l10n (PInt 0) [dec_of_nat (fst kv); snd kv]].

Definition var_issue (y : bool * str) (e : str * nat) : issue :=
  mkissue (fst y) (PInt (snd e)) (fst e) (snd y).

Definition check_params_st (params : pmap) (count : nat) (l : pstate) : list issue :=
  let conflicts := map (var_issue y_l10n_conflict) (ps_errors l) in
  let missing_ref := flat_map (l10n_param_issue params) (sorted_items (ps_params l)) in
  let missing_l10n := flat_map (ref_param_issue (ps_params l)) params in
  let has_errors := match conflicts ++ missing_ref ++ missing_l10n with [] => false | _ => true end in
  conflicts ++ missing_ref ++ missing_l10n ++
  (if negb has_errors && negb (Nat.eqb count (ps_count l)) then [lit_issue y_count 0] else []).

Definition check_params (params : pmap) (count : nat) (s : str) : result (list issue) :=
  do l <- get_params s;
  Ok (check_params_st params count l).

(* ---- check_string ([refNode], l10nEnt) -------------------------------------------------------- *)
Definition check_string (ref : node) (l10n : entity) : result (list issue) :=
  let l := e_node l10n in
  if not_translatable [l; ref] then Ok [lit_issue y_not_translatable 0]
  else if no_at_string [l] then Ok [lit_issue y_at_string 0]
  else
    let w := if no_at_string [ref] then [lit_issue y_at_string_ref 0] else [] in
    if non_simple_data l then Ok (w ++ [lit_issue y_non_simple 0])
    else
      do ap <- check_apostrophes (val l10n);
      do r <- get_params (text_content ref);
      do cp <- check_params (ps_params r) (ps_count r) (val l10n);
      Ok (w ++ ap ++ map (var_issue y_ref_conflict) (ps_errors r) ++ cp).

(* ---- AndroidChecker.check ------------------------------------------------------------------------ *)
Definition check (ref l10n : entity) : result (list issue) :=
  do enc <- check_base l10n;
  let rn := e_node ref in
  let ln := e_node l10n in
  if negb (str_eqb (n_name rn) (n_name ln)) then Ok (enc ++ [lit_issue y_incompatible 0])
  else if negb (str_eqb (n_name rn) s_string) then Ok (enc ++ [lit_issue y_unsupported 0])
  else
    do rest <- check_string rn l10n;
    Ok (enc ++ rest).

(* ---- wire format ------------------------------------------------------------------------------------ *)
Definition child_of_sx (x : sx) : child :=
  match to_nat (nth_sx 0 x) with
  | 0 => Text (to_str (nth_sx 1 x))
  | 1 => CData (to_str (nth_sx 1 x))
  | 2 => Elem
  | 3 => Comment
  | _ => Other
  end.

Definition node_of_sx (x : sx) : node :=
  mknode (to_str (nth_sx 0 x)) (to_option to_str (nth_sx 1 x))
         (to_list child_of_sx (nth_sx 2 x)) (to_str (nth_sx 3 x)).

Definition entity_of_sx (x : sx) : entity :=
  mkent (node_of_sx (nth_sx 0 x)) (to_str (nth_sx 1 x)) (to_str (nth_sx 2 x)).

Definition position_sx (p : position) : sx :=
  match p with PInt n => L [of_nat 0; of_nat n] | PEnt n => L [of_nat 1; of_nat n] end.

Definition issue_sx (i : issue) : sx :=
  L [of_bool (i_error i); position_sx (i_pos i); of_str (i_msg i); of_str (i_cat i)].
