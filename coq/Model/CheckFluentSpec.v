(* The vocabulary of property C08, written independently of the visitors of
   Model/CheckFluent.v: what the statement of the property speaks about (value
   presence, attribute-name sets, a bad style attribute, the references that
   stand in the value / in the attributes of a name, duplicated names and keys,
   plural categories).  Definitions only. *)
From Coq Require Import NArith List Bool Arith.
From CL Require Import Base.Str Generated.C08Facts Model.Ftl Model.CheckFluent.
Import ListNotations.

Definition attr_names (e : entry) : list str := map a_name (e_attrs e).

(* "the reference has a value": a Message with a value (a Term given as the
   reference never counts, ReferenceMessageVisitor has no visit_Term) *)
Definition ref_has_value (r : entry) : bool := negb (e_term r) && is_some (e_value r).
Definition has_value (l : entry) : bool := is_some (e_value l).

Definition subset_str (a b : list str) : bool := forallb (fun n => mem_str n b) a.
Definition same_attr_names (r l : entry) : bool :=
  subset_str (attr_names r) (attr_names l) && subset_str (attr_names l) (attr_names r).

(* a localized `style` attribute whose value is plain text that is not a
   parseable CSS size spec *)
Definition bad_style_attr (a : attribute) : bool :=
  str_eqb (a_name a) s_style &&
  match pattern_variants (a_value a) with
  | Some t => let (m, e) := parse_css_spec t in css_bad m e
  | None => false
  end.
Definition bad_style (l : entry) : bool := existsb bad_style_attr (e_attrs l).

(* ---- references ------------------------------------------------------------------ *)
(* (span start, name as reported, is it a term reference); a term reference with
   an attribute is not a reference in this sense *)
Definition ref_of_event (e : event) : list (nat * str * bool) :=
  match e with
  | EvMsgRef p id attr => [(p, msg_ref_name id attr, false)]
  | EvTermRef p id None => [(p, term_ref_name id, true)]
  | _ => []
  end.

Definition pattern_refs (p : pattern) : list (nat * str * bool) :=
  flat_map ref_of_event (walk_pattern false p).

Definition value_refs (e : entry) : list (nat * str * bool) :=
  match e_value e with Some (_, p) => pattern_refs p | None => [] end.

(* the references under a key: None = in the value, Some n = in any attribute named n *)
Definition refs_under (k : option str) (e : entry) : list (nat * str * bool) :=
  match k with
  | None => value_refs e
  | Some n => flat_map (fun a => if str_eqb (a_name a) n then pattern_refs (a_value a) else [])
                       (e_attrs e)
  end.

Definition ref_name (x : nat * str * bool) : str := snd (fst x).
Definition ref_names (k : option str) (e : entry) : list str := map ref_name (refs_under k e).

(* each name once, in the order of first occurrence *)
Definition uniq (l : list str) : list str := fold_left (fun acc x => set_add x acc) l [].

(* the keys the reference is asked about: the value, then each attribute name once *)
Definition ref_keys (r : entry) : list (option str) := None :: map Some (uniq (attr_names r)).

(* name -> type, each name once (first occurrence fixes the place, the last one the type) *)
Definition ref_dict (refs : list (nat * str * bool)) : refdict :=
  fold_left (fun d x => dset str_eqb (ref_name x) (snd x) d) refs [].

Definition missing_site (term : bool) : site := if term then y_missing_term_ref else y_missing_msg_ref.
Definition obsolete_site (term : bool) : site := if term then y_obsolete_term_ref else y_obsolete_msg_ref.

(* missing: per key of the reference, every referenced name that the localization
   does not reference under the same key; once per (key, name), at position 0 *)
Definition missing_spec (r l : entry) : list msg :=
  flat_map (fun k =>
    flat_map (fun nt => if mem_str (fst nt) (ref_names k l) then []
                        else [emit (missing_site (snd nt)) (KMissRef (snd nt)) 0 [fst nt]])
             (ref_dict (refs_under k r)))
    (ref_keys r).

(* obsolete: every reference occurrence of the localization whose name the
   reference does not have under the same key, at the occurrence *)
Definition obsolete_in (r : entry) (k : option str) (refs : list (nat * str * bool)) : list msg :=
  flat_map (fun x => if mem_str (ref_name x) (ref_names k r) then []
                     else [emit (obsolete_site (snd x)) (KObsRef (snd x)) (fst (fst x)) [ref_name x]])
           refs.
Definition obsolete_spec (r l : entry) : list msg :=
  obsolete_in r None (value_refs l)
  ++ flat_map (fun a => obsolete_in r (Some (a_name a)) (pattern_refs (a_value a))) (e_attrs l).

(* selecting messages by the append site they come from *)
Definition by_kind (kf : kind -> bool) (m : msg) : bool := kf (m_kind m).
Definition k_missing_ref (k : kind) : bool := match k with KMissRef _ => true | _ => false end.
Definition k_obsolete_ref (k : kind) : bool := match k with KObsRef _ => true | _ => false end.
Definition k_dup_attr (k : kind) : bool := match k with KDupAttr => true | _ => false end.
Definition k_dup_variant (k : kind) : bool := match k with KDupVariant => true | _ => false end.
Definition k_plural (k : kind) : bool := match k with KPlural => true | _ => false end.
Definition is_missing_ref : msg -> bool := by_kind k_missing_ref.
Definition is_obsolete_ref : msg -> bool := by_kind k_obsolete_ref.
Definition is_dup_attr : msg -> bool := by_kind k_dup_attr.
Definition is_dup_variant : msg -> bool := by_kind k_dup_variant.
Definition is_plural : msg -> bool := by_kind k_plural.

(* ---- duplicates ---------------------------------------------------------------------- *)
Section Count.
Context {T : Type} (eqb : T -> T -> bool).
Definition count_eq (x : T) (l : list T) : nat := length (filter (eqb x) l).
(* the items that have an equal among the others *)
Definition duplicated (items : list (T * nat)) : list (T * nat) :=
  filter (fun it => 2 <=? count_eq (fst it) (map fst items)) items.
End Count.

(* the select expressions a message visitor / the term visitor checks *)
Definition selects_of (evs : list event) : list (list (vkey * nat)) :=
  flat_map (fun e => match e with EvSelect keys => [keys] | _ => [] end) evs.
Definition message_events (l : entry) : list event :=
  events_of_value false l ++ flat_map (fun a => walk_pattern false (a_value a)) (e_attrs l).

Definition given_plurals (keys : list (vkey * nat)) : list str :=
  map (fun k => key_string (fst k)) keys.
