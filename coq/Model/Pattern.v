(* Model of compare_locales/paths/matcher.py: PatternParser, the node classes
   (Literal, Variable, AndroidLocale, Star, Starstar) with their `expand` and
   `regex_pattern`, and Pattern.  Definitions only.

   The regular expression TEXT that the Python code assembles and hands to
   re.compile is modelled as the regex AST that CPython's parser makes of that
   text (tr/rx2coq.py is the reference reading; the harness compares the two
   structurally for every generated case):
     re.escape(lit)            -> one [Chr false [(c,c)]] per character
     (?P<name>BODY)            -> Grp n BODY, n = number of groups opened so far + 1
     (?P=name)                 -> Bref (number of name)
     .+?                       -> Rep false 1 None (Chr true [(10,10)])
     [^/]*                     -> Rep true 0 None (Chr true [(47,47)])
     (?P<sN>.+SUFFIX)?         -> Alt (Grp n (Cat .+ SUFFIX)) Eps
     a sequence                -> right-nested Cat (cat_list)
   Errors of re.compile (duplicate or malformed group name, unknown
   back-reference) are one deferred flag: the text is assembled completely
   first (expansion errors win), then compiled. *)
From Coq Require Import NArith List Bool Arith.
From CL Require Import Base.Sx Base.Res Base.Str Regex.Rx Generated.Tables Generated.RxC11
  Generated.PathFacts.
Import ListNotations.

(* ---- patterns ------------------------------------------------------------ *)
Inductive node :=
| NLit (s : str)
| NVar (name : str) (repeat : bool)
| NAndroid (repeat : bool)
| NStar (n : nat)
| NStarstar (n : nat) (suffix : str).

Record pattern := mkpat {
  p_nodes : list node;
  p_root : option str;          (* already absolute, normalised, ending in "/" *)
  p_prefix : nat                (* prefix_length *)
}.

(* a value of an environment: Matcher environments hold parsed Patterns,
   Matcher.sub adds the matched groups as Literals *)
Inductive evalue :=
| EVLit (s : str)
| EVPat (p : pattern).

Definition env := list (str * evalue).

Fixpoint lookup {T} (k : str) (e : list (str * T)) : option T :=
  match e with
  | [] => None
  | (k', v) :: e' => if str_eqb k k' then Some v else lookup k e'
  end.

Definition remove {T} (k : str) (e : list (str * T)) : list (str * T) :=
  filter (fun kv => negb (str_eqb k (fst kv))) e.

(* dict[k] = v : keeps the position of an existing key *)
Fixpoint env_set {T} (k : str) (v : T) (e : list (str * T)) : list (str * T) :=
  match e with
  | [] => [(k, v)]
  | (k', v') :: e' => if str_eqb k k' then (k, v) :: e' else (k', v') :: env_set k v e'
  end.

(* d.update(items) *)
Definition env_update {T} (e items : list (str * T)) : list (str * T) :=
  fold_left (fun acc kv => env_set (fst kv) (snd kv) acc) items e.

Definition mem_str (k : str) (l : list str) : bool := existsb (str_eqb k) l.

(* ---- constants of the code ----------------------------------------------- *)
Definition c_slash : N := 47%N.
Definition s_android_locale : str :=
  of_ascii [97; 110; 100; 114; 111; 105; 100; 95; 108; 111; 99; 97; 108; 101].
Definition s_locale : str := of_ascii [108; 111; 99; 97; 108; 101].
Definition s_bplus : str := of_ascii [98; 43].          (* "b+" *)
Definition s_dash_r : str := of_ascii [45; 114].        (* "-r" *)
Definition c_dash : N := 45%N.
Definition c_plus : N := 43%N.

(* decimal digits of a number: "s%d" % number *)
Fixpoint dec_aux (fuel n : nat) (acc : str) : str :=
  match fuel with
  | O => acc
  | S f =>
      let acc' := N.of_nat (48 + n mod 10) :: acc in
      if n <? 10 then acc' else dec_aux f (n / 10) acc'
  end.
Definition dec (n : nat) : str := dec_aux (S n) n [].
Definition star_name (n : nat) : str := 115%N :: dec n.     (* "s" + digits *)

(* ---- PatternParser.parse --------------------------------------------------- *)
Record pstate := mkps {
  ps_nodes : list node;         (* reversed *)
  ps_cursor : nat;
  ps_star : nat;                (* next value of the itertools.count(1) *)
  ps_known : list str;
  ps_prefix : option nat
}.

Definition group_text (s : str) (g : nat) (x : mres) : option str :=
  match group g x with
  | Some (a, b) => Some (slice s a b)
  | None => None
  end.

(* truthiness of match.group(name): None and "" are false *)
Definition truthy_str (o : option str) : bool :=
  match o with Some (_ :: _) => true | _ => false end.

Definition text_or_empty (o : option str) : str :=
  match o with Some t => t | None => [] end.

Definition parse_step (s : str) (ps : pstate) (x : mres) : pstate :=
  (* if match.start() > self._cursor: append Literal *)
  let nodes := if ps_cursor ps <? m_start x
               then NLit (slice s (ps_cursor ps) (m_start x)) :: ps_nodes ps
               else ps_nodes ps in
  if truthy_str (group_text s g_path_special_variable x) then
    let varname := text_or_empty (group_text s g_path_special_varname x) in
    let known := mem_str varname (ps_known ps) in
    let n := if str_eqb varname s_android_locale then NAndroid known else NVar varname known in
    mkps (n :: nodes) (m_end x) (ps_star ps) (varname :: ps_known ps) (ps_prefix ps)
  else
    let prefix := match ps_prefix ps with
                  | None => Some (length nodes)
                  | Some p => Some p
                  end in
    let w := ps_star ps in
    let n := if truthy_str (group_text s g_path_special_star x) then NStar w
             else NStarstar w (text_or_empty (group_text s g_path_special_suffix x)) in
    mkps (n :: nodes) (m_end x) (S w) (ps_known ps) prefix.

Definition parse_pattern (s : str) : result pattern :=
  match rfinditer rx_path_special s with
  | None => Raise OutOfFuel
  | Some ms =>
      let ps := fold_left (parse_step s) ms (mkps [] 0 1 [] None) in
      let nodes := rev (NLit (skipn (ps_cursor ps) s) :: ps_nodes ps) in
      Ok (mkpat nodes None
                (match ps_prefix ps with Some p => p | None => length nodes end))
  end.

(* ---- expansion ------------------------------------------------------------- *)
(* what a child's expand() hands to "".join: a str, or (Star whose value in the
   environment is a Pattern) a non-string that makes join raise TypeError *)
Inductive item :=
| IStr (s : str)
| IBad.

(* regex calls of the Android code *)
Definition rsub (r : rx) (repl : mres -> result str) (s : str) : result str :=
  match rfinditer r s with
  | None => Raise OutOfFuel
  | Some ms =>
      (fix go (ms : list mres) (cur : nat) : result str :=
         match ms with
         | [] => Ok (skipn cur s)
         | x :: ms' =>
             do t <- repl x;
             do rest <- go ms' (m_end x);
             Ok (slice s cur (m_start x) ++ t ++ rest)
         end) ms 0
  end.

Definition map_lookup (tbl : list (str * str)) (k : str) : result str :=
  match lookup k tbl with Some v => Ok v | None => Raise KeyError end.

Definition replace_char (a b : N) (s : str) : str :=
  map (fun c => if N.eqb c a then b else c) s.

(* str.split("-") *)
Fixpoint split_char_aux (c : N) (s cur : str) : list str :=
  match s with
  | [] => [rev cur]
  | x :: s' => if N.eqb x c then rev cur :: split_char_aux c s' []
               else split_char_aux c s' (x :: cur)
  end.
Definition split_char (c : N) (s : str) : list str := split_char_aux c s [].

Definition has_char (c : N) (s : str) : bool := existsb (N.eqb c) s.

(* AndroidLocale._get_android_locale after the expansion of env["locale"] *)
Definition to_android (bcp47 : str) : result str :=
  do bcp47 <- rsub rx_android_legacy_out
                (fun x => map_lookup android_legacy_map (text_or_empty (group_text bcp47 1 x)))
                bcp47;
  match rmatch rx_android_lang_region bcp47 0 with
  | MFuel => Raise OutOfFuel
  | MSome _ =>
      (* "{}-r{}".format applied to the pieces of bcp47.split("-") *)
      match split_char c_dash bcp47 with
      | a :: b :: _ => Ok (a ++ s_dash_r ++ b)
      | _ => Raise IndexError
      end
  | MNone =>
      if has_char c_dash bcp47 then Ok (s_bplus ++ replace_char c_dash c_plus bcp47)
      else Ok bcp47
  end.

(* the android_locale -> locale post-processing of Matcher.match *)
Definition to_bcp47 (android : str) : result str :=
  do locale <-
    (if starts_with s_bplus android then Ok (replace_char c_plus c_dash (skipn 2 android))
     else rsub rx_android_region
            (fun x => Ok (c_dash :: text_or_empty (group_text android 1 x))) android);
  rsub rx_android_legacy_in
    (fun x => map_lookup android_standard_map (text_or_empty (group_text locale 1 x)))
    locale.

(* "".join over the expanded children *)
Fixpoint join_items (l : list item) : result str :=
  match l with
  | [] => Ok []
  | IStr s :: l' => do r <- join_items l'; Ok (s ++ r)
  | IBad :: _ => Raise TypeError
  end.

Definition item_str (i : item) : result str :=
  match i with IStr s => Ok s | IBad => Raise TypeError end.

(* Pattern._expand_children: every child with raise_missing=True; a
   MissingEnvironment stops the iteration (or is re-raised) *)
Fixpoint expand_children (en : node -> result item) (raise_missing : bool)
         (ns : list node) : result (list item) :=
  match ns with
  | [] => Ok []
  | n :: ns' =>
      match en n with
      | Ok i => do r <- expand_children en raise_missing ns'; Ok (i :: r)
      | Raise MissingEnv => if raise_missing then Raise MissingEnv else Ok []
      | Raise t => Raise t
      end
  end.

(* Pattern._first_segment: an empty pattern (the prefix of a pattern starting
   with a wildcard) and a leading wildcard are relative to the root; otherwise
   the expansion of the first node (os.path.isabs of a non-str raises TypeError) *)
Definition first_segment (en : node -> result item) (ns : list node) : result str :=
  match ns with
  | [] => Ok []
  | NStar _ :: _ | NStarstar _ _ :: _ => Ok []
  | n0 :: _ => do i <- en n0; item_str i
  end.

(* Pattern.expand; [en rm] is Node.expand(env, raise_missing=rm) for this env *)
Definition expand_with (en : bool -> node -> result item) (raise_missing : bool)
           (p : pattern) : result str :=
  do root <-
    match p_root p with
    | None => Ok []
    | Some r =>
        do first_seg <- first_segment (en false) (p_nodes p);
        Ok (if starts_with [c_slash] first_seg then [] else r)
    end;
  do items <- expand_children (en true) raise_missing (p_nodes p);
  do body <- join_items items;
  Ok (root ++ body).

(* Node.expand.  The recursion goes through the environment (a variable's
   value is a pattern that mentions variables); every step is on fuel. *)
Fixpoint expand_node (fuel : nat) (e : env) (raise_missing : bool) (n : node)
  : result item :=
  match fuel with
  | O => Raise OutOfFuel
  | S f =>
      match n with
      | NLit s => Ok (IStr s)
      | NVar name _ =>
          match lookup name e with
          | None => Raise MissingEnv
          | Some (EVLit s) => Ok (IStr s)
          | Some (EVPat p) =>
              do s <- expand_with (expand_node f (remove name e)) raise_missing p;
              Ok (IStr s)
          end
      | NAndroid _ =>
          match lookup s_locale e with
          | None => Raise MissingEnv
          | Some v =>
              do bcp47 <-
                match v with
                | EVLit s => Ok s
                | EVPat p => expand_with (expand_node f (remove s_android_locale e)) false p
                end;
              do a <- to_android bcp47;
              Ok (IStr a)
          end
      | NStar k | NStarstar k _ =>
          match lookup (star_name k) e with
          | None => Raise KeyError
          | Some (EVLit s) => Ok (IStr s)
          | Some (EVPat _) => Ok IBad
          end
      end
  end.

(* enough for every terminating expansion (Proofs/PatternFuel.v); running out
   means the Python code recurses without bound *)
Definition expand_fuel (e : env) : nat := 2 * length e + 3.

Definition expand_pattern (e : env) (raise_missing : bool) (p : pattern) : result str :=
  expand_with (expand_node (expand_fuel e) e) raise_missing p.

(* AndroidLocale._get_android_locale(env) *)
Definition get_android_locale (e : env) : result (option str) :=
  match lookup s_locale e with
  | None => Ok None
  | Some v =>
      do bcp47 <-
        match v with
        | EVLit s => Ok s
        | EVPat p =>
            let e' := remove s_android_locale e in
            expand_with (expand_node (expand_fuel e) e') false p
        end;
      do a <- to_android bcp47;
      Ok (Some a)
  end.

(* ---- regex_pattern --------------------------------------------------------- *)
Definition chr_lit (c : N) : rx := Chr false [(c, c)].
Definition rx_any : rx := Chr true [(10, 10)]%N.                 (* . *)
Definition rx_lazy_any : rx := Rep false 1 None rx_any.           (* .+? *)
Definition rx_not_slash : rx := Rep true 0 None (Chr true [(c_slash, c_slash)]).  (* [^/]* *)
Definition rx_any_plus : rx := Rep true 1 None rx_any.            (* .+ *)

Fixpoint cat_list (l : list rx) : rx :=
  match l with
  | [] => Eps
  | [x] => x
  | x :: l' => Cat x (cat_list l')
  end.

(* compile state: next group number, names in order of definition, deferred
   re.error *)
Record cst := mkcst {
  c_next : nat;
  c_names : list (str * nat);
  c_err : bool
}.

(* str.isidentifier for ASCII names; the parser's [\w]+ admits more *)
Definition is_ascii (s : str) : bool := forallb (fun c => N.ltb c 128) s.
Definition valid_group_name (s : str) : bool :=
  match s with
  | [] => false
  | c :: _ => negb (N.leb 48 c && N.leb c 57)
  end.

(* (?P<name> ... : opens the next group *)
Definition open_group (name : str) (c : cst) : nat * cst :=
  let g := c_next c in
  let dup := match lookup name (c_names c) with Some _ => true | None => false end in
  (g, mkcst (S g) (c_names c ++ [(name, g)])
            (c_err c || dup || negb (valid_group_name name))).

(* (?P=name) *)
Definition back_ref (name : str) (c : cst) : rx * cst :=
  match lookup name (c_names c) with
  | Some g => (Bref g, c)
  | None => (Eps, mkcst (c_next c) (c_names c) true)
  end.

Fixpoint rx_children (rn : node -> cst -> result (list rx * cst)) (ns : list node) (c : cst)
  : result (list rx * cst) :=
  match ns with
  | [] => Ok ([], c)
  | n :: ns' =>
      do (a, c1) <- rn n c;
      do (b, c2) <- rx_children rn ns' c1;
      Ok (a ++ b, c2)
  end.

(* Pattern.regex_pattern *)
Definition rx_pattern_with (en : node -> result item) (rn : node -> cst -> result (list rx * cst))
           (p : pattern) (c : cst) : result (list rx * cst) :=
  do root <-
    match p_root p with
    | None => Ok []
    | Some r =>
        do first_seg <- first_segment en (p_nodes p);
        Ok (if starts_with [c_slash] first_seg then [] else map chr_lit r)
    end;
  do (body, c') <- rx_children rn (p_nodes p) c;
  Ok (root ++ body, c').

Definition named_group (name : str) (c : cst)
           (body : cst -> result (list rx * cst)) : result (list rx * cst) :=
  let (g, c1) := open_group name c in
  do (b, c2) <- body c1;
  Ok ([Grp g (cat_list b)], c2).

(* Node.regex_pattern(env) *)
Fixpoint rx_node (fuel : nat) (e : env) (n : node) (c : cst) : result (list rx * cst) :=
  match fuel with
  | O => Raise OutOfFuel
  | S f =>
      match n with
      | NLit s => Ok (map chr_lit s, c)
      | NVar name true => let (r, c') := back_ref name c in Ok ([r], c')
      | NVar name false =>
          if negb (is_ascii name) then Raise NotSupported else
          named_group name c (fun c1 =>
            match lookup name e with
            | None => Ok ([rx_lazy_any], c1)
            | Some (EVLit s) => Ok (map chr_lit s, c1)
            | Some (EVPat p) =>
                let e' := remove name e in
                rx_pattern_with (expand_node (expand_fuel e') e' false) (rx_node f e') p c1
            end)
      | NAndroid true => let (r, c') := back_ref s_android_locale c in Ok ([r], c')
      | NAndroid false =>
          named_group s_android_locale c (fun c1 =>
            do a <- get_android_locale e;
            match a with
            | Some a => Ok (map chr_lit a, c1)
            | None => Ok ([rx_lazy_any], c1)
            end)
      | NStar k =>
          named_group (star_name k) c (fun c1 => Ok ([rx_not_slash], c1))
      | NStarstar k suffix =>
          do (g, c') <- named_group (star_name k) c
                          (fun c1 => Ok (rx_any_plus :: map chr_lit suffix, c1));
          Ok ([Alt (cat_list g) Eps], c')
      end
  end.

Definition rx_fuel (e : env) : nat := S (length e).

(* the compiled regular expression of Matcher._cache_regex: pattern text + "$" *)
Definition regex_of_pattern (e : env) (p : pattern) : result (rx * list (str * nat)) :=
  do (items, c) <- rx_pattern_with (expand_node (expand_fuel e) e false)
                                   (rx_node (rx_fuel e) e) p (mkcst 1 [] false);
  if c_err c then Raise ReError
  else Ok (cat_list (items ++ [Eol false]), c_names c).
