(* Model of difflib.SequenceMatcher(None, a, b) as used by
   checks/properties.py checkPrintf: find_longest_match, get_matching_blocks,
   get_opcodes, WITHOUT the junk heuristics.

   What is not modelled, and why it does not matter below the stated bound:
   * isjunk is None in checkPrintf, so bjunk is empty;
   * autojunk removes "popular" elements from b2j only when len(b) >= 200;
     [autojunk_threshold] is that bound and the callers of this model refuse
     (Raise NotSupported) to answer at or above it;
   * with bjunk empty and nothing popular, the four extension loops at the end
     of find_longest_match never iterate (the block found by the table scan is
     already maximal, and the junk loops test membership in the empty set).
   The suite DIFFLIB compares [get_opcodes] with CPython's difflib on all pairs
   of short lists over a three-letter alphabet.

   Definitions only; proofs are in Proofs/DifflibProofs.v. *)
From Coq Require Import List Bool Arith.
Import ListNotations.

Definition autojunk_threshold : nat := 200.

Section Difflib.
Context {T : Type} (eqb : T -> T -> bool).

(* l[lo:hi] for 0 <= lo, hi *)
Definition sl (l : list T) (lo hi : nat) : list T := firstn (hi - lo) (skipn lo l).

Definition block := (nat * nat * nat)%type.          (* Match(a, b, size) *)
Definition b_i (x : block) : nat := fst (fst x).
Definition b_j (x : block) : nat := snd (fst x).
Definition b_k (x : block) : nat := snd x.

(* ---- find_longest_match(alo, ahi, blo, bhi) ---------------------------------
   The dict j2len is kept densely over j in [blo, bhi): [prev] holds
   j2len.get(j, 0) for the previous i.  b2j[a[i]] lists the positions of a[i]
   in b in ascending order, which is the order the row is scanned in.

   newj2len for x = a[i]:  k = j2len.get(j-1, 0) + 1 where b[j] == x.
   [diag] is j2len.get(j-1, 0) (0 at j = blo: positions below blo are skipped
   by the loop and so never stored) *)
Fixpoint next_row (x : T) (bs : list T) (prev : list nat) (diag : nat) : list nat :=
  match bs, prev with
  | y :: bs', p :: prev' => (if eqb x y then S diag else 0) :: next_row x bs' prev' p
  | _, _ => []
  end.

(* if k > bestsize: besti, bestj, bestsize = i-k+1, j-k+1, k     (j = blo + t) *)
Fixpoint scan_row (i blo t : nat) (row : list nat) (best : block) : block :=
  match row with
  | [] => best
  | k :: row' =>
      let best' := if b_k best <? k then (S i - k, S (blo + t) - k, k) else best in
      scan_row i blo (S t) row' best'
  end.

Fixpoint flm_loop (xs : list T) (i : nat) (bs : list T) (blo : nat)
         (prev : list nat) (best : block) : block :=
  match xs with
  | [] => best
  | x :: xs' =>
      let row := next_row x bs prev 0 in
      flm_loop xs' (S i) bs blo row (scan_row i blo 0 row best)
  end.

Definition find_longest_match (a b : list T) (alo ahi blo bhi : nat) : block :=
  let bs := sl b blo bhi in
  flm_loop (sl a alo ahi) alo bs blo (repeat 0 (length bs)) (alo, blo, 0).

(* ---- get_matching_blocks ------------------------------------------------------
   queue = [(0, la, 0, lb)]; while queue: pop the LAST element ...
   The queue is kept with its last element first. *)
Definition region := (nat * nat * nat * nat)%type.

Fixpoint mb_loop (a b : list T) (fuel : nat) (queue : list region) (acc : list block)
  : option (list block) :=
  match queue with
  | [] => Some acc
  | (alo, ahi, blo, bhi) :: q =>
      match fuel with
      | O => None
      | S f =>
          let x := find_longest_match a b alo ahi blo bhi in
          let '(i, j, k) := x in
          if Nat.eqb k 0 then mb_loop a b f q acc
          else
            let q1 := if (alo <? i) && (blo <? j) then (alo, i, blo, j) :: q else q in
            let q2 := if (i + k <? ahi) && (j + k <? bhi) then (i + k, ahi, j + k, bhi) :: q1
                      else q1 in
            mb_loop a b f q2 (acc ++ [x])
      end
  end.

(* list.sort() on tuples of ints: lexicographic; insertion sort (any sort gives
   the same list: equal keys are equal elements) *)
Definition block_leb (x y : block) : bool :=
  (b_i x <? b_i y) ||
  (Nat.eqb (b_i x) (b_i y) &&
   ((b_j x <? b_j y) || (Nat.eqb (b_j x) (b_j y) && (b_k x <=? b_k y)))).

Fixpoint insert_block (x : block) (l : list block) : list block :=
  match l with
  | [] => [x]
  | y :: l' => if block_leb x y then x :: l else y :: insert_block x l'
  end.

Definition sort_blocks (l : list block) : list block := fold_right insert_block [] l.

(* the loop collapsing adjacent blocks; (i1, j1, k1) is the pending block *)
Fixpoint collapse (l : list block) (i1 j1 k1 : nat) : list block :=
  match l with
  | [] => if Nat.eqb k1 0 then [] else [(i1, j1, k1)]
  | (i2, j2, k2) :: l' =>
      if Nat.eqb (i1 + k1) i2 && Nat.eqb (j1 + k1) j2 then collapse l' i1 j1 (k1 + k2)
      else (if Nat.eqb k1 0 then [] else [(i1, j1, k1)]) ++ collapse l' i2 j2 k2
  end.

(* every pop strictly lowers sum (2 * (ahi - alo) + 1) over the queue *)
Definition mb_fuel (a : list T) : nat := 2 * length a + 2.

Definition get_matching_blocks (a b : list T) : option (list block) :=
  match mb_loop a b (mb_fuel a) [(0, length a, 0, length b)] [] with
  | None => None
  | Some bl => Some (collapse (sort_blocks bl) 0 0 0 ++ [(length a, length b, 0)])
  end.

(* ---- get_opcodes ------------------------------------------------------------ *)
Inductive optag := Replace | Delete | Insert | Equal.

Record opcode := mkop { o_tag : optag; o_i1 : nat; o_i2 : nat; o_j1 : nat; o_j2 : nat }.

Fixpoint opcodes_of (bl : list block) (i j : nat) : list opcode :=
  match bl with
  | [] => []
  | (ai, bj, size) :: bl' =>
      let diff :=
        if (i <? ai) && (j <? bj) then [mkop Replace i ai j bj]
        else if i <? ai then [mkop Delete i ai j bj]
        else if j <? bj then [mkop Insert i ai j bj]
        else [] in
      let eq := if Nat.eqb size 0 then [] else [mkop Equal ai (ai + size) bj (bj + size)] in
      diff ++ eq ++ opcodes_of bl' (ai + size) (bj + size)
  end.

Definition get_opcodes (a b : list T) : option (list opcode) :=
  match get_matching_blocks a b with
  | None => None
  | Some bl => Some (opcodes_of bl 0 0)
  end.

End Difflib.
