(* Model of compare_locales/paths/project.py: ProjectConfig._compile_rule,
   add_rules, set_locales, add_paths, add_child, exclude, configs, all_locales
   (with its _all_locales cache), FilterCache / cache, _filter and filter.
   Definitions only; proofs are in Proofs/Filter*.v.

   Path matching (paths.matcher.Matcher) is a PARAMETER: a rule's path and a
   configuration's l10n paths are abstract matchers with
   [matches m locale file] = `m.with_env({"locale": locale}).match(file.fullpath)
   is not None` (an empty dictionary, returned for a pattern without variables
   or wildcards, is a match).  The user's regular expressions (`re:` keys) are compiled by
   the parameter [compile_re] (CPython's re.compile; None = re.error).
   Entity keys are strings (a PO (msgid, msgctxt) tuple makes
   `rule["key"].match(entity)` raise TypeError; tuples are outside the model's
   input domain).  Actions are the three names `_filter` tests for
   (Generated/FilterFacts.v); a rule with another action string is outside the
   model.  filter_py (legacy filter.py) is not modelled (None). *)
From Coq Require Import NArith List Bool Arith.
From CL Require Import Base.Sx Base.Res Base.Str Regex.Rx Generated.FilterFacts Generated.RxC14.
Import ListNotations.

(* re.escape(key) + suffix, parsed: the literal characters, then the suffix *)
Definition lit_rx (s : str) : rx :=
  fold_right (fun c r => Cat (Chr false [(c, c)]) r) rx_c14_key_suffix s.

(* `pattern.match(entity)` is not None.  MFuel cannot happen
   (RxLemmas.rmatch_no_fuel); it is mapped to "no match" here and the theorem
   C14_key_no_fuel states that the branch is dead. *)
Definition is_match (r : mr) : bool :=
  match r with MSome _ => true | _ => false end.
Definition key_match (r : rx) (e : str) : bool := is_match (rmatch r e 0).

Definition oact_eqb (a b : option action) : bool :=
  match a, b with
  | Some x, Some y => action_beq x y
  | None, None => true
  | _, _ => false
  end.
(* `x in actions` for the set of the children's results and the own action *)
Definition mem_act (x : option action) (l : list (option action)) : bool :=
  existsb (oact_eqb x) l.

(* the final chain of _filter: the first name of sev_order that is in the
   set; None when none is *)
Definition merge_acts (acts : list (option action)) : option action :=
  find (fun a => mem_act (Some a) acts) sev_order.

(* any(step(x) for x in l) where step also updates x's state: elements after
   the first hit are not evaluated *)
Definition scan_until {A} (step : A -> bool * A) : list A -> bool * list A :=
  fix go (l : list A) : bool * list A :=
  match l with
  | [] => (false, [])
  | x :: l' =>
      let '(b, x') := step x in
      if b then (true, x' :: l')
      else let '(b', l'') := go l' in (b', x' :: l'')
  end.

Definition mapM {A B} (f : A -> result B) : list A -> result (list B) :=
  fix go (l : list A) : result (list B) :=
  match l with
  | [] => Ok []
  | x :: l' => do y <- f x; do ys <- go l'; Ok (y :: ys)
  end.

Section Filter.
Variables (matcher locale file : Type).
Variable loc_eqb : locale -> locale -> bool.
Variable matches : matcher -> locale -> file -> bool.
Variable compile_re : str -> option rx.

Definition mem_loc (l : locale) (ls : list locale) : bool := existsb (loc_eqb l) ls.

(* ---- rules ------------------------------------------------------------- *)
(* a compiled rule: {"path": Matcher, "key": compiled pattern (optional), "action"} *)
Record rule := mkrule { r_path : matcher; r_key : option rx; r_action : action }.

(* the value of "key" in a rule dictionary: a string or a (nested) list *)
Inductive rawkey := RK (s : str) | RKs (l : list rawkey).
(* the value of "path": a string / Matcher, or a list of them *)
Inductive rawpath := RPone (m : matcher) | RPlist (l : list matcher).
Record rawrule := mkraw { rr_path : rawpath; rr_key : option rawkey; rr_action : action }.

Fixpoint flat_keys (k : rawkey) : list str :=
  match k with
  | RK s => [s]
  | RKs l => flat_map flat_keys l
  end.

Definition paths_of (p : rawpath) : list matcher :=
  match p with RPone m => [m] | RPlist l => l end.

(* the last lines of _compile_rule *)
Definition compile_key (s : str) : result rx :=
  if starts_with key_re_prefix s then
    match compile_re (skipn key_re_skip s) with
    | Some r => Ok r
    | None => Raise ReError
    end
  else Ok (lit_rx s).

(* `for key in rule["key"]` (flattened depth first), path already a Matcher *)
Fixpoint compile_keys (p : matcher) (a : action) (ks : list str) : result (list rule) :=
  match ks with
  | [] => Ok []
  | s :: ks' =>
      do r <- compile_key s;
      do rest <- compile_keys p a ks';
      Ok (mkrule p (Some r) a :: rest)
  end.

(* `for path in rule["path"]` *)
Fixpoint compile_paths (ps : list matcher) (k : option rawkey) (a : action) : result (list rule) :=
  match ps with
  | [] => Ok []
  | p :: ps' =>
      do here <- match k with
                 | None => Ok [mkrule p None a]
                 | Some k' => compile_keys p a (flat_keys k')
                 end;
      do rest <- compile_paths ps' k a;
      Ok (here ++ rest)
  end.

Definition compile_rule (r : rawrule) : result (list rule) :=
  compile_paths (paths_of (rr_path r)) (rr_key r) (rr_action r).

(* the loop of add_rules.  (When a later key fails to compile the rules
   yielded before it have already been appended by list.extend; the state
   after the exception is not modelled.) *)
Fixpoint compile_rules (rs : list rawrule) : result (list rule) :=
  match rs with
  | [] => Ok []
  | r :: rs' => do a <- compile_rule r; do b <- compile_rules rs'; Ok (a ++ b)
  end.

(* ---- configurations ---------------------------------------------------- *)
(* a paths dictionary: {"l10n": Matcher, "locales": [...] (optional)} *)
Record pathd := mkpath { p_l10n : matcher; p_locales : option (list locale) }.

(* `matcher.with_env({"locale": locale})` *)
Definition bmatcher := (matcher * locale)%type.
Definition bmatch (b : bmatcher) (f : file) : bool := matches (fst b) (snd b) f.

Record crule := mkcrule { cr_path : bmatcher; cr_key : option rx; cr_action : action }.
Record fcache := mkfc { fc_locale : locale; fc_rules : list crule; fc_paths : list bmatcher }.

(* locales, _all_locales, paths, rules, _cache, children, excludes *)
Inductive config :=
  mkconfig (locs : option (list locale)) (allc : option (list locale))
           (paths : list pathd) (rules : list rule) (fc : option fcache)
           (children excludes : list config).

Definition c_locales c := match c with mkconfig a _ _ _ _ _ _ => a end.
Definition c_allc c := match c with mkconfig _ a _ _ _ _ _ => a end.
Definition c_paths c := match c with mkconfig _ _ a _ _ _ _ => a end.
Definition c_rules c := match c with mkconfig _ _ _ a _ _ _ => a end.
Definition c_fc c := match c with mkconfig _ _ _ _ a _ _ => a end.
Definition c_children c := match c with mkconfig _ _ _ _ _ a _ => a end.
Definition c_excludes c := match c with mkconfig _ _ _ _ _ _ a => a end.

Definition set_allc (v : option (list locale)) (c : config) : config :=
  match c with mkconfig a _ p r f ch ex => mkconfig a v p r f ch ex end.

(* ProjectConfig(path) *)
Definition new_config : config := mkconfig None None [] [] None [] [].

(* ProjectConfig.configs *)
Fixpoint configs (c : config) : list config :=
  match c with
  | mkconfig _ _ _ _ _ children _ => c :: flat_map configs children
  end.

Definition own_locales (c : config) : list locale :=
  match c_locales c with Some l => l | None => [] end ++
  flat_map (fun p => match p_locales p with Some l => l | None => [] end) (c_paths c).

(* the set all_locales computes (as a list: only `in` is ever applied to it,
   so the order and the duplicates sorted(set) removes are not observable) *)
Definition all_locales_pure (c : config) : list locale :=
  flat_map own_locales (configs c).

(* the all_locales property: computed once, kept in _all_locales *)
Definition all_locales_st (c : config) : list locale * config :=
  match c_allc c with
  | Some l => (l, c)
  | None => let l := all_locales_pure c in (l, set_allc (Some l) c)
  end.

(* ---- the operations that build a configuration ------------------------- *)
Definition add_rules (c : config) (rs : list rawrule) : result config :=
  do new <- compile_rules rs;
  match c with
  | mkconfig a al p r f ch ex => Ok (mkconfig a al p (r ++ new) f ch ex)
  end.

Definition set_locales (c : config) (ls : list locale) : config :=
  match c with mkconfig _ _ p r f ch ex => mkconfig (Some ls) None p r f ch ex end.

Definition add_paths (c : config) (ps : list pathd) : config :=
  match c with mkconfig a _ p r f ch ex => mkconfig a None (p ++ ps) r f ch ex end.

Definition has_excludes (c : config) : bool :=
  match c_excludes c with [] => false | _ => true end.

(* ExcludeError is a ValueError *)
Definition add_child (c child : config) : result config :=
  match c with
  | mkconfig a _ p r f ch ex =>
      if has_excludes child then Raise ValueError
      else Ok (mkconfig a None p r f (ch ++ [child]) ex)
  end.

Definition exclude (c child : config) : result config :=
  if existsb has_excludes (configs child) then Raise ValueError
  else match c with
       | mkconfig a al p r f ch ex => Ok (mkconfig a al p r f ch (ex ++ [child]))
       end.

(* ---- FilterCache / cache ------------------------------------------------ *)
Definition build_cache (loc : locale) (paths : list pathd) (rules : list rule) : fcache :=
  mkfc loc
       (map (fun r => mkcrule (r_path r, loc) (r_key r) (r_action r)) rules)
       (flat_map (fun p =>
                    match p_locales p with
                    | Some ls => if mem_loc loc ls then [(p_l10n p, loc)] else []
                    | None => [(p_l10n p, loc)]
                    end) paths).

(* `if self._cache and self._cache.locale == locale: return self._cache` *)
Definition get_cache (fc : option fcache) (loc : locale) (paths : list pathd)
           (rules : list rule) : fcache :=
  match fc with
  | Some ch => if loc_eqb (fc_locale ch) loc then ch else build_cache loc paths rules
  | None => build_cache loc paths rules
  end.

(* `for rule in reversed(cached.rules)` with its three `continue`s; the
   argument is the reversed list *)
Fixpoint scan_rules (rs : list crule) (f : file) (ent : option str) : action :=
  match rs with
  | [] => act_default
  | r :: rs' =>
      if negb (bmatch (cr_path r) f) then scan_rules rs' f ent
      else if xorb (match cr_key r with Some _ => true | None => false end)
                   (match ent with Some _ => true | None => false end)
      then scan_rules rs' f ent
      else match cr_key r, ent with
           | Some k, Some e => if negb (key_match k e) then scan_rules rs' f ent
                               else cr_action r
           | _, _ => cr_action r
           end
  end.

(* `if any(p.match(fullpath) is not None for p in cached.l10n_paths): ... actions.add(action)` *)
Definition own_action (ch : fcache) (f : file) (ent : option str) : option action :=
  if existsb (fun p => bmatch p f) (fc_paths ch)
  then Some (scan_rules (rev (fc_rules ch)) f ent)
  else None.

(* filter(): the locale test, then _filter ([node]), None -> act_none *)
Definition filter_wrap (node : config -> option action * config)
           (c : config) (loc : locale) : action * config :=
  let '(ls, c1) := all_locales_st c in
  if mem_loc loc ls then
    let '(v, c2) := node c in
    (match v with Some a => a | None => act_none end, set_allc (c_allc c1) c2)
  else (act_uncovered, c1).

(* _filter; returns the verdict and the configuration with its caches updated.
   ([node] never touches the _all_locales slot of its own root, so setting
   it before or after the call is the same.) *)
Fixpoint filter_node (c : config) (loc : locale) (f : file) (ent : option str) {struct c}
  : option action * config :=
  match c with
  | mkconfig locs allc paths rules fc children excludes =>
      let '(hit, excludes') :=
        scan_until (fun e =>
                      let '(v, e') := filter_wrap (fun x => filter_node x loc f None) e loc in
                      (action_beq v act_exclude_trigger, e')) excludes in
      if hit then (None, mkconfig locs allc paths rules fc children excludes')
      else
        let results := map (fun ch => filter_node ch loc f ent) children in
        let actions := map fst results in
        let children' := map snd results in
        if mem_act (Some act_early) actions
        then (Some act_early, mkconfig locs allc paths rules fc children' excludes')
        else
          let cached := get_cache fc loc paths rules in
          let actions' := match own_action cached f ent with
                          | Some a => Some a :: actions
                          | None => actions
                          end in
          (merge_acts actions',
           mkconfig locs allc paths rules (Some cached) children' excludes')
  end.

Definition filter_st (c : config) (loc : locale) (f : file) (ent : option str)
  : action * config :=
  filter_wrap (fun x => filter_node x loc f ent) c loc.

(* ---- the same without caches (what a freshly built configuration answers) *)
Definition loc_ok (p : pathd) (loc : locale) : bool :=
  match p_locales p with Some ls => mem_loc loc ls | None => true end.

Fixpoint scan_rules_pure (rs : list rule) (loc : locale) (f : file) (ent : option str) : action :=
  match rs with
  | [] => act_default
  | r :: rs' =>
      if negb (matches (r_path r) loc f) then scan_rules_pure rs' loc f ent
      else if xorb (match r_key r with Some _ => true | None => false end)
                   (match ent with Some _ => true | None => false end)
      then scan_rules_pure rs' loc f ent
      else match r_key r, ent with
           | Some k, Some e => if negb (key_match k e) then scan_rules_pure rs' loc f ent
                               else r_action r
           | _, _ => r_action r
           end
  end.

Definition own_action_pure (paths : list pathd) (rules : list rule)
           (loc : locale) (f : file) (ent : option str) : option action :=
  if existsb (fun p => loc_ok p loc && matches (p_l10n p) loc f) paths
  then Some (scan_rules_pure (rev rules) loc f ent)
  else None.

Definition filter_wrap_pure (node : config -> option action) (c : config) (loc : locale) : action :=
  if mem_loc loc (all_locales_pure c) then
    match node c with Some a => a | None => act_none end
  else act_uncovered.

Fixpoint filter_node_pure (c : config) (loc : locale) (f : file) (ent : option str)
  : option action :=
  match c with
  | mkconfig locs allc paths rules fc children excludes =>
      if existsb (fun e => action_beq
                             (filter_wrap_pure (fun x => filter_node_pure x loc f None) e loc)
                             act_exclude_trigger) excludes
      then None
      else
        let actions := map (fun ch => filter_node_pure ch loc f ent) children in
        if mem_act (Some act_early) actions then Some act_early
        else merge_acts (match own_action_pure paths rules loc f ent with
                         | Some a => Some a :: actions
                         | None => actions
                         end)
  end.

Definition filter_pure (c : config) (loc : locale) (f : file) (ent : option str) : action :=
  filter_wrap_pure (fun x => filter_node_pure x loc f ent) c loc.

(* ---- building a configuration the way TOMLParser.parse does ------------- *)
(* the data of one configuration file: locales, paths, filters, includes, excludes *)
Inductive rawconfig :=
  mkrawc (locs : option (list locale)) (paths : list pathd) (rules : list rawrule)
         (children excludes : list rawconfig).

Fixpoint fold_res {A B} (f : A -> B -> result A) (l : list B) (a : A) : result A :=
  match l with
  | [] => Ok a
  | x :: l' => do a' <- f a x; fold_res f l' a'
  end.

(* processPaths, processFilters, processIncludes, processExcludes, processLocales *)
Fixpoint build (r : rawconfig) : result config :=
  match r with
  | mkrawc locs paths rules children excludes =>
      let c0 := add_paths new_config paths in
      do c1 <- add_rules c0 rules;
      do cs <- mapM build children;
      do c2 <- fold_res add_child cs c1;
      do es <- mapM build excludes;
      do c3 <- fold_res exclude es c2;
      Ok (match locs with Some l => set_locales c3 l | None => c3 end)
  end.

(* ---- sessions: configuration changes interleaved with queries ----------- *)
(* addresses a configuration inside the tree: (false, i) = children[i],
   (true, i) = excludes[i] *)
Definition cpath := list (bool * nat).

Fixpoint upd_nth {A} (n : nat) (g : A -> result A) (l : list A) : result (list A) :=
  match l, n with
  | [], _ => Raise IndexError
  | x :: l', O => do x' <- g x; Ok (x' :: l')
  | x :: l', S n' => do l'' <- upd_nth n' g l'; Ok (x :: l'')
  end.

Fixpoint update_at (p : cpath) (g : config -> result config) (c : config) : result config :=
  match p with
  | [] => g c
  | (ex, i) :: p' =>
      match c with
      | mkconfig a al ps r f ch exs =>
          if ex then do exs' <- upd_nth i (update_at p' g) exs; Ok (mkconfig a al ps r f ch exs')
          else do ch' <- upd_nth i (update_at p' g) ch; Ok (mkconfig a al ps r f ch' exs)
      end
  end.

Inductive op :=
| OQuery (loc : locale) (f : file) (ent : option str)
| OAddRules (p : cpath) (rs : list rawrule)
| OSetLocales (p : cpath) (ls : list locale)
| OAddPaths (p : cpath) (ps : list pathd).

(* the answers of the queries, in order; beside each the cache-free answer of
   the configuration as it is at that moment *)
Fixpoint run_ops (c : config) (ops : list op) : result (list (action * action)) :=
  match ops with
  | [] => Ok []
  | OQuery loc f ent :: ops' =>
      let '(v, c') := filter_st c loc f ent in
      do rest <- run_ops c' ops'; Ok ((v, filter_pure c loc f ent) :: rest)
  | OAddRules p rs :: ops' =>
      do c' <- update_at p (fun x => add_rules x rs) c; run_ops c' ops'
  | OSetLocales p ls :: ops' =>
      do c' <- update_at p (fun x => Ok (set_locales x ls)) c; run_ops c' ops'
  | OAddPaths p ps :: ops' =>
      do c' <- update_at p (fun x => Ok (add_paths x ps)) c; run_ops c' ops'
  end.

(* ---- notions used to state cache transparency ---------------------------- *)
(* the configuration data without the two caches *)
Fixpoint erase (c : config) : config :=
  match c with
  | mkconfig locs _ paths rules _ children excludes =>
      mkconfig locs None paths rules None (map erase children) (map erase excludes)
  end.

(* "configuration is complete": every filled cache slot holds what would be
   computed now.  True of a freshly built configuration (all slots empty) and
   preserved by filter calls; add_rules / add_paths / set_locales on a
   configuration that was already queried break it. *)
Inductive coherent : config -> Prop :=
| coh : forall locs allc paths rules fc children excludes,
    (forall l, allc = Some l ->
               l = all_locales_pure (mkconfig locs allc paths rules fc children excludes)) ->
    (forall ch, fc = Some ch -> ch = build_cache (fc_locale ch) paths rules) ->
    Forall coherent children -> Forall coherent excludes ->
    coherent (mkconfig locs allc paths rules fc children excludes).

(* a sequence of filter calls on one configuration object *)
Fixpoint run_queries (c : config) (qs : list (locale * file * option str)) : list action :=
  match qs with
  | [] => []
  | (loc, f, ent) :: qs' =>
      let '(v, c') := filter_st c loc f ent in v :: run_queries c' qs'
  end.

End Filter.

