(* Model of parser/fluent.py FluentParser.walk over an oracle body: the list
   of top-level entries fluent.syntax returned for the text (kind, span, id
   span, value span, junk content). *)
From Coq Require Import NArith List Bool Arith.
From CL Require Import Base.Sx Base.Res Base.Str Regex.Rx Model.Entry Model.Parse.
Import ListNotations.

Inductive fkind := FMessage | FTerm | FJunk | FComment | FOther.

Record fentry := mkf {
  f_kind : fkind;
  f_span : span;
  f_id : span;                 (* entry.id.span (messages and terms) *)
  f_value : option span;       (* entry.value.span *)
  f_content : str              (* entry.content (junk) *)
}.

Section Fluent.
Context (reLead reTrail : rx).

(* start += re.match("[ \t\r\n]*", content).end() *)
Definition lead (content : str) : nat :=
  match omatch reLead content 0 with Some x => m_end x | None => 0 end.
(* ws, we = re.search("[ \t\r\n]*$", content).span(); end -= we - ws *)
Definition trail (content : str) : nat :=
  match osearch reTrail content 0 with Some x => m_end x - m_start x | None => 0 end.

(* content = entry.content
   if not content.strip(" \t\r\n"): content = ""     (white-space only junk is not trimmed) *)
Definition ftl_ws : list N := [32; 9; 13; 10]%N.
Definition all_ws (content : str) : bool := forallb (fun c => existsb (N.eqb c) ftl_ws) content.
Definition trim_content (content : str) : str := if all_ws content then [] else content.

Definition fluent_entity (e : fentry) : entry :=
  let key := match f_kind e with
             | FTerm => (fst (f_id e) - 1, snd (f_id e))
             | _ => f_id e
             end in
  mkentry KEntity (f_span e) (Some key) (f_value e) None None.

Definition gap (only_loc : bool) (a b : nat) : list entry :=
  if negb only_loc && (a <? b) then [mk_white (a, b)] else [].

Fixpoint walk_fluent_from (only_loc : bool) (last_end : nat) (body : list fentry)
         (eof : nat) : list entry :=
  match body with
  | [] => gap only_loc last_end eof
  | e :: rest =>
      gap only_loc last_end (fst (f_span e)) ++
      (match f_kind e with
       | FMessage | FTerm => [fluent_entity e]
       | FJunk =>
           let content := trim_content (f_content e) in
           let start := fst (f_span e) + lead content in
           let end_ := snd (f_span e) - trail content in
           gap only_loc (fst (f_span e)) start ++ [mk_junk (start, end_)] ++
           gap only_loc end_ (snd (f_span e))
       | FComment => if only_loc then [] else [mk_comment (f_span e)]
       | FOther => []
       end) ++
      walk_fluent_from only_loc (snd (f_span e)) rest eof
  end.

Definition walk_fluent (only_loc : bool) (s : str) (body : list fentry) : list entry :=
  walk_fluent_from only_loc 0 body (length s).
End Fluent.
