(* Model of Parser.Context.linecol (parser/base.py) and of Entry.position /
   value_position / Junk.position.  Definitions only. *)
From Coq Require Import ZArith NArith List Bool Arith.
From CL Require Import Base.Sx Base.Res.
Import ListNotations.

Definition nl : N := 10%N.

(* [m.end() for m in re.compile("\n", re.M).finditer(contents)] *)
Fixpoint line_ends_from (i : nat) (s : list N) : list nat :=
  match s with
  | [] => []
  | c :: s' => if N.eqb c nl then S i :: line_ends_from (S i) s'
               else line_ends_from (S i) s'
  end.
Definition line_ends := line_ends_from 0.

(* bisect.bisect_right as documented:
     while lo < hi: mid = (lo+hi)//2; if x < a[mid]: hi = mid else: lo = mid+1 *)
Fixpoint bisect_loop (fuel : nat) (a : list nat) (x lo hi : nat) : option nat :=
  match fuel with
  | O => None
  | S f =>
      if lo <? hi then
        let mid := (lo + hi) / 2 in
        if x <? nth mid a 0 then bisect_loop f a x lo mid
        else bisect_loop f a x (S mid) hi
      else Some lo
  end.
Definition bisect (a : list nat) (x : nat) : option nat :=
  bisect_loop (S (length a)) a x 0 (length a).

(* returns (line, column), both 1-based; None only if the search ran out of fuel *)
Definition linecol (s : list N) (p : nat) : option (nat * nat) :=
  let ends := line_ends s in
  match bisect ends p with
  | None => None
  | Some k =>
      let line_start := match k with O => 0 | S k' => nth k' ends 0 end in
      Some (k + 1, p - line_start + 1)
  end.

(* Entry.position(offset) / Junk.position(offset) *)
Definition position (s : list N) (span : nat * nat) (offset : Z) : option (nat * nat) :=
  if (offset <? 0)%Z then linecol s (snd span)
  else linecol s (fst span + Z.to_nat offset).

(* ---- specification side ------------------------------------------------ *)
Definition is_nl (c : N) : bool := N.eqb c nl.
Definition count_nl (pre : list N) : nat := length (filter is_nl pre).

(* number of characters since the last newline, given n characters already
   in the current line *)
Fixpoint cur (n : nat) (pre : list N) : nat :=
  match pre with
  | [] => n
  | c :: pre' => if N.eqb c nl then cur 0 pre' else cur (S n) pre'
  end.

(* str.split("\n") *)
Fixpoint split_nl (s : list N) : list (list N) :=
  match s with
  | [] => [[]]
  | c :: s' =>
      match split_nl s' with
      | l :: ls => if N.eqb c nl then [] :: l :: ls else (c :: l) :: ls
      | [] => [[]]
      end
  end.

(* offset of (line L, column C), both 0-based, in the text whose lines are [lines] *)
Fixpoint pos_of (lines : list (list N)) (L C : nat) : nat :=
  match L with
  | O => C
  | S L' => match lines with
            | l :: ls => S (length l) + pos_of ls L' C
            | [] => 0
            end
  end.
