(* C05 — model of the parts of "comparison and linting always produce a report"
   that live in this repository's own code.  Definitions only.

   Mirrors
     checks/base.py    Checker.check            (the encoding warning per U+FFFD)
     compare/content.py ContentComparer.compare (the formatting branch: position
                        resolution through position / value_position, the message
                        template; and the try/except skeleton around readFile/parse)
                        ContentComparer.add     (skeleton)
     lint/linter.py    EntityLinter.lint_value  (same resolution, result dict)
                        L10nLinter.lint_file    (skeleton: nothing is guarded)

   The text handed to these functions is the DECODED file: the UTF-8 decoder with
   errors="replace" and universal newlines is an oracle outside the model (its
   arguments are generated facts: Generated/C05Facts.v c05_open_errors, ...; its
   contract — never raises, no carriage return, U+FFFD for undecodable bytes — is
   checked by the harness suite DECODE).  minidom/expat, xml.sax and
   fluent.syntax are oracles too: the skeleton takes "did this step raise" as
   inputs and the generated guard table says which steps are inside a handler.

   Regex and every literal come from Generated/RxC05.v / Generated/C05Facts.v. *)
From Coq Require Import ZArith NArith List Bool Arith.
From CL Require Import Base.Sx Base.Res Base.Str Regex.Rx Generated.RxC05 Generated.C05Facts
  Model.LineCol.
Import ListNotations.

(* ---- helpers ----------------------------------------------------------------- *)
(* str(int) for a non-negative int *)
Fixpoint uint_str (u : Decimal.uint) : str :=
  match u with
  | Decimal.Nil => []
  | Decimal.D0 u => 48%N :: uint_str u
  | Decimal.D1 u => 49%N :: uint_str u
  | Decimal.D2 u => 50%N :: uint_str u
  | Decimal.D3 u => 51%N :: uint_str u
  | Decimal.D4 u => 52%N :: uint_str u
  | Decimal.D5 u => 53%N :: uint_str u
  | Decimal.D6 u => 54%N :: uint_str u
  | Decimal.D7 u => 55%N :: uint_str u
  | Decimal.D8 u => 56%N :: uint_str u
  | Decimal.D9 u => 57%N :: uint_str u
  end.
Definition dec_of_nat (n : nat) : str := uint_str (Nat.to_uint n).

(* "%s ... %d" % args and f-strings: literal pieces and argument indices *)
Definition render (t : c05_tpl) (args : list str) : str :=
  concat (map (fun p => match p with inl s => s | inr i => nth i args [] end) t).

(* pattern.finditer(s): the engine on the generated AST; fuel exhaustion is an
   explicit raise (excluded by RxLemmas.rfinditer_no_fuel) *)
Definition finditer (r : rx) (s : str) : result (list mres) :=
  match rfinditer r s with
  | Some l => Ok l
  | None => Raise OutOfFuel
  end.

Fixpoint mapM {A B} (f : A -> result B) (l : list A) : result (list B) :=
  match l with
  | [] => Ok []
  | x :: l' => do y <- f x; do ys <- mapM f l'; Ok (y :: ys)
  end.

(* ---- Checker.check ------------------------------------------------------------- *)
(* the position a check attaches: EntityPos(n) (an offset into entity.all) or a
   plain int (an offset into the value; negative = its end) *)
Inductive posk :=
| EntPos (off : nat)
| ValPos (off : Z).

Record finding := mk_finding {
  f_error : bool;          (* "error" (true) or "warning" (false) *)
  f_pos : posk;
  f_msg : str;
  f_cat : str
}.

(* for m in mochibake.finditer(l10nEnt.all):
       yield ("warning", EntityPos(m.start()), f"� in: {l10nEnt.key}", "encodings") *)
Definition encoding_findings (all key : str) : result (list finding) :=
  do ms <- finditer rx_c05_mochibake all;
  Ok (map (fun x => mk_finding c05_enc_is_error (EntPos (m_start x))
                               (render c05_enc_msg [key]) c05_enc_cat) ms).

(* ---- entities as the parsers hand them over -------------------------------------- *)
(* spans into the decoded contents: where entity.all starts (the pre-comment's
   start when there is one), the entity's own span, key span, value span *)
Record ent := mk_ent {
  e_start : nat;
  e_span : nat * nat;
  e_key : nat * nat;
  e_val : option (nat * nat)
}.

Definition ent_all (s : str) (e : ent) : str := slice s (e_start e) (snd (e_span e)).
Definition ent_key (s : str) (e : ent) : str := slice s (fst (e_key e)) (snd (e_key e)).

Definition of_opt {T} (o : option T) : result T :=
  match o with Some v => Ok v | None => Raise OutOfFuel end.

(* if isinstance(pos, EntityPos): line, col = l10nent.position(pos)
   else:                          line, col = l10nent.value_position(pos)
   Entry.position adds the offset to span[0] — NOT to the start of entity.all;
   Entry.value_position asserts that there is a value span *)
Definition resolve (s : str) (e : ent) (p : posk) : result (nat * nat) :=
  match p with
  | EntPos off => of_opt (position s (e_span e) (Z.of_nat off))
  | ValPos off =>
      match e_val e with
      | None => Raise AssertionError
      | Some v => of_opt (position s v off)
      end
  end.

(* one resolved check result: what lint_value puts into its dict *)
Record entry := mk_entry {
  d_error : bool;
  d_line : nat;
  d_col : nat;
  d_msg : str
}.

Definition resolve_all (s : str) (e : ent) (fs : list finding) : result (list entry) :=
  mapM (fun f => do lc <- resolve s e (f_pos f);
                 Ok (mk_entry (f_error f) (fst lc) (snd lc) (f_msg f))) fs.

(* the checks of the base Checker on one entity of the localized file *)
Definition check_entity (s : str) (e : ent) : result (list entry) :=
  do fs <- encoding_findings (ent_all s e) (ent_key s e);
  resolve_all s e fs.

(* "%s at line %d, column %d for %s" % (msg, line, col, refent.key) *)
Definition compare_message (x : entry) (refkey : str) : str :=
  render c05_fmt [d_msg x; dec_of_nat (d_line x); dec_of_nat (d_col x); refkey].

(* the formatting branch of compare() over the strings shared with the reference
   (in the order the comparison visits them): the (severity, text) pairs passed to
   observers.notify.  refent.key == l10nent.key for a shared string. *)
Definition compare_details (s : str) (shared : list ent) : result (list (bool * str)) :=
  do xs <- mapM (fun e => do es <- check_entity s e;
                          Ok (map (fun x => (d_error x, compare_message x (ent_key s e))) es)) shared;
  Ok (concat xs).

(* lint_value over every entity of the file *)
Definition lint_details (s : str) (every : list ent) : result (list entry) :=
  do xs <- mapM (check_entity s) every;
  Ok (concat xs).

(* ---- the try/except skeleton ------------------------------------------------------- *)
(* what an entry point does with the outcome of each step *)
Inductive outcome :=
| NoComparison          (* no parser for the file: merge-copy and return, empty report *)
| ErrorReport           (* handler: observers.notify("error", file, str(e)); return *)
| Body                  (* all steps succeeded: the comparison proper runs *)
| Escapes.              (* the exception leaves the entry point *)

Definition step (ok guarded : bool) (rest : outcome) : outcome :=
  if ok then rest else if guarded then ErrorReport else Escapes.

(* ContentComparer.compare: getParser / readFile(ref) / parse(ref) /
   readFile(l10n) / parse(l10n); each flag says that the step did not raise *)
Definition compare_skeleton (has_parser read_ref parse_ref read_l10n parse_l10n : bool) : outcome :=
  if negb has_parser then NoComparison
  else step read_ref c05_guarded_compare_read_ref
      (step parse_ref c05_guarded_compare_parse_ref
        (step read_l10n c05_guarded_compare_read_l10n
          (step parse_l10n c05_guarded_compare_parse_l10n Body))).

(* ContentComparer.add: the missingFile entry is made first, then readFile / parse *)
Definition add_skeleton (has_parser read parse : bool) : outcome :=
  if negb has_parser then NoComparison
  else step read c05_guarded_add_read (step parse c05_guarded_add_parse Body).

(* L10nLinter.lint_file: readFile(ref) / parse(ref) (when a reference exists),
   readFile(path) / parse(path) *)
Definition lint_skeleton (has_ref read_ref parse_ref read parse : bool) : outcome :=
  let rest := step read c05_guarded_lint_read (step parse c05_guarded_lint_parse Body) in
  if has_ref then step read_ref c05_guarded_lint_read_ref (step parse_ref c05_guarded_lint_parse_ref rest)
  else rest.

Definition outcome_code (o : outcome) : Z :=
  match o with NoComparison => 0 | ErrorReport => 1 | Body => 2 | Escapes => 3 end%Z.

(* ---- merge(): skips.sort(key=lambda s: s.span[0]) ------------------------------------ *)
(* list.sort computes the keys and then compares them; with fewer than two
   elements nothing is compared, otherwise every element takes part in at least
   one comparison, and None compared with anything raises TypeError *)
Definition sort_skips (keys : list (option nat)) : result unit :=
  match keys with
  | [] | [_] => Ok tt
  | _ => if forallb (fun k => match k with Some _ => true | None => false end) keys
         then Ok tt else Raise TypeError
  end.

(* the keys of the skips of a strings.xml comparison: one entry per shared string
   with at least one error-level check result (`l10nent not in skips` lists an
   entity once) and one per junk entry *)
Definition android_skip_keys (n_entities n_junk : nat) : list (option nat) :=
  repeat c05_android_entity_key n_entities ++ repeat c05_android_junk_key n_junk.

(* ---- specification side ---------------------------------------------------------- *)
(* offsets of the occurrences of c, counted from p *)
Fixpoint occurrences (c : N) (p : nat) (s : str) : list nat :=
  match s with
  | [] => []
  | d :: s' => if N.eqb d c then p :: occurrences c (S p) s' else occurrences c (S p) s'
  end.
