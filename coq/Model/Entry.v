(* Parsed entries (parser/base.py Entry and subclasses), as spans into the text. *)
From Coq Require Import ZArith NArith List Bool Arith.
From CL Require Import Base.Sx Base.Str.
Import ListNotations.

Inductive kind := KEntity | KComment | KWhitespace | KJunk | KSection | KInstruction.

Definition span := (nat * nat)%type.

Record entry := mkentry {
  e_kind : kind;
  e_span : span;
  e_key : option span;        (* key_span *)
  e_val : option span;        (* val_span; None also stands for an unmatched group (-1,-1) *)
  e_pre : option span;        (* pre_comment.span *)
  e_white : option span       (* inner_white.span *)
}.

Definition kind_code (k : kind) : Z :=
  match k with
  | KEntity => 0 | KComment => 1 | KWhitespace => 2 | KJunk => 3
  | KSection => 4 | KInstruction => 5
  end%Z.

(* Entry._span_start: only entries that carry a pre_comment start there *)
Definition span_start (e : entry) : nat :=
  match e_pre e with
  | Some p => fst p
  | None => fst (e_span e)
  end.

(* Entry.all *)
Definition all_text (s : str) (e : entry) : str := slice s (span_start e) (snd (e_span e)).

Definition mk_comment (sp : span) : entry := mkentry KComment sp None None None None.
Definition mk_white (sp : span) : entry := mkentry KWhitespace sp (Some sp) (Some sp) None None.
Definition mk_junk (sp : span) : entry := mkentry KJunk sp None None None None.

Definition is_localizable (e : entry) : bool :=
  match e_kind e with KEntity | KJunk => true | _ => false end.

Definition span_sx (sp : span) : sx := L [of_nat (fst sp); of_nat (snd sp)].
Definition entry_sx (e : entry) : sx :=
  L [A (kind_code (e_kind e)); span_sx (e_span e); of_option span_sx (e_key e);
     of_option span_sx (e_val e); of_option span_sx (e_pre e); of_option span_sx (e_white e)].
