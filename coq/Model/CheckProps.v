(* Model of compare_locales/checks/properties.py PropertiesChecker
   (check, check_plural, checkPrintf, getPrintfSpecs), of the part of
   checks/base.py Checker.check it calls, and of plurals.py get_plural.

   Regular expressions, plural tables and every literal (severities,
   categories, positions, messages, format strings, the comment literal, the
   pluralRule key) come from Generated/RxC06.v and Generated/C06Facts.v, which
   tr/facts_c06.py regenerates from the source on every run.

   difflib.SequenceMatcher is Model/Difflib.v (no junk heuristics; the model
   refuses with NotSupported at the autojunk threshold of 200 elements).

   Definitions only; proofs are in Proofs/CheckPropsProofs.v. *)
From Coq Require Import NArith List Bool Arith.
From CL Require Import Base.Sx Base.Res Base.Str Regex.Rx
  Generated.Tables Generated.RxC06 Generated.C06Facts Model.Difflib.
Import ListNotations.

(* ---- small Python helpers ------------------------------------------------- *)
Fixpoint mapM {A B} (f : A -> result B) (l : list A) : result (list B) :=
  match l with
  | [] => Ok []
  | x :: l' =>
      match f x with
      | Ok y => match mapM f l' with Ok ys => Ok (y :: ys) | Raise t => Raise t end
      | Raise t => Raise t
      end
  end.

(* sep.join(l) *)
Fixpoint join (sep : str) (l : list str) : str :=
  match l with
  | [] => []
  | [x] => x
  | x :: l' => x ++ sep ++ join sep l'
  end.

Definition nonempty {A} (l : list A) : bool := match l with [] => false | _ => true end.

Fixpoint mem_str (x : str) (l : list str) : bool :=
  match l with [] => false | y :: l' => str_eqb x y || mem_str x l' end.

Fixpoint mem_N (x : N) (l : list N) : bool :=
  match l with [] => false | y :: l' => N.eqb x y || mem_N x l' end.

(* pattern.finditer(s); running out of fuel is excluded by RxLemmas.rfinditer_no_fuel *)
Definition finditer (r : rx) (s : str) : result (list mres) :=
  match rfinditer r s with Some l => Ok l | None => Raise OutOfFuel end.

(* m.group(g): the text of the group, None if it did not take part *)
Definition gtext (s : str) (g : nat) (x : mres) : option str :=
  match group g x with Some (a, b) => Some (slice s a b) | None => None end.

(* int(s) for the strings the regexes hand over (ASCII digits); anything else
   raises ValueError (Python's int accepts more, e.g. other Unicode digits;
   the patterns [0-9] exclude those) *)
Fixpoint int_digits (s : str) (acc : N) : result N :=
  match s with
  | [] => Ok acc
  | c :: s' =>
      if (48 <=? c)%N && (c <=? 57)%N then int_digits s' (acc * 10 + (c - 48))%N
      else Raise ValueError
  end.

Definition py_int (s : str) : result N :=
  match s with [] => Raise ValueError | _ => int_digits s 0%N end.

(* str(n) for a non-negative int, through the standard library's decimal view *)
Fixpoint uint_str (d : Decimal.uint) : str :=
  match d with
  | Decimal.Nil => []
  | Decimal.D0 d' => 48%N :: uint_str d'
  | Decimal.D1 d' => 49%N :: uint_str d'
  | Decimal.D2 d' => 50%N :: uint_str d'
  | Decimal.D3 d' => 51%N :: uint_str d'
  | Decimal.D4 d' => 52%N :: uint_str d'
  | Decimal.D5 d' => 53%N :: uint_str d'
  | Decimal.D6 d' => 54%N :: uint_str d'
  | Decimal.D7 d' => 55%N :: uint_str d'
  | Decimal.D8 d' => 56%N :: uint_str d'
  | Decimal.D9 d' => 57%N :: uint_str d'
  end.

Definition str_of_N (n : N) : str := uint_str (N.to_uint n).
Definition str_of_nat (n : nat) : str := str_of_N (N.of_nat n).

(* fmt % args for the directives the messages use: %d, %s, %% *)
Inductive farg :=
| FN (n : nat)                  (* an int *)
| FS (s : option str).          (* a str or None *)

Definition s_None : str := [78; 111; 110; 101]%N.      (* str(None) *)

Definition farg_str (a : farg) : str :=
  match a with
  | FN n => str_of_nat n
  | FS (Some s) => s
  | FS None => s_None
  end.

Fixpoint pyfmt (f : str) (args : list farg) : result str :=
  match f with
  | [] => match args with [] => Ok [] | _ => Raise TypeError end  (* not all arguments converted *)
  | c :: f1 =>
      if N.eqb c 37 then
        match f1 with
        | [] => Raise ValueError                                   (* incomplete format *)
        | d :: f2 =>
            if N.eqb d 37 then
              match pyfmt f2 args with Ok t => Ok (37%N :: t) | Raise e => Raise e end
            else if N.eqb d 100 then                               (* %d *)
              match args with
              | FN n :: r =>
                  match pyfmt f2 r with Ok t => Ok (str_of_nat n ++ t) | Raise e => Raise e end
              | _ => Raise TypeError                               (* str/None or too few *)
              end
            else if N.eqb d 115 then                               (* %s *)
              match args with
              | a :: r =>
                  match pyfmt f2 r with Ok t => Ok (farg_str a ++ t) | Raise e => Raise e end
              | [] => Raise TypeError
              end
            else Raise ValueError                                  (* a directive not modelled *)
        end
      else match pyfmt f1 args with Ok t => Ok (c :: t) | Raise e => Raise e end
  end.

(* ---- findings ----------------------------------------------------------------
   (severity, position, message, category); [f_entpos] tells an EntityPos
   (offset into the whole entity) from a plain int (offset into the value) *)
Record finding := mkf {
  f_sev : str; f_pos : nat; f_entpos : bool; f_msg : str; f_cat : str
}.

(* ---- getPrintfSpecs -------------------------------------------------------- *)
Definition spec := option str.             (* m.group("spec"), or the padding None *)

Inductive perr := PESingle | PEMixed | PEMissing.

Definition perr_msg (e : perr) : str :=
  match e with
  | PESingle => lit_pe_single
  | PEMixed => lit_pe_mixed
  | PEMissing => lit_pe_missing
  end.

(* the outcome of getPrintfSpecs: PrintfException(msg, pos) or the list *)
Inductive sres :=
| SErr (pos : nat) (e : perr)
| SOk (specs : list spec).

(* truth value of a list element in all(specs) *)
Definition truthy_spec (o : spec) : bool := match o with Some (_ :: _) => true | _ => false end.

Fixpoint set_nth {A} (n : nat) (x : A) (l : list A) : list A :=
  match l, n with
  | [], _ => []
  | _ :: l', O => x :: l'
  | y :: l', S n' => y :: set_nth n' x l'
  end.

Fixpoint specs_loop (s : str) (ms : list mres) (hasNumber : bool) (specs : list spec)
  : result sres :=
  match ms with
  | [] =>
      if hasNumber && negb (forallb truthy_spec specs) then Ok (SErr 0 PEMissing)
      else Ok (SOk specs)
  | x :: ms' =>
      match gtext s g_printf_good x with
      | None => Ok (SErr (m_start x) PESingle)
      | Some good =>
          if str_eqb good lit_pe_escaped then specs_loop s ms' hasNumber specs
          else
            let number := gtext s g_printf_number x in
            let isnum := match number with Some _ => true | None => false end in
            if (hasNumber && negb isnum) || (negb hasNumber && nonempty specs && isnum)
            then Ok (SErr (m_start x) PEMixed)
            else
              let sp := gtext s g_printf_spec x in
              match number with
              | None => specs_loop s ms' false (specs ++ [sp])
              | Some nt =>
                  match py_int nt with
                  | Raise t => Raise t
                  | Ok n =>
                      let ls := length specs in
                      match n with
                      | 0%N =>         (* pos = -1: specs[-1] = spec *)
                          match ls with
                          | O => Raise IndexError
                          | S l' => specs_loop s ms' true (set_nth l' sp specs)
                          end
                      | _ =>
                          let pos := N.to_nat n - 1 in
                          if ls <=? pos
                          then specs_loop s ms' true (specs ++ repeat None (pos - ls) ++ [sp])
                          else specs_loop s ms' true (set_nth pos sp specs)
                      end
                  end
              end
      end
  end.

Definition get_printf_specs (val : str) : result sres :=
  match finditer rx_printf val with
  | Raise t => Raise t
  | Ok ms => specs_loop val ms false []
  end.

(* ---- checkPrintf ------------------------------------------------------------- *)
Definition spec_eqb (a b : spec) : bool :=
  match a, b with
  | Some x, Some y => str_eqb x y
  | None, None => true
  | _, _ => false
  end.

Fixpoint specs_eqb (a b : list spec) : bool :=
  match a, b with
  | [], [] => true
  | x :: a', y :: b' => spec_eqb x y && specs_eqb a' b'
  | _, _ => false
  end.

Definition nth_spec (l : list spec) (i : nat) : result spec :=
  match nth_error l i with Some x => Ok x | None => Raise IndexError end.

Definition range (lo hi : nat) : list nat := seq lo (hi - lo).

Definition msg_ref (f : str) (refS : list spec) (i : nat) : result str :=
  match nth_spec refS i with
  | Ok x => pyfmt f [FN (i + 1); FS x]
  | Raise t => Raise t
  end.

Definition msg_replace (refS l10nS : list spec) (ij : nat * nat) : result str :=
  let (i, j) := ij in
  match nth_spec l10nS j with
  | Raise t => Raise t
  | Ok y =>
      match nth_spec refS i with
      | Raise t => Raise t
      | Ok x => pyfmt lit_pf_fmt_replace [FN (j + 1); FS y; FS x]
      end
  end.

(* the loop over sm.get_opcodes() *)
Fixpoint walk_ops (refS l10nS : list spec) (ops : list opcode)
         (msgs : list str) (warn : option str) : result (list str * option str) :=
  match ops with
  | [] => Ok (msgs, warn)
  | o :: ops' =>
      match o_tag o with
      | Equal => walk_ops refS l10nS ops' msgs warn
      | Delete =>
          if Nat.eqb (o_i2 o) (length refS) then
            match mapM (msg_ref lit_pf_fmt_trailing refS) (range (o_i1 o) (o_i2 o)) with
            | Ok ws => walk_ops refS l10nS ops' msgs (Some (join lit_pf_join_warn ws))
            | Raise t => Raise t
            end
          else
            match mapM (msg_ref lit_pf_fmt_missing refS) (range (o_i1 o) (o_i2 o)) with
            | Ok ws => walk_ops refS l10nS ops' (msgs ++ ws) warn
            | Raise t => Raise t
            end
      | Insert =>
          match mapM (msg_ref lit_pf_fmt_obsolete l10nS) (range (o_j1 o) (o_j2 o)) with
          | Ok ws => walk_ops refS l10nS ops' (msgs ++ ws) warn
          | Raise t => Raise t
          end
      | Replace =>
          match mapM (msg_replace refS l10nS)
                     (combine (range (o_i1 o) (o_i2 o)) (range (o_j1 o) (o_j2 o))) with
          | Ok ws => walk_ops refS l10nS ops' (msgs ++ ws) warn
          | Raise t => Raise t
          end
      end
  end.

Definition printf_findings (msgs : list str) (warn : option str) : list finding :=
  (if nonempty msgs
   then [mkf lit_pf_err_sev lit_pf_err_pos false (join lit_pf_join_err msgs) lit_pf_err_cat]
   else []) ++
  match warn with
  | Some w => [mkf lit_pf_warn_sev lit_pf_warn_pos false w lit_pf_warn_cat]
  | None => []
  end.

(* the part of checkPrintf after l10nSpecs is known *)
Definition compare_specs (refSpecs l10nSpecs : list spec) : result (list finding) :=
  if specs_eqb refSpecs l10nSpecs then Ok []
  else if autojunk_threshold <=? length l10nSpecs then Raise NotSupported
  else
    match get_opcodes spec_eqb refSpecs l10nSpecs with
    | None => Raise OutOfFuel
    | Some ops =>
        match walk_ops refSpecs l10nSpecs ops [] None with
        | Ok (msgs, warn) => Ok (printf_findings msgs warn)
        | Raise t => Raise t
        end
    end.

Definition check_printf (refSpecs : list spec) (l10nValue : str) : result (list finding) :=
  match get_printf_specs l10nValue with
  | Raise t => Raise t
  | Ok (SErr p e) => Ok [mkf lit_pf_exc_sev p false (perr_msg e) lit_pf_exc_cat]
  | Ok (SOk l10nSpecs) => compare_specs refSpecs l10nSpecs
  end.

(* ---- plurals.py ---------------------------------------------------------------- *)
Fixpoint assoc_str {A} (k : str) (m : list (str * A)) : option A :=
  match m with
  | [] => None
  | (k', v) :: m' => if str_eqb k k' then Some v else assoc_str k m'
  end.

(* s.split(sep, 1)[0] *)
Fixpoint split_first (sep : N) (s : str) : str :=
  match s with
  | [] => []
  | c :: s' => if N.eqb c sep then [] else c :: split_first sep s'
  end.

Definition get_plural_rule (locale : option str) : option nat :=
  match locale with
  | None => None
  | Some l =>
      match assoc_str l plural_by_locale with
      | Some n => Some n
      | None => assoc_str (split_first plural_locale_sep l) plural_by_locale
      end
  end.

Definition get_plural (locale : option str) : result (option (list str)) :=
  match get_plural_rule locale with
  | None => Ok None
  | Some n =>
      match nth_error plural_categories_by_index n with
      | Some c => Ok (Some c)
      | None => Raise IndexError
      end
  end.

(* ---- check_plural ------------------------------------------------------------ *)
(* [int(m.group(1)) for m in re.finditer("#([0-9]+)", s)] *)
Definition plural_vars (s : str) : result (list N) :=
  match finditer rx_plural_var s with
  | Raise t => Raise t
  | Ok ms => mapM (fun x => match gtext s 1 x with
                            | Some t => py_int t
                            | None => Raise TypeError
                            end) ms
  end.

(* set difference non-empty *)
Definition some_missing (a b : list N) : bool := existsb (fun x => negb (mem_N x b)) a.

Definition plural_count_msg (expected found : nat) : str :=
  lit_plural_msg_a ++ str_of_nat expected ++ lit_plural_msg_b ++ str_of_nat found.

Definition plural_count_findings (known : option (list str)) (l10nValue : str) : list finding :=
  match known with
  | Some ((_ :: _) as cats) =>
      let expected := length cats in
      let found := count_char lit_plural_sep l10nValue + 1 in
      let msg := plural_count_msg expected found in
      (if found <? expected
       then [mkf lit_plural_few_sev lit_plural_few_pos false msg lit_plural_few_cat] else []) ++
      (if expected <? found
       then [mkf lit_plural_many_sev lit_plural_many_pos false msg lit_plural_many_cat] else [])
  | _ => []
  end.

Definition plural_var_findings (pats lpats : list N) : list finding :=
  if some_missing pats lpats
  then [mkf lit_plural_unused_sev lit_plural_unused_pos false lit_plural_unused_msg
            lit_plural_unused_cat]
  else if some_missing lpats pats
  then [mkf lit_plural_extra_sev lit_plural_extra_pos false lit_plural_extra_msg
            lit_plural_extra_cat]
  else [].

Definition check_plural (locale : option str) (refValue l10nValue : str)
  : result (list finding) :=
  match get_plural locale with
  | Raise t => Raise t
  | Ok known =>
      let counts := plural_count_findings known l10nValue in
      match plural_vars refValue with
      | Raise t => Raise t
      | Ok [] => Ok counts
      | Ok pats =>
          match plural_vars l10nValue with
          | Raise t => Raise t
          | Ok lpats => Ok (counts ++ plural_var_findings pats lpats)
          end
      end
  end.

(* ---- PropertiesChecker.check --------------------------------------------------- *)
Record check_in := mkin {
  ref_comment : option str;      (* refEnt.pre_comment.all, None without a comment *)
  ref_key : str;
  ref_val : str;
  l10n_key : str;
  l10n_all : str;
  l10n_val : str;
  l10n_raw : str;                (* l10nEnt.raw_val *)
  locale : option str
}.

(* Checker.check: possible encoding errors *)
Definition encoding_findings (c : check_in) : result (list finding) :=
  match finditer rx_mochibake (l10n_all c) with
  | Raise t => Raise t
  | Ok ms => Ok (map (fun x => mkf lit_base_sev (m_start x) true
                                   (lit_base_msg ++ l10n_key c) lit_base_cat) ms)
  end.

Definition is_plural (c : check_in) : result bool :=
  match ref_comment c with
  | None => Ok false
  | Some all =>
      if contains lit_plural_comment all && negb (str_eqb (ref_key c) lit_plural_rule_key) then
        match rmatch rx_digits_end (ref_val c) 0 with
        | MNone => Ok true
        | MSome _ => Ok false
        | MFuel => Raise OutOfFuel
        end
      else Ok false
  end.

Definition escape_findings (raw : str) : result (list finding) :=
  match finditer rx_c06_escape raw with
  | Raise t => Raise t
  | Ok ms =>
      Ok (flat_map (fun x =>
            match gtext raw g_c06_escape_single x with
            | Some ((_ :: _) as t) =>
                if mem_str t known_escape_keys then []
                else [mkf lit_esc_sev (m_start x) false (lit_esc_msg ++ t) lit_esc_cat]
            | _ => []
            end) ms)
  end.

Definition check (c : check_in) : result (list finding) :=
  match encoding_findings c with
  | Raise t => Raise t
  | Ok enc =>
      match is_plural c with
      | Raise t => Raise t
      | Ok true =>
          match check_plural (locale c) (ref_val c) (l10n_val c) with
          | Ok r => Ok (enc ++ r)
          | Raise t => Raise t
          end
      | Ok false =>
          match escape_findings (l10n_raw c) with
          | Raise t => Raise t
          | Ok escs =>
              match get_printf_specs (ref_val c) with
              | Raise t => Raise t
              | Ok r =>
                  (* except PrintfException: refSpecs = [] *)
                  match r with
                  | SOk ((_ :: _) as refSpecs) =>
                      match check_printf refSpecs (l10n_val c) with
                      | Ok pf => Ok (enc ++ escs ++ pf)
                      | Raise t => Raise t
                      end
                  | _ => Ok (enc ++ escs)
                  end
              end
          end
      end
  end.
