(* Model of compare_locales/paths/matcher.py class Matcher (match, sub, prefix,
   with_env, concat, __str__, __eq__), the module function expand, and of the
   glob helper compare_locales/mozpath.py match.  Definitions only.

   Not modelled: the `encoding` arm (bytes patterns; no caller in the package
   sets it) and mozpath.abspath on the root (the root is taken as an absolute,
   normalised path; "/" is appended as the constructor does). *)
From Coq Require Import NArith List Bool Arith.
From CL Require Import Base.Sx Base.Res Base.Str Regex.Rx Generated.Tables Generated.RxC11
  Generated.PathFacts Model.Pattern.
Import ListNotations.

Record matcher := mkm {
  m_pat : pattern;
  m_env : env
}.

(* real_env = {k: parser.parse(v) for k, v in env.items()} *)
Fixpoint parse_env (kv : list (str * str)) : result env :=
  match kv with
  | [] => Ok []
  | (k, v) :: kv' =>
      do p <- parse_pattern v;
      do rest <- parse_env kv';
      Ok ((k, EVPat p) :: rest)
  end.

Definition with_root (p : pattern) (root : option str) : pattern :=
  match root with
  | None => p
  | Some r => mkpat (p_nodes p) (Some (r ++ [c_slash])) (p_prefix p)
  end.

(* Matcher(pattern, env, root) for a pattern string *)
Definition mk_matcher (pat : str) (kv : list (str * str)) (root : option str) : result matcher :=
  do real_env <- parse_env kv;
  do p <- parse_pattern pat;
  Ok (mkm (with_root p root) real_env).

(* Matcher(other, env) / other.with_env(env) *)
Definition with_env (M : matcher) (kv : list (str * str)) : result matcher :=
  do real_env <- parse_env kv;
  Ok (mkm (m_pat M) (env_update (m_env M) real_env)).

(* __str__ *)
Definition str_of (M : matcher) : result str := expand_pattern (m_env M) false (m_pat M).

(* prefix *)
Definition prefix (M : matcher) : result str :=
  let p := m_pat M in
  expand_pattern (m_env M) false (mkpat (firstn (p_prefix p) (p_nodes p)) (p_root p) 0).

(* paths.matcher.expand(root, path, env) *)
Definition expand_fn (root : option str) (path : str) (kv : list (str * str)) : result str :=
  do M <- mk_matcher path kv root;
  str_of M.

(* ---- match ----------------------------------------------------------------- *)
Definition has_key {T} (k : str) (d : list (str * T)) : bool :=
  match lookup k d with Some _ => true | None => false end.

Definition groupdict (path : str) (names : list (str * nat)) (x : mres)
  : list (str * option str) :=
  map (fun ng => (fst ng, group_text path (snd ng) x)) names.

(* the android_locale -> locale step on the dictionary *)
Definition add_locale (d : list (str * option str)) : result (list (str * option str)) :=
  if has_key s_android_locale d && negb (has_key s_locale d) then
    match lookup s_android_locale d with
    | Some (Some a) => do l <- to_bcp47 a; Ok (d ++ [(s_locale, Some l)])
    | _ => Raise TypeError            (* None.startswith: the group always takes part *)
    end
  else Ok d.

Definition match_ (M : matcher) (path : str) : result (option (list (str * option str))) :=
  do (r, names) <- regex_of_pattern (m_env M) (m_pat M);
  match rmatch r path 0 with
  | MFuel => Raise OutOfFuel
  | MNone => Ok None
  | MSome x => do d <- add_locale (groupdict path names x); Ok (Some d)
  end.

(* ---- sub ------------------------------------------------------------------- *)
(* env = {}; env.update((key, Literal(value or "")) ...); env.update(other.env) *)
Definition sub_env (d : list (str * option str)) (other_env : env) : env :=
  env_update (env_update [] (map (fun kv => (fst kv, EVLit (text_or_empty (snd kv)))) d))
             other_env.

Definition sub (M other : matcher) (path : str) : result (option str) :=
  do m <- match_ M path;
  match m with
  | None => Ok None
  | Some d =>
      do s <- expand_pattern (sub_env d (m_env other)) false (m_pat other);
      Ok (Some s)
  end.

(* ---- concat ----------------------------------------------------------------- *)
Definition concat_matcher (M other : matcher) : result matcher :=
  match p_root (m_pat other) with
  | Some _ => Raise ValueError
  | None =>
      let p := m_pat M in
      let nodes := p_nodes p ++ p_nodes (m_pat other) in
      let pl := if Nat.eqb (p_prefix p) (length (p_nodes p))
                then p_prefix p + p_prefix (m_pat other) else p_prefix p in
      Ok (mkm (mkpat nodes (p_root p) pl) (env_update (m_env M) (m_env other)))
  end.

(* ---- __eq__ ------------------------------------------------------------------ *)
Definition node_eqb (a b : node) : bool :=
  match a, b with
  | NLit s, NLit t => str_eqb s t
  | NVar n r, NVar n' r' => str_eqb n n' && Bool.eqb r r'
  | NAndroid r, NAndroid r' => Bool.eqb r r'
  | NStar k, NStar k' => Nat.eqb k k'
  | NStarstar k s, NStarstar k' s' => Nat.eqb k k' && str_eqb s s'
  | _, _ => false
  end.

Fixpoint nodes_eqb (a b : list node) : bool :=
  match a, b with
  | [], [] => true
  | x :: a', y :: b' => node_eqb x y && nodes_eqb a' b'
  | _, _ => false
  end.

Definition opt_str_eqb (a b : option str) : bool :=
  match a, b with
  | None, None => true
  | Some x, Some y => str_eqb x y
  | _, _ => false
  end.

Definition pattern_eqb (p q : pattern) : bool :=
  nodes_eqb (p_nodes p) (p_nodes q) && opt_str_eqb (p_root p) (p_root q) &&
  Nat.eqb (p_prefix p) (p_prefix q).

Definition evalue_eqb (a b : evalue) : bool :=
  match a, b with
  | EVLit s, EVLit t => str_eqb s t
  | EVPat p, EVPat q => pattern_eqb p q
  | _, _ => false
  end.

Definition matcher_eqb (M N : matcher) : bool :=
  pattern_eqb (m_pat M) (m_pat N) &&
  forallb (fun kv => match lookup (fst kv) (m_env N) with
                     | None => true
                     | Some v => evalue_eqb (snd kv) v
                     end) (m_env M).

(* ---- mozpath.match ------------------------------------------------------------ *)
Record gstate := mkgs {
  gs_items : list rx;            (* in order *)
  gs_last : nat
}.

Definition rx_any_star : rx := Rep true 0 None rx_any.              (* .* *)

Definition glob_step (pat : str) (g : gstate) (x : mres) : gstate :=
  let items := if gs_last g <? m_start x
               then gs_items g ++ map chr_lit (slice pat (gs_last g) (m_start x))
               else gs_items g in
  let g1 := text_or_empty (group_text pat 1 x) in
  let g2 := text_or_empty (group_text pat 2 x) in
  let piece :=
    if truthy_str (group_text pat g_mozpath_glob_star x) then [rx_not_slash]
    else match g2 with
         | _ :: _ => map chr_lit g1 ++ [Alt (cat_list (rx_any_plus :: map chr_lit g2)) Eps]
         | [] => [Alt (cat_list (map chr_lit g1 ++ [rx_any_plus])) Eps]
         end in
  mkgs (items ++ piece) (m_end x).

Definition glob_regex (pat : str) : result rx :=
  match rfinditer rx_mozpath_glob pat with
  | None => Raise OutOfFuel
  | Some ms =>
      let g := fold_left (glob_step pat) ms (mkgs [] 0) in
      Ok (cat_list (gs_items g ++ map chr_lit (skipn (gs_last g) pat) ++
                    [Alt (Cat (chr_lit c_slash) rx_any_star) Eps; Eol false]))
  end.

Definition mozpath_match (path pat : str) : result bool :=
  match pat with
  | [] => Ok true
  | _ =>
      do r <- glob_regex pat;
      match rmatch r path 0 with
      | MFuel => Raise OutOfFuel
      | MNone => Ok false
      | MSome _ => Ok true
      end
  end.
