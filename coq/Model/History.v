(* C18 — results do not depend on what was processed before.

   Part 1: the state the model accounts for ([modelled_state]), item by item
   as the translator finds it in the package (Generated/FactsC18.v), with the
   role each item plays for an operation.
   Part 2: the process-level state machine: Context objects on an
   allocation-only heap, the seven parser singletons' current context,
   Junk.junkid and XMLJunk's own copy, DTDChecker.texthandler.textcontent, the caches
   (ProjectConfig._cache, mozpath.re_cache, Matcher._cached_re) and the
   operations on them.  What the text parsers, checkers and serializers compute
   from their arguments are PARAMETERS (pure functions); what is modelled is
   which state an operation reads and writes.
   Part 3: a small model of the observer's accumulation for the multi-file
   clause.
   Definitions only; proofs are in Proofs/HistoryProofs.v. *)
From Coq Require Import Strings.String Strings.Ascii.
From Coq Require Import NArith List Bool Arith Decimal DecimalNat.
From CL Require Import Base.Str Generated.FactsC18.
Import ListNotations.
Local Open Scope nat_scope.

(* ===================================================================== *)
(* Part 1: the inventory                                                  *)
(* ===================================================================== *)

(* how an operation of the property (parse, compare, lint, merge, serialize,
   filter query, matcher query) reads and writes an item *)
Inductive role :=
| Const           (* bound at import time, never written afterwards *)
| Counter         (* Junk.junkid: incremented by every Junk construction, read into the junk key *)
| ParserCtx       (* Parser.ctx of a singleton: replaced by a NEW Context on every read *)
| CtxLocal        (* state of one Context object (line cache, defines filter flag) *)
| CacheKeyed      (* cache whose entry is a function of its key: lookup = compute *)
| ResetBeforeUse  (* written with a constant before every read *)
| LazyConst       (* created on first use with a value that does not depend on anything *)
| PerObjectCache  (* memo of a pure function of the owning (immutable) object *)
| PerOp           (* belongs to an object created and dropped inside one operation *)
| Accumulator     (* the report being built (Part 3) *)
| Config          (* configuration under construction: an input of the property *)
| DefaultArg.     (* mutable default argument, only read *)

Record item := Item { i_mod : string; i_name : string; i_kind : string; i_role : role }.

Fixpoint cp (s : string) : list N :=
  match s with
  | EmptyString => []
  | String a r => N_of_ascii a :: cp r
  end.

Local Open Scope string_scope.
Definition modelled_items : list item := [
  Item "compare_locales.checks" "__all__" "module-const" Const;
  Item "compare_locales.checks.base" "CSSCheckMixin._css_sep" "lazy-attr" LazyConst;
  Item "compare_locales.checks.base" "CSSCheckMixin._css_spec" "lazy-attr" LazyConst;
  Item "compare_locales.checks.base" "Checker.reference" "instance-attr" PerOp;
  Item "compare_locales.checks.dtd" "DTDChecker.TextContent.textcontent" "class-default-shadowed" ResetBeforeUse;
  Item "compare_locales.checks.dtd" "DTDChecker.__known_entities" "instance-attr" PerOp;
  Item "compare_locales.checks.dtd" "DTDChecker.__known_entities" "instance-mutated" PerOp;
  Item "compare_locales.checks.dtd" "DTDChecker.texthandler.textcontent" "class-singleton-attr" ResetBeforeUse;
  Item "compare_locales.checks.fluent" "GenericL10nChecks.messages" "instance-mutated" PerOp;
  Item "compare_locales.checks.fluent" "L10nMessageVisitor.messages" "instance-mutated" PerOp;
  Item "compare_locales.checks.fluent" "L10nMessageVisitor.reference_refs" "instance-attr" PerOp;
  Item "compare_locales.checks.fluent" "L10nMessageVisitor.refs" "instance-mutated" PerOp;
  Item "compare_locales.checks.fluent" "MSGS" "module-const" Const;
  Item "compare_locales.checks.fluent" "ReferenceMessageVisitor.attribute_positions" "instance-mutated" PerOp;
  Item "compare_locales.checks.fluent" "ReferenceMessageVisitor.css_errors" "instance-attr" PerOp;
  Item "compare_locales.checks.fluent" "ReferenceMessageVisitor.css_styles" "instance-attr" PerOp;
  Item "compare_locales.checks.fluent" "ReferenceMessageVisitor.message_has_value" "instance-attr" PerOp;
  Item "compare_locales.checks.fluent" "ReferenceMessageVisitor.refs" "instance-attr" PerOp;
  Item "compare_locales.checks.fluent" "ReferenceMessageVisitor.refs" "instance-mutated" PerOp;
  Item "compare_locales.commands" "CompareLocales.extract_positionals(config_paths)" "mutable-default" DefaultArg;
  Item "compare_locales.commands" "CompareLocales.extract_positionals(locales)" "mutable-default" DefaultArg;
  Item "compare_locales.commands" "CompareLocales.handle(config_paths)" "mutable-default" DefaultArg;
  Item "compare_locales.commands" "CompareLocales.handle(defines)" "mutable-default" DefaultArg;
  Item "compare_locales.commands" "CompareLocales.handle(locales)" "mutable-default" DefaultArg;
  Item "compare_locales.compare" "__all__" "module-const" Const;
  Item "compare_locales.compare.observer" "Observer.details" "instance-mutated" Accumulator;
  Item "compare_locales.compare.observer" "Observer.error" "instance-attr" Accumulator;
  Item "compare_locales.compare.observer" "Observer.summary" "instance-mutated" Accumulator;
  Item "compare_locales.compare.observer" "ObserverList.observers" "instance-mutated" Accumulator;
  Item "compare_locales.compare.utils" "AddRemove.left" "instance-attr" PerOp;
  Item "compare_locales.compare.utils" "AddRemove.right" "instance-attr" PerOp;
  Item "compare_locales.compare.utils" "Tree.__get/t.value" "param-attr-written" Accumulator;
  Item "compare_locales.compare.utils" "Tree.branches" "instance-mutated" Accumulator;
  Item "compare_locales.mozpath" "re_cache" "module-mutated" CacheKeyed;
  Item "compare_locales.parser" "__all__" "module-const" Const;
  Item "compare_locales.parser" "__constructors" "module-const" Const;
  Item "compare_locales.parser.android" "AndroidEntity.wrap/child.data" "param-attr-written" PerOp;
  Item "compare_locales.parser.android" "XMLJunk.junkid" "class-attr-subclass-copy" Counter;
  Item "compare_locales.parser.base" "Comment._val_cache" "instance-attr" PerObjectCache;
  Item "compare_locales.parser.base" "Junk.junkid" "class-attr-written" Counter;
  Item "compare_locales.parser.base" "Parser.Context._lines" "instance-attr" CtxLocal;
  Item "compare_locales.parser.base" "Parser.ctx" "singleton-attr" ParserCtx;
  Item "compare_locales.parser.base" "__constructors" "module-const" Const;
  Item "compare_locales.parser.defines" "DefinesParser.getNext/ctx.filter_empty_lines" "param-attr-written" CtxLocal;
  Item "compare_locales.parser.dtd" "html_parser" "module-const" Const;
  Item "compare_locales.parser.fluent" "FluentEntity._word_count" "class-default-shadowed" PerObjectCache;
  Item "compare_locales.parser.fluent" "WordCounter.word_count" "instance-attr" PerOp;
  Item "compare_locales.parser.po" "PoParser.createEntity/e.stringlist_key" "param-attr-written" PerOp;
  Item "compare_locales.parser.po" "PoParser.createEntity/e.stringlist_val" "param-attr-written" PerOp;
  Item "compare_locales.parser.po" "po_escapes" "module-const" Const;
  Item "compare_locales.paths" "__all__" "module-const" Const;
  Item "compare_locales.paths.configparser" "TOMLParser.load/ctx.data" "param-attr-written" Config;
  Item "compare_locales.paths.files" "ProjectFiles.exclude" "instance-attr" Config;
  Item "compare_locales.paths.ini" "EnumerateApp.config" "lazy-attr" Config;
  Item "compare_locales.paths.ini" "EnumerateApp.filters" "instance-attr" Config;
  Item "compare_locales.paths.ini" "EnumerateSourceTreeApp.config" "lazy-attr" Config;
  Item "compare_locales.paths.ini" "L10nConfigParser.all_path" "lazy-attr" Config;
  Item "compare_locales.paths.ini" "L10nConfigParser.base" "lazy-attr" Config;
  Item "compare_locales.paths.ini" "L10nConfigParser.children" "instance-mutated" Config;
  Item "compare_locales.paths.ini" "L10nConfigParser.dirs" "instance-mutated" Config;
  Item "compare_locales.paths.ini" "SourceTreeConfigParser.children" "instance-mutated" Config;
  Item "compare_locales.paths.matcher" "ANDROID_LEGACY_MAP" "module-const" Const;
  Item "compare_locales.paths.matcher" "ANDROID_STANDARD_MAP" "module-const" Const;
  Item "compare_locales.paths.matcher" "Matcher.__init__(env)" "mutable-default" DefaultArg;
  Item "compare_locales.paths.matcher" "Matcher._cached_re" "instance-attr" CacheKeyed;
  Item "compare_locales.paths.matcher" "Matcher.concat/result.pattern" "param-attr-written" PerOp;
  Item "compare_locales.paths.matcher" "Matcher.concat/result.pattern.prefix_length" "param-attr-written" PerOp;
  Item "compare_locales.paths.matcher" "Matcher.prefix/subpattern.root" "param-attr-written" PerOp;
  Item "compare_locales.paths.matcher" "Pattern.__init__(iterable)" "mutable-default" DefaultArg;
  Item "compare_locales.paths.matcher" "PatternParser._cursor" "instance-attr" PerOp;
  Item "compare_locales.paths.matcher" "PatternParser._known_vars" "instance-attr" PerOp;
  Item "compare_locales.paths.matcher" "PatternParser._known_vars" "instance-mutated" PerOp;
  Item "compare_locales.paths.matcher" "PatternParser._stargroup" "instance-attr" PerOp;
  Item "compare_locales.paths.matcher" "PatternParser.pattern" "instance-attr" PerOp;
  Item "compare_locales.paths.matcher" "PatternParser.pattern" "instance-mutated" PerOp;
  Item "compare_locales.paths.matcher" "PatternParser.pattern.prefix_length" "instance-mutated" PerOp;
  Item "compare_locales.paths.project" "ProjectConfig._all_locales" "instance-attr" CacheKeyed;
  Item "compare_locales.paths.project" "ProjectConfig._cache" "instance-attr" CacheKeyed;
  Item "compare_locales.paths.project" "ProjectConfig._cache.l10n_paths" "instance-mutated" CacheKeyed;
  Item "compare_locales.paths.project" "ProjectConfig._cache.rules" "instance-mutated" CacheKeyed;
  Item "compare_locales.paths.project" "ProjectConfig.children" "instance-mutated" Config;
  Item "compare_locales.paths.project" "ProjectConfig.environ" "instance-mutated" Config;
  Item "compare_locales.paths.project" "ProjectConfig.excludes" "instance-mutated" Config;
  Item "compare_locales.paths.project" "ProjectConfig.filter_py" "instance-attr" Config;
  Item "compare_locales.paths.project" "ProjectConfig.locales" "instance-attr" Config;
  Item "compare_locales.paths.project" "ProjectConfig.paths" "instance-mutated" Config;
  Item "compare_locales.paths.project" "ProjectConfig.root" "instance-attr" Config;
  Item "compare_locales.paths.project" "ProjectConfig.rules" "instance-mutated" Config;
  Item "compare_locales.plurals" "CATEGORIES_BY_LOCALE" "module-const" Const;
  Item "compare_locales.plurals" "CATEGORIES_EXCEPTIONS" "module-const" Const
].
Local Close Scope string_scope.

Definition modelled_state : list (list N * list N * list N) :=
  map (fun i => (cp (i_mod i), cp (i_name i), cp (i_kind i))) modelled_items.

(* the items that are fields of the state record of Part 2 *)
Definition role_has_field (r : role) : bool :=
  match r with
  | Counter | ParserCtx | CtxLocal | CacheKeyed | ResetBeforeUse => true
  | _ => false
  end.

(* ===================================================================== *)
(* Part 2: the state machine                                              *)
(* ===================================================================== *)

Definition fmt := nat.     (* index into parser.__constructors (0 android .. 6 po) *)
Definition span := (nat * nat)%type.

(* One entry construction of a walk, as the (pure) text parsers deliver it. *)
Inductive pentry :=
| PEnt (start : nat) (sp ksp : span) (vsp : option span)
      (* Entity(ctx, ...): spans into the contents of ITS context; start = _span_start() *)
| PLit (k v a : str)      (* AndroidEntity and friends: literal key / raw_val / all *)
| PJunk (a b : nat)       (* Junk(ctx, (a, b)) *)
| PLitJunk (a : str)      (* XMLJunk(all): Junk(None, (0, 0)) *)
| PGhost.                 (* a Junk constructed and dropped (DTDParser.getNext retrying rePE) *)

Definition is_cons (p : pentry) : bool :=
  match p with PJunk _ _ | PLitJunk _ | PGhost => true | _ => false end.
Definition ncons (es : list pentry) : nat := length (filter is_cons es).

(* keys as KeyedTuple sees them at parse() time *)
Inductive key := KStr (s : str) | KJunk (i a b : nat).

(* decimal rendering of %d *)
Fixpoint uint_digits (u : uint) : str :=
  match u with
  | Nil => []
  | D0 r => 48%N :: uint_digits r | D1 r => 49%N :: uint_digits r
  | D2 r => 50%N :: uint_digits r | D3 r => 51%N :: uint_digits r
  | D4 r => 52%N :: uint_digits r | D5 r => 53%N :: uint_digits r
  | D6 r => 54%N :: uint_digits r | D7 r => 55%N :: uint_digits r
  | D8 r => 56%N :: uint_digits r | D9 r => 57%N :: uint_digits r
  end.
Definition dec (n : nat) : str := uint_digits (Nat.to_uint n).

Definition junk_prefix : str := [95; 106; 117; 110; 107; 95]%N.   (* "_junk_" *)

(* "_junk_%d_%d-%d" % (junkid, span[0], span[1]) *)
Definition render (k : key) : str :=
  match k with
  | KStr s => s
  | KJunk i a b => junk_prefix ++ dec i ++ 95%N :: dec a ++ 45%N :: dec b
  end.

Definition is_junk_key (k : key) : bool := match k with KJunk _ _ _ => true | KStr _ => false end.

(* an entry object: it holds a reference to its OWN context *)
Record ent := E { e_ctx : option nat; e_key : key; e_data : pentry }.

Record ctx := Ctx { c_contents : str; c_flag : bool }.

Section Machine.

Variables V FC RX MRX : Type.

(* ---- the pure parts (parameters) ------------------------------------- *)
(* Parser.walk over a context with the given contents, started with the
   given value of Context.filter_empty_lines: the entry constructions in
   order and the value the flag is left with *)
Variable walk_fn : fmt -> str -> bool -> list pentry * bool.

(* the operations whose result is a report / bytes: all of them read a list
   of texts with the parser of one format, in order *)
Inductive vop :=
| VCompare (f : fmt) (ref l10n : str) (x : nat)          (* ContentComparer.compare; x: the other arguments *)
| VLint (f : fmt) (ref : option str) (cur : str) (x : nat) (* L10nLinter.lint_file *)
| VMerge (f : fmt) (rs : list str) (x : nat)              (* merge_channels *)
| VSerialize (f : fmt) (ref old : str) (x : nat).         (* parse both, serializer.serialize *)

Definition vop_fmt (o : vop) : fmt :=
  match o with
  | VCompare f _ _ _ | VLint f _ _ _ | VMerge f _ _ | VSerialize f _ _ _ => f
  end.
Definition vop_texts (o : vop) : list str :=
  match o with
  | VCompare _ r l _ => [r; l]
  | VLint _ (Some r) c _ => [r; c]
  | VLint _ None c _ => [c]
  | VMerge _ rs _ => rs
  | VSerialize _ r o _ => [r; o]
  end.

(* an entry as the rest of an operation sees it: its key, the contents of its
   context, its data *)
Definition kent := (key * str * pentry)%type.

(* what the operation computes from its arguments and from the keyed entry
   lists it parsed (junk keys carry the ids they happened to get) *)
Variable res_fn : vop -> list (list kent) -> V.

(* Some final text iff the operation runs DTDChecker with processContent: the
   checker assigns texthandler.textcontent = "" before every use *)
Variable dtd_fn : vop -> option str.

(* ProjectConfig.cache(locale) for configuration object c whose content is
   version n; the rest of _filter on the cache entry *)
Variable fc_compute : nat -> nat -> str -> FC.
Variable fc_query : FC -> str -> option str -> V.
(* mozpath.match: translation + re.compile of a pattern; matching a path *)
Variable rx_compile : str -> RX.
Variable rx_match : RX -> str -> V.
Variable mm_empty : V.                                 (* `if not pattern: return True` *)
(* Matcher._cache_regex of Matcher object m; Matcher.match *)
Variable m_compile : nat -> MRX.
Variable m_match : MRX -> str -> V.

(* ---- the state -------------------------------------------------------- *)
Record gstate := G {
  g_heap : list ctx;                    (* every Context ever created; index = identity *)
  g_pctx : fmt -> option nat;           (* Parser.ctx of each singleton *)
  g_junkid : nat;                       (* Junk.junkid *)
  g_xjunkid : option nat;               (* XMLJunk.junkid: created by the first XMLJunk, see [bump] *)
  g_dtdtext : str;                      (* DTDChecker.texthandler.textcontent *)
  g_cfgver : nat -> nat;                (* content version of each ProjectConfig object *)
  g_fcache : nat -> option (str * FC);  (* ProjectConfig._cache: (locale, entry) *)
  g_recache : str -> option RX;         (* mozpath.re_cache *)
  g_mcache : nat -> option MRX          (* Matcher._cached_re *)
}.

Definition init : gstate :=
  G [] (fun _ => None) 0 None [] (fun _ => 0) (fun _ => None) (fun _ => None) (fun _ => None).

Definition upd {T} (f : nat -> T) (k : nat) (v : T) : nat -> T :=
  fun k' => if Nat.eqb k' k then v else f k'.
Definition upd_str {T} (f : str -> T) (k : str) (v : T) : str -> T :=
  fun k' => if str_eqb k' k then v else f k'.

Definition set_heap (st : gstate) x :=
  G x (g_pctx st) (g_junkid st) (g_xjunkid st) (g_dtdtext st) (g_cfgver st) (g_fcache st) (g_recache st) (g_mcache st).
Definition set_pctx (st : gstate) x :=
  G (g_heap st) x (g_junkid st) (g_xjunkid st) (g_dtdtext st) (g_cfgver st) (g_fcache st) (g_recache st) (g_mcache st).
Definition set_junkid (st : gstate) x :=
  G (g_heap st) (g_pctx st) x (g_xjunkid st) (g_dtdtext st) (g_cfgver st) (g_fcache st) (g_recache st) (g_mcache st).
Definition set_xjunkid (st : gstate) x :=
  G (g_heap st) (g_pctx st) (g_junkid st) x (g_dtdtext st) (g_cfgver st) (g_fcache st) (g_recache st) (g_mcache st).
Definition set_dtdtext (st : gstate) x :=
  G (g_heap st) (g_pctx st) (g_junkid st) (g_xjunkid st) x (g_cfgver st) (g_fcache st) (g_recache st) (g_mcache st).
Definition set_cfgver (st : gstate) x :=
  G (g_heap st) (g_pctx st) (g_junkid st) (g_xjunkid st) (g_dtdtext st) x (g_fcache st) (g_recache st) (g_mcache st).
Definition set_fcache (st : gstate) x :=
  G (g_heap st) (g_pctx st) (g_junkid st) (g_xjunkid st) (g_dtdtext st) (g_cfgver st) x (g_recache st) (g_mcache st).
Definition set_recache (st : gstate) x :=
  G (g_heap st) (g_pctx st) (g_junkid st) (g_xjunkid st) (g_dtdtext st) (g_cfgver st) (g_fcache st) x (g_mcache st).
Definition set_mcache (st : gstate) x :=
  G (g_heap st) (g_pctx st) (g_junkid st) (g_xjunkid st) (g_dtdtext st) (g_cfgver st) (g_fcache st) (g_recache st) x.

Fixpoint replace_nth {T} (n : nat) (x : T) (l : list T) : list T :=
  match l, n with
  | [], _ => []
  | _ :: r, O => x :: r
  | y :: r, S n' => y :: replace_nth n' x r
  end.

(* ---- parsing ---------------------------------------------------------- *)
(* Parser.readUnicode: self.ctx = self.Context(contents) — a NEW object;
   DefinesParser.Context.__init__ sets filter_empty_lines = False *)
Definition read_unicode (st : gstate) (f : fmt) (t : str) : gstate :=
  set_pctx (set_heap st (g_heap st ++ [Ctx t false]))
           (upd (g_pctx st) f (Some (length (g_heap st)))).

(* the entry objects of a walk started when Junk.junkid = j, on context c
   with contents t: every Junk construction first increments the counter *)
Fixpoint ents_of (j c : nat) (t : str) (es : list pentry) : list ent :=
  match es with
  | [] => []
  | PGhost :: r => ents_of (S j) c t r
  | PJunk a b :: r => E (Some c) (KJunk (S j) a b) (PJunk a b) :: ents_of (S j) c t r
  | PLitJunk s :: r => E None (KJunk (S j) 0 0) (PLitJunk s) :: ents_of (S j) c t r
  | PEnt s0 sp ksp vsp :: r =>
      E (Some c) (KStr (slice t (fst ksp) (snd ksp))) (PEnt s0 sp ksp vsp) :: ents_of j c t r
  | PLit k v a :: r => E (Some c) (KStr k) (PLit k v a) :: ents_of j c t r
  end.

(* Junk.__init__ does `self.__class__.junkid += 1`: for an XMLJunk (the only
   junk AndroidParser makes, and nobody else makes one — checked by the
   translator, [xmljunk_parsers]) this reads Junk.junkid through the class the
   first time and from then on XMLJunk has a counter of its own *)
Definition xml_fmt (f : fmt) : bool := existsb (Nat.eqb f) xmljunk_parsers.

(* the value the next Junk of parser f increments *)
Definition eff (st : gstate) (f : fmt) : nat :=
  if xml_fmt f then match g_xjunkid st with Some x => x | None => g_junkid st end
  else g_junkid st.

Definition bump (st : gstate) (f : fmt) (n : nat) : gstate :=
  if xml_fmt f then
    match n with
    | O => st                                   (* no XMLJunk made: no attribute created *)
    | _ => set_xjunkid st (Some (eff st f + n))
    end
  else set_junkid st (g_junkid st + n).

(* Parser.parse() / walk() on the parser's CURRENT context: reads contents and
   flag through self.ctx, leaves the flag on that context, advances the junk
   counter of its Junk class *)
Definition walk (st : gstate) (f : fmt) : gstate * list ent :=
  match g_pctx st f with
  | None => (st, [])                           (* `if not self.ctx: return` *)
  | Some c =>
      match nth_error (g_heap st) c with
      | None => (st, [])                       (* no dangling reference exists (proved) *)
      | Some cx =>
          let r := walk_fn f (c_contents cx) (c_flag cx) in
          (bump (set_heap st (replace_nth c (Ctx (c_contents cx) (snd r)) (g_heap st)))
                f (ncons (fst r)),
           ents_of (eff st f) c (c_contents cx) (fst r))
      end
  end.

Definition parse1 (st : gstate) (f : fmt) (t : str) : gstate * list ent :=
  walk (read_unicode st f t) f.

Fixpoint parse_many (st : gstate) (f : fmt) (ts : list str) : gstate * list (list ent) :=
  match ts with
  | [] => (st, [])
  | t :: r =>
      let p := parse1 st f t in
      let q := parse_many (fst p) f r in
      (fst q, snd p :: snd q)
  end.

Definition ctx_contents (h : list ctx) (c : option nat) : str :=
  match c with
  | None => []
  | Some n => match nth_error h n with Some cx => c_contents cx | None => [] end
  end.

Definition resolve (h : list ctx) (e : ent) : kent :=
  (e_key e, ctx_contents h (e_ctx e), e_data e).

(* ---- operations --------------------------------------------------------- *)
Inductive op :=
| Parse (f : fmt) (t : str)        (* getParser(path); readUnicode(t); parse() *)
| Rewalk (f : fmt)                 (* parse() again on the same parser without reading *)
| Do (o : vop)
| FilterQ (c : nat) (loc path : str) (entity : option str)    (* ProjectConfig.filter, flat config *)
| Reconfig (c : nat)               (* add_paths / add_rules / ... on configuration object c *)
| MozMatch (path pat : str)        (* mozpath.match *)
| MatcherQ (m : nat) (path : str). (* Matcher.match *)

Inductive out :=
| OEnts (es : list ent)
| OVal (v : V)
| ONone.

Definition step (st : gstate) (o : op) : gstate * out :=
  match o with
  | Parse f t => let p := parse1 st f t in (fst p, OEnts (snd p))
  | Rewalk f => let p := walk st f in (fst p, OEnts (snd p))
  | Do v =>
      let p := parse_many st (vop_fmt v) (vop_texts v) in
      let st1 := fst p in
      let st2 := match dtd_fn v with Some s => set_dtdtext st1 s | None => st1 end in
      (st2, OVal (res_fn v (map (map (resolve (g_heap st1))) (snd p))))
  | FilterQ c loc path entity =>
      let hit := match g_fcache st c with
                 | Some (l, e) => if str_eqb l loc then Some e else None
                 | None => None
                 end in
      match hit with
      | Some e => (st, OVal (fc_query e path entity))
      | None =>
          let e := fc_compute c (g_cfgver st c) loc in
          (set_fcache st (upd (g_fcache st) c (Some (loc, e))), OVal (fc_query e path entity))
      end
  | Reconfig c =>
      (* the configuration changes; _all_locales is cleared, _cache is NOT *)
      (set_cfgver st (upd (g_cfgver st) c (S (g_cfgver st c))), ONone)
  | MozMatch path pat =>
      match pat with
      | [] => (st, OVal mm_empty)
      | _ =>
          match g_recache st pat with
          | Some r => (st, OVal (rx_match r path))
          | None =>
              let r := rx_compile pat in
              (set_recache st (upd_str (g_recache st) pat (Some r)), OVal (rx_match r path))
          end
      end
  | MatcherQ m path =>
      match g_mcache st m with
      | Some r => (st, OVal (m_match r path))
      | None =>
          let r := m_compile m in
          (set_mcache st (upd (g_mcache st) m (Some r)), OVal (m_match r path))
      end
  end.

Definition run (h : list op) (st : gstate) : gstate :=
  fold_left (fun s o => fst (step s o)) h st.

(* ---- observing results -------------------------------------------------- *)
(* what a caller can read off an entry object: key (without the junk id), and
   the slices the properties key / raw_val / all take from the entry's own
   context *)
Definition canon_key (k : key) : str * option span :=
  match k with
  | KStr s => (s, None)
  | KJunk _ a b => ([], Some (a, b))
  end.

Definition obs_data (t : str) (d : pentry) : list str :=
  match d with
  | PEnt s0 sp ksp vsp =>
      [slice t (fst ksp) (snd ksp);
       match vsp with Some v => slice t (fst v) (snd v) | None => [] end;
       slice t s0 (snd sp)]
  | PLit k v a => [k; v; a]
  | PJunk a b => [slice t a b]
  | PLitJunk a => [a]
  | PGhost => []
  end.

Definition obs_ent (h : list ctx) (e : ent) : (str * option span) * list str * pentry :=
  (canon_key (e_key e), obs_data (ctx_contents h (e_ctx e)) (e_data e), e_data e).

(* equality up to the numeric id inside junk keys; plain equality on reports *)
Definition out_equiv (h1 : list ctx) (o1 : out) (h2 : list ctx) (o2 : out) : Prop :=
  match o1, o2 with
  | OEnts a, OEnts b => map (obs_ent h1) a = map (obs_ent h2) b
  | OVal a, OVal b => a = b
  | ONone, ONone => True
  | _, _ => False
  end.

(* ---- the contract of the report functions -------------------------------- *)
Definition same_but_id (a b : kent) : Prop :=
  canon_key (fst (fst a)) = canon_key (fst (fst b)) /\ snd (fst a) = snd (fst b) /\ snd a = snd b.

Definition junk_keys (L : list kent) : list key :=
  filter is_junk_key (map (fun k => fst (fst k)) L).
Definition str_keys (L : list kent) : list str :=
  flat_map (fun k => match fst (fst k) with KStr s => [s] | KJunk _ _ _ => [] end) L.

(* no junk key is equal, as a string, to any other key of the operation *)
Definition coll_free (L : list kent) : Prop :=
  NoDup (map render (junk_keys L)) /\
  forall k s, In k (junk_keys L) -> In s (str_keys L) -> render k <> s.

(* the reports use junk keys only as dictionary keys: renumbering the junk
   ids does not change a report as long as no junk key collides *)
Definition res_contract : Prop :=
  forall v Ls Ls',
    Forall2 (Forall2 same_but_id) Ls Ls' ->
    coll_free (concat Ls) -> coll_free (concat Ls') ->
    res_fn v Ls = res_fn v Ls'.

(* no entity key of the operation's files has the form of a junk key *)
Definition junklike (s : str) : Prop := exists i a b, s = render (KJunk i a b).

Definition ent_key_of (t : str) (p : pentry) : option str :=
  match p with
  | PEnt _ _ ksp _ => Some (slice t (fst ksp) (snd ksp))
  | PLit k _ _ => Some k
  | _ => None
  end.

Definition no_junklike_text (f : fmt) (t : str) : Prop :=
  forall p s, In p (fst (walk_fn f t false)) -> ent_key_of t p = Some s -> ~ junklike s.

Definition no_junklike (v : vop) : Prop :=
  Forall (no_junklike_text (vop_fmt v)) (vop_texts v).

Definition is_reconfig (o : op) : bool := match o with Reconfig _ => true | _ => false end.
Definition is_rewalk (o : op) : bool := match o with Rewalk _ => true | _ => false end.

(* the keyed entry lists an operation sees when it starts with Junk.junkid = j *)
Fixpoint kents_of (j : nat) (t : str) (es : list pentry) : list kent :=
  match es with
  | [] => []
  | PGhost :: r => kents_of (S j) t r
  | PJunk a b :: r => (KJunk (S j) a b, t, PJunk a b) :: kents_of (S j) t r
  | PLitJunk s :: r => (KJunk (S j) 0 0, [], PLitJunk s) :: kents_of (S j) t r
  | PEnt s0 sp ksp vsp :: r =>
      (KStr (slice t (fst ksp) (snd ksp)), t, PEnt s0 sp ksp vsp) :: kents_of j t r
  | PLit k v a :: r => (KStr k, t, PLit k v a) :: kents_of j t r
  end.

Fixpoint kents_many (j : nat) (f : fmt) (ts : list str) : list (list kent) :=
  match ts with
  | [] => []
  | t :: r =>
      let es := fst (walk_fn f t false) in
      kents_of j t es :: kents_many (j + ncons es) f r
  end.

End Machine.

Arguments G {FC RX MRX}.
Arguments g_heap {FC RX MRX}.
Arguments g_pctx {FC RX MRX}.
Arguments g_junkid {FC RX MRX}.
Arguments g_xjunkid {FC RX MRX}.
Arguments g_dtdtext {FC RX MRX}.
Arguments g_cfgver {FC RX MRX}.
Arguments g_fcache {FC RX MRX}.
Arguments g_recache {FC RX MRX}.
Arguments g_mcache {FC RX MRX}.
Arguments set_heap {FC RX MRX}.
Arguments set_pctx {FC RX MRX}.
Arguments set_junkid {FC RX MRX}.
Arguments set_xjunkid {FC RX MRX}.
Arguments set_dtdtext {FC RX MRX}.
Arguments set_cfgver {FC RX MRX}.
Arguments set_fcache {FC RX MRX}.
Arguments set_recache {FC RX MRX}.
Arguments set_mcache {FC RX MRX}.
Arguments eff {FC RX MRX}.
Arguments bump {FC RX MRX}.
Arguments OEnts {V} es.
Arguments OVal {V} v.
Arguments ONone {V}.

(* ===================================================================== *)
(* Part 3: the observer's accumulation (Observer.notify / updateStats)    *)
(* ===================================================================== *)
Section Union.
Variable D : Type.     (* one detail entry of a file *)

(* what comparing one file pair contributes (a function of the pair by
   C18_independent): the file, its locale, its detail entries, its counters *)
Record contrib := Contrib { cb_file : nat; cb_loc : nat; cb_details : list D; cb_stats : list nat }.

Record observer := Obs {
  o_summary : nat -> list nat;     (* defaultdict: locale -> counters *)
  o_details : nat -> list D        (* Tree(list): file -> entries *)
}.

Definition obs_init : observer := Obs (fun _ => []) (fun _ => []).

(* counters are added pointwise (a missing counter counts as 0) *)
Fixpoint vadd (a b : list nat) : list nat :=
  match a, b with
  | [], _ => b
  | _, [] => a
  | x :: a', y :: b' => x + y :: vadd a' b'
  end.

Definition add_contrib (o : observer) (c : contrib) : observer :=
  Obs (fun l => if Nat.eqb l (cb_loc c) then vadd (o_summary o l) (cb_stats c) else o_summary o l)
      (fun f => if Nat.eqb f (cb_file c) then o_details o f ++ cb_details c else o_details o f).

Definition run_files (cs : list contrib) : observer := fold_left add_contrib cs obs_init.

Definition vsum (l : list (list nat)) : list nat := fold_right vadd [] l.

End Union.
