(* Model of compare_locales/compare/utils.py AddRemove.__iter__ and of
   compare_locales/keyedtuple.py KeyedTuple.  Definitions only; proofs are in
   Proofs/AddRemoveProofs.v so the model still runs when a proof breaks. *)
From Coq Require Import ZArith List Bool.
From CL Require Import Base.Sx Base.Res.
Import ListNotations.
Open Scope Z_scope.

Section AddRemove.
Context {K : Type} (eqb : K -> K -> bool).

Definition ord := (Z * Z)%type.

(* a Python dict: association list in insertion order; assignment to an
   existing key keeps its position *)
Fixpoint dset (k : K) (v : ord) (m : list (K * ord)) : list (K * ord) :=
  match m with
  | [] => [(k, v)]
  | (k', v') :: m' => if eqb k k' then (k', v) :: m' else (k', v') :: dset k v m'
  end.

Fixpoint dget (k : K) (m : list (K * ord)) : option ord :=
  match m with
  | [] => None
  | (k', v') :: m' => if eqb k k' then Some v' else dget k m'
  end.

Fixpoint mem (k : K) (l : list K) : bool :=
  match l with [] => false | x :: l' => eqb k x || mem k l' end.

(* order_map = {item: (i, -1) for i, item in enumerate(self.left)} *)
Fixpoint build_left (i : Z) (l : list K) (m : list (K * ord)) : list (K * ord) :=
  match l with
  | [] => m
  | x :: l' => build_left (i + 1) l' (dset x (i, -1) m)
  end.

(* the loop over enumerate(self.right) *)
Fixpoint build_right (i off : Z) (r : list K) (m : list (K * ord)) : list (K * ord) :=
  match r with
  | [] => m
  | x :: r' =>
      match dget x m with
      | Some (li, _) => build_right (i + 1) li r' m
      | None => build_right (i + 1) off r' (dset x (off, i) m)
      end
  end.

Definition order_map (l r : list K) : list (K * ord) :=
  build_right 0 (-1) r (build_left 0 l []).

Definition ord_ltb (a b : ord) : bool :=
  (fst a <? fst b) || ((fst a =? fst b) && (snd a <? snd b)).

(* sorted(order_map, key=...) : a stable sort *)
Fixpoint insert (x : K * ord) (s : list (K * ord)) : list (K * ord) :=
  match s with
  | [] => [x]
  | y :: s' => if ord_ltb (snd y) (snd x) then y :: insert x s' else x :: y :: s'
  end.

Definition sort (m : list (K * ord)) : list (K * ord) := fold_right insert [] m.

Inductive label := Equal | Delete | Add.

Definition label_of (l r : list K) (k : K) : label :=
  if mem k l then (if mem k r then Equal else Delete) else Add.

Definition addremove (l r : list K) : list (label * K) :=
  map (fun kv => (label_of l r (fst kv), fst kv)) (sort (order_map l r)).

(* ---- independent recursive specification (C20_anchor) -------------------
   [runs l r] splits r at the items that are also in l: the right-only items
   before the first common item, and each common item with the run of
   right-only items that follow it. *)
Fixpoint runs (l r : list K) : list K * list (K * list K) :=
  match r with
  | [] => ([], [])
  | y :: r' =>
      let (pre, gs) := runs l r' in
      if mem y l then ([], (y, pre) :: gs) else (y :: pre, gs)
  end.

Fixpoint followers (x : K) (gs : list (K * list K)) : list K :=
  match gs with
  | [] => []
  | (a, ys) :: gs' => if eqb x a then ys else followers x gs'
  end.

Definition spec_keys (l r : list K) : list K :=
  let (pre, gs) := runs l r in
  pre ++ flat_map (fun x => x :: followers x gs) l.

Definition spec (l r : list K) : list (label * K) :=
  map (fun k => (label_of l r k, k)) (spec_keys l r).

(* ---- KeyedTuple -------------------------------------------------------- *)
Context {E : Type} (key : E -> K).

(* self.__map[item.key] = index, later occurrences overwrite *)
Fixpoint kt_index_from (i : nat) (k : K) (items : list E) : option nat :=
  match items with
  | [] => None
  | e :: items' =>
      match kt_index_from (S i) k items' with
      | Some j => Some j
      | None => if eqb k (key e) then Some i else None
      end
  end.
Definition kt_index := kt_index_from 0.

Definition kt_contains (k : K) (items : list E) : bool :=
  match kt_index k items with Some _ => true | None => false end.

(* kt[key] for a key of the key type: the map hit, else tuple.__getitem__
   with a non-integer, which is a TypeError *)
Definition kt_getitem (k : K) (items : list E) : result E :=
  match kt_index k items with
  | Some i => match nth_error items i with Some e => Ok e | None => Raise IndexError end
  | None => Raise TypeError
  end.

(* kt[i] for an integer that is no key: plain tuple indexing *)
Definition kt_getpos (z : Z) (items : list E) : result E :=
  let n := Z.of_nat (length items) in
  let z' := if z <? 0 then z + n else z in
  if (z' <? 0) || (n <=? z') then Raise IndexError
  else match nth_error items (Z.to_nat z') with Some e => Ok e | None => Raise IndexError end.

Definition kt_keys (items : list E) : list K := map key items.

End AddRemove.

Definition label_code (l : label) : Z :=
  match l with Equal => 0 | Delete => 1 | Add => 2 end.
