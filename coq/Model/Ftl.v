(* The part of the fluent.syntax AST that compare_locales/checks/fluent.py looks
   at, and the traversal of fluent.syntax.visitor.Visitor over it.

   Visitor.generic_visit visits the fields of a node in the order of
   vars(node), i.e. the order in which fluent.syntax.ast's constructors assign
   them (span first, then the declared fields).  That order is MODELLED here as
   the order of the constructor arguments; it is tied to the library by the
   correspondence suite FTL-CHECK only.

   Spans are data: only the span starts the checker reads are kept
   (MessageReference / TermReference, variant keys, attributes, the value
   pattern, the entry).  Definitions only. *)
From Coq Require Import NArith List Bool Arith.
From CL Require Import Base.Str.
Import ListNotations.

(* Variant.key : Identifier (name) | NumberLiteral (value, a string) *)
Inductive vkey :=
| KId (name : str)
| KNum (value : str).

Inductive expr :=
| EStr (v : str)                                    (* StringLiteral *)
| ENum (v : str)                                    (* NumberLiteral *)
| EVar (id : str)                                   (* VariableReference *)
| EMsg (pos : nat) (id : str) (attr : option str)   (* MessageReference, span.start *)
| ETerm (pos : nat) (id : str) (attr : option str) (args : option exprs)
                                                    (* TermReference; CallArguments or None *)
| EFun (id : str) (args : exprs)                    (* FunctionReference *)
| ESel (sel : expr) (vs : variants)                 (* SelectExpression *)
| EPlace (e : expr)                                 (* Placeable used as an expression *)
(* CallArguments: the positional expressions followed by the values of the
   named arguments (generic_visit order: positional, then named; the names are
   Identifiers, in which nothing is looked at) *)
with exprs :=
| ENil
| ECons (e : expr) (es : exprs)
(* Pattern.elements *)
with pattern :=
| PNil
| PText (v : str) (p : pattern)                     (* TextElement *)
| PPlace (e : expr) (p : pattern)                   (* Placeable *)
(* SelectExpression.variants: key, key.span.start, default flag, value *)
with variants :=
| VNil
| VCons (k : vkey) (kpos : nat) (dflt : bool) (v : pattern) (vs : variants).

Scheme expr_mind := Induction for expr Sort Prop
  with exprs_mind := Induction for exprs Sort Prop
  with pattern_mind := Induction for pattern Sort Prop
  with variants_mind := Induction for variants Sort Prop.
Combined Scheme ftl_mutind from expr_mind, exprs_mind, pattern_mind, variants_mind.

Record attribute := mkattr {
  a_name : str;                 (* id.name *)
  a_pos : nat;                  (* span.start *)
  a_value : pattern
}.

(* Message / Term *)
Record entry := mkentry {
  e_term : bool;                          (* isinstance(entry, ftl.Term) *)
  e_pos : nat;                            (* span.start (includes an attached comment) *)
  e_value : option (nat * pattern);       (* value: (value.span.start, pattern) or None *)
  e_attrs : list attribute
}.

(* ---- what the visitors' handlers are called with, in visiting order -------- *)
Inductive event :=
| EvMsgRef (pos : nat) (id : str) (attr : option str)    (* visit_MessageReference *)
| EvTermRef (pos : nat) (id : str) (attr : option str)   (* visit_TermReference *)
| EvSelect (keys : list (vkey * nat)).                   (* after the children of a SelectExpression *)

Fixpoint variant_keys (vs : variants) : list (vkey * nat) :=
  match vs with
  | VNil => []
  | VCons k kpos _ _ vs' => (k, kpos) :: variant_keys vs'
  end.

(* [deep = false]: ReferenceMessageVisitor / L10nMessageVisitor -- a
   SelectExpression is visited through its variants only
   (visit_SelectExpression: self.visit(node.variants)), a MessageReference or
   TermReference is a leaf (its handler does not descend).
   [deep = true]: TermVisitor -- generic_visit everywhere: the selector and the
   arguments of term references are visited too.
   In both modes the EvSelect of a SelectExpression comes after everything
   inside it (check_variants is called after the children were visited). *)
Fixpoint walk_expr (deep : bool) (e : expr) : list event :=
  match e with
  | EStr _ | ENum _ | EVar _ => []
  | EMsg p i a => [EvMsgRef p i a]
  | ETerm p i a args =>
      EvTermRef p i a ::
      (if deep then match args with Some es => walk_exprs deep es | None => [] end else [])
  | EFun _ args => walk_exprs deep args
  | ESel sel vs =>
      (if deep then walk_expr deep sel else []) ++ walk_variants deep vs
      ++ [EvSelect (variant_keys vs)]
  | EPlace e' => walk_expr deep e'
  end
with walk_exprs (deep : bool) (es : exprs) : list event :=
  match es with
  | ENil => []
  | ECons e es' => walk_expr deep e ++ walk_exprs deep es'
  end
with walk_pattern (deep : bool) (p : pattern) : list event :=
  match p with
  | PNil => []
  | PText _ p' => walk_pattern deep p'
  | PPlace e p' => walk_expr deep e ++ walk_pattern deep p'
  end
with walk_variants (deep : bool) (vs : variants) : list event :=
  match vs with
  | VNil => []
  | VCons _ _ _ v vs' => walk_pattern deep v ++ walk_variants deep vs'
  end.

(* pattern_variants(pattern): the text of a pattern that is one TextElement *)
Definition pattern_variants (p : pattern) : option str :=
  match p with
  | PText v PNil => Some v
  | _ => None
  end.
