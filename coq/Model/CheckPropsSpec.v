(* The independent positional-argument model of C06 (specification side):
   values as token lists, their rendering, and the expected outcome of
   getPrintfSpecs by construction.  Definitions only.

   A value is a list of tokens:
     TText s            text without a per cent sign
     TPct               an escaped per cent sign (two per cent signs)
     TLone              a per cent sign that starts no conversion
     TSpec n w p c      a conversion: optional argument number n$ (decimal
                        digits, first one not 0), optional width (star or
                        digits), optional precision (dot, dot-star or
                        dot-digits), conversion character c
   [argmodel] reads the tokens left to right:
     - TText and TPct contribute nothing;
     - TLone is the error "Found single %" at its offset;
     - the first conversion fixes the style (ordered = with n$, or not); a later
       conversion of the other style is the error "Mixed ..." at its offset;
     - unordered conversions are appended; an ordered conversion n$ c puts c
       into slot n (a later one for the same slot wins);
     - at the end, ordered: the slots 1..max must all be filled, otherwise
       "Ordered argument missing" at offset 0.                                *)
From Coq Require Import NArith List Bool Arith.
From CL Require Import Base.Str Regex.Rx Generated.RxC06 Generated.C06Facts Model.CheckProps.
Import ListNotations.

Inductive width := WNone | WStar | WNum (ds : str).
Inductive prec := PNone | PDot | PDotStar | PDotNum (ds : str).

Inductive tok :=
| TText (s : str)
| TPct
| TLone
| TSpec (num : option str) (w : width) (p : prec) (c : N).

Definition pct : N := 37%N.

Definition render_width (w : width) : str :=
  match w with WNone => [] | WStar => [42%N] | WNum ds => ds end.

Definition render_prec (p : prec) : str :=
  match p with
  | PNone => []
  | PDot => [46%N]
  | PDotStar => [46%N; 42%N]
  | PDotNum ds => 46%N :: ds
  end.

Definition render_tok (t : tok) : str :=
  match t with
  | TText s => s
  | TPct => [pct; pct]
  | TLone => [pct]
  | TSpec num w p c =>
      pct :: match num with Some ds => ds ++ [36%N] | None => [] end
          ++ render_width w ++ render_prec p ++ [c]
  end.

Definition render (toks : list tok) : str := concat (map render_tok toks).

(* ---- well-formed ("clean") token lists ------------------------------------ *)
Definition is_digit (c : N) : bool := (48 <=? c)%N && (c <=? 57)%N.
Definition digits (s : str) : bool := nonempty s && forallb is_digit s.
Definition number_ok (s : str) : bool :=
  match s with
  | d :: r => (49 <=? d)%N && (d <=? 57)%N && forallb is_digit r
  | [] => false
  end.

(* d u x X o s S c p f g *)
Definition spec_chars : list N := [100; 117; 120; 88; 111; 115; 83; 99; 112; 102; 103]%N.
Definition is_spec_char (c : N) : bool := mem_N c spec_chars.

(* characters that can continue a per cent sign into a conversion or an escape *)
Definition starts_conversion (c : N) : bool :=
  N.eqb c pct || N.eqb c 42 || N.eqb c 46 || is_digit c || is_spec_char c.

Definition lone_ok (rest : str) : bool :=
  match rest with [] => true | c :: _ => negb (starts_conversion c) end.

Definition tok_ok (t : tok) : bool :=
  match t with
  | TText s => negb (mem_N pct s)
  | TPct | TLone => true
  | TSpec num w p c =>
      match num with Some ds => number_ok ds | None => true end &&
      match w with WNum ds => digits ds | _ => true end &&
      match p with PDotNum ds => digits ds | _ => true end &&
      is_spec_char c
  end.

Fixpoint clean (toks : list tok) : bool :=
  match toks with
  | [] => true
  | t :: rest =>
      tok_ok t && clean rest &&
      match t with TLone => lone_ok (render rest) | _ => true end
  end.

(* ---- the positional argument model ------------------------------------------ *)
(* value of a decimal numeral *)
Definition dec_val (ds : str) : N := fold_left (fun acc c => (acc * 10 + (c - 48))%N) ds 0%N.

(* ordered slots: the latest assignment first *)
Fixpoint slot (n : nat) (slots : list (nat * N)) : option N :=
  match slots with
  | [] => None
  | (k, c) :: r => if Nat.eqb k n then Some c else slot n r
  end.

Definition max_slot (slots : list (nat * N)) : nat :=
  fold_right (fun kc acc => Nat.max (fst kc) acc) 0 slots.

Inductive style := SNone | SUnordered (args : list N) | SOrdered (slots : list (nat * N)).

Definition finish (st : style) : sres :=
  match st with
  | SNone => SOk []
  | SUnordered args => SOk (map (fun c => Some [c]) args)
  | SOrdered slots =>
      let filled := map (fun n => slot n slots) (seq 1 (max_slot slots)) in
      if forallb (fun o => match o with Some _ => true | None => false end) filled
      then SOk (map (fun o => match o with Some c => Some [c] | None => None end) filled)
      else SErr 0 PEMissing
  end.

Fixpoint argmodel_from (toks : list tok) (off : nat) (st : style) : sres :=
  match toks with
  | [] => finish st
  | t :: rest =>
      let off' := off + length (render_tok t) in
      match t with
      | TText _ | TPct => argmodel_from rest off' st
      | TLone => SErr off PESingle
      | TSpec None _ _ c =>
          match st with
          | SNone => argmodel_from rest off' (SUnordered [c])
          | SUnordered args => argmodel_from rest off' (SUnordered (args ++ [c]))
          | SOrdered _ => SErr off PEMixed
          end
      | TSpec (Some ds) _ _ c =>
          let n := N.to_nat (dec_val ds) in
          match st with
          | SNone => argmodel_from rest off' (SOrdered [(n, c)])
          | SOrdered slots => argmodel_from rest off' (SOrdered ((n, c) :: slots))
          | SUnordered _ => SErr off PEMixed
          end
      end
  end.

Definition argmodel (toks : list tok) : sres := argmodel_from toks 0 SNone.

(* ---- the vocabulary of verdicts ------------------------------------------------
   What the consumers of a checker look at: the severity strings "error" and
   "warning" (compare/content.py counts them), the category, the position. *)
Definition s_error : str := [101; 114; 114; 111; 114]%N.                    (* "error" *)
Definition s_warning : str := [119; 97; 114; 110; 105; 110; 103]%N.         (* "warning" *)
Definition s_printf : str := [112; 114; 105; 110; 116; 102]%N.              (* "printf" *)
Definition s_plural : str := [112; 108; 117; 114; 97; 108]%N.               (* "plural" *)

Definition is_error (f : finding) : bool := str_eqb (f_sev f) s_error.
Definition has_error (fs : list finding) : bool := existsb is_error fs.

Definition prefix {A} (l1 l2 : list A) : Prop := exists c, l2 = l1 ++ c.

(* ---- plural forms ------------------------------------------------------------------ *)
Definition plural_f (sev msg : str) : finding := mkf sev 0 false msg s_plural.

(* the number of plural forms of a locale: None = unknown locale *)
Definition plural_forms (locale : option str) : option nat :=
  match get_plural_rule locale with
  | Some n => Some (length (nth n plural_categories_by_index []))
  | None => None
  end.

Definition semicolon : N := 59%N.
Definition found_forms (l10nValue : str) : nat := count_char semicolon l10nValue + 1.

(* ---- the regex layer, as a contract -----------------------------------------------
   [pct_toks toks off]: the tokens that begin with a per cent sign, with their
   offsets in the rendering.  [tok_match s off t x]: the match object x
   describes the token t at offset off of s: it starts there; "good" is the
   escaped per cent sign / did not take part / is the conversion; "number" and
   "spec" are the token's. *)
Fixpoint pct_toks (toks : list tok) (off : nat) : list (nat * tok) :=
  match toks with
  | [] => []
  | t :: r =>
      let off' := off + length (render_tok t) in
      match t with
      | TText _ => pct_toks r off'
      | _ => (off, t) :: pct_toks r off'
      end
  end.

Definition tok_match (s : str) (off : nat) (t : tok) (x : Rx.mres) : Prop :=
  Rx.m_start x = off /\
  match t with
  | TText _ => False
  | TPct => gtext s RxC06.g_printf_good x = Some [pct]
  | TLone => gtext s RxC06.g_printf_good x = None
  | TSpec num w p c =>
      (exists g, gtext s RxC06.g_printf_good x = Some g /\ g <> [pct]) /\
      gtext s RxC06.g_printf_number x = num /\
      gtext s RxC06.g_printf_spec x = Some [c]
  end.

Definition matches_describe (toks : list tok) (ms : list Rx.mres) : Prop :=
  Forall2 (fun ot x => tok_match (render toks) (fst ot) (snd ot) x) (pct_toks toks 0) ms.
