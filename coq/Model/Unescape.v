(* Value semantics on top of the parser models (C02):
     Entry.key / raw_val / val per format, Comment.val variants,
     PropertiesEntityMixin.val (escape.sub(unescape, raw_val)),
     po.eval_stringlist / PoEntityMixin.key / val,
     DTDEntityMixin.val (html_unescape as an oracle parameter),
     FluentParser entries' key / raw_val / val, FluentComment.val (oracle content),
     AndroidParser.walk / handleComment / handleElement / textContent / normalize over an
     oracle DOM child list.
   Definitions only.  The regular expressions and tables are the generated ones. *)
From Coq Require Import NArith List Bool Arith.
From CL Require Import Base.Sx Base.Res Base.Str Regex.Rx Model.Entry Model.Parse Model.ParseFluent
  Model.ParseFormats Generated.RxParser Generated.RxC02 Generated.C02Facts.
Import ListNotations.

Definition span_text (s : str) (sp : span) : str := slice s (fst sp) (snd sp).

(* ---- pattern.sub(function, string) ------------------------------------------------
   CPython's sub scans like finditer (same empty-match rule): the pieces between the
   matches are copied, each match is replaced by f(match), the tail is copied. *)
Fixpoint sub_pieces (f : mres -> result str) (s : str) (last : nat) (ms : list mres)
  : result str :=
  match ms with
  | [] => Ok (skipn last s)
  | x :: rest =>
      match f x with
      | Raise t => Raise t
      | Ok r =>
          match sub_pieces f s (m_end x) rest with
          | Raise t => Raise t
          | Ok tl => Ok (slice s last (m_start x) ++ r ++ tl)
          end
      end
  end.

Definition rsub_with (r : rx) (f : mres -> result str) (s : str) : result str :=
  match rfinditer r s with
  | None => Raise OutOfFuel
  | Some ms => sub_pieces f s 0 ms
  end.

(* m.group(n) as text; None = the group did not take part *)
Definition group_text (s : str) (n : nat) (x : mres) : option str :=
  match group n x with Some sp => Some (span_text s sp) | None => None end.

Fixpoint lookup (c : N) (t : list (N * N)) : option N :=
  match t with
  | [] => None
  | (k, v) :: t' => if N.eqb c k then Some v else lookup c t'
  end.

(* ---- properties ---------------------------------------------------------------------
   def unescape(m):
       found = m.groupdict()
       if found["uni"]:   return chr(int(found["uni"][1:], 16))
       if found["nl"]:    return ""
       return self.known_escapes.get(found["single"], found["single"])            *)
Definition hex_digit (c : N) : option N :=
  if (N.leb 48 c && N.leb c 57)%bool then Some (c - 48)%N
  else if (N.leb 97 c && N.leb c 102)%bool then Some (c - 87)%N
  else if (N.leb 65 c && N.leb c 70)%bool then Some (c - 55)%N
  else None.

(* int(text, base) for digit strings; anything else is a ValueError (the escape
   expression only hands over hexadecimal digits) *)
Fixpoint int_digits (base acc : N) (l : str) : result N :=
  match l with
  | [] => Ok acc
  | c :: l' =>
      match hex_digit c with
      | Some d => if N.ltb d base then int_digits base (acc * base + d)%N l' else Raise ValueError
      | None => Raise ValueError
      end
  end.
Definition py_int (base : N) (l : str) : result N :=
  match l with [] => Raise ValueError | _ => int_digits base 0%N l end.

Definition py_chr (n : N) : result str :=
  if N.ltb n 1114112 then Ok [n] else Raise ValueError.

Definition props_unescape (s : str) (x : mres) : result str :=
  match group_text s g_c02_props_escape_uni x with
  | Some (c :: u) =>
      match py_int uni_base (skipn uni_skip (c :: u)) with
      | Ok n => py_chr n
      | Raise t => Raise t
      end
  | _ =>
      match group_text s g_c02_props_escape_nl x with
      | Some (_ :: _) => Ok []
      | _ =>
          match group_text s g_c02_props_escape_single x with
          | Some [c] => Ok [match lookup c known_escapes with Some v => v | None => c end]
          | Some other => Ok other        (* not a key of the table: returned as is *)
          | None => Raise TypeError       (* sub(): the function returned None *)
          end
      end
  end.

(* PropertiesEntityMixin.val *)
Definition props_val (raw : str) : result str :=
  rsub_with rx_c02_props_escape (props_unescape raw) raw.

(* ---- PO -----------------------------------------------------------------------------
   po_escape.sub(lambda m: po_escapes[m.group(1)], line) *)
Definition po_unescape (line : str) (x : mres) : result str :=
  match group_text line 1 x with
  | Some [c] => match lookup c po_escapes with Some v => Ok [v] | None => Raise KeyError end
  | _ => Raise KeyError
  end.

Definition po_line (line : str) : result str :=
  rsub_with rx_c02_po_escape (po_unescape line) line.

Fixpoint eval_stringlist (lines : list str) : result str :=
  match lines with
  | [] => Ok []
  | l :: rest =>
      match po_line l with
      | Raise t => Raise t
      | Ok a => match eval_stringlist rest with
                | Raise t => Raise t
                | Ok b => Ok (a ++ b)
                end
      end
  end.

(* the strings of a PO entity: createEntity is a function of the text and the
   start of the key match, so they are recomputed from the entity's start *)
Definition po_strings_at (s : str) (start : nat) : option po_strings :=
  match create_po_full rx_po_ws rx_po_listitem s (mkres start start []) None None with
  | Some (_, ps) => Some ps
  | None => None
  end.

Definition frag_texts (s : str) (fr : list span) : list str := map (span_text s) fr.

Record po_value := mkpov { pv_msgid : str; pv_msgctxt : option str; pv_msgstr : str }.

Definition po_value_at (s : str) (start : nat) : result po_value :=
  match po_strings_at s start with
  | None => Raise BadEntity
  | Some ps =>
      match eval_stringlist (frag_texts s (po_id ps)) with
      | Raise t => Raise t
      | Ok msgid =>
          match eval_stringlist (frag_texts s (po_str ps)) with
          | Raise t => Raise t
          | Ok msgstr =>
              match po_ctxt ps with
              | None => Ok (mkpov msgid None msgstr)
              | Some fr =>
                  match eval_stringlist (frag_texts s fr) with
                  | Raise t => Raise t
                  | Ok c => Ok (mkpov msgid (Some c) msgstr)
                  end
              end
          end
      end
  end.

(* PoEntityMixin.val: stringlist_val if stringlist_val else stringlist_key[0] *)
Definition po_val (v : po_value) : str :=
  match pv_msgstr v with [] => pv_msgid v | x => x end.

(* ---- comments -------------------------------------------------------------------------
   Comment.val (all), OffsetComment.val (per-line prefix strip), DTD Comment.val (all[4:-3]);
   Model/Parse.v comment_val has the three shapes, the numbers are the generated ones *)
Definition cstyle_props : comment_style := COffset comment_offset.
Definition cstyle_ini : comment_style := COffset comment_offset.
Definition cstyle_inc : comment_style := COffset comment_offset_inc.
Definition dtd_comment_val (all : str) : str :=
  slice all dtd_comment_lo (length all - dtd_comment_hi).

Inductive vfmt := VProps | VDtd | VIni | VInc | VPo.

Definition comment_val_of (f : vfmt) (all : str) : str :=
  match f with
  | VProps => comment_val cstyle_props all
  | VIni => comment_val cstyle_ini all
  | VInc => comment_val cstyle_inc all
  | VDtd => dtd_comment_val all
  | VPo => comment_val CPlain all
  end.

(* ---- one view per entry ---------------------------------------------------------------- *)
Inductive vkey :=
| KNone                               (* Comment.key is None; Junk keys carry a counter *)
| KStr (k : str)
| KPo (msgid : str) (msgctxt : option str).

Record view := mkview {
  v_kind : kind;
  v_all : str;
  v_key : vkey;
  v_raw : option str;                 (* raw_val *)
  v_val : result (option str);        (* val *)
  v_pre : option str                  (* pre_comment.val *)
}.

Definition walk_of (f : vfmt) (s : str) : result (list entry) :=
  match f with
  | VProps => walk_properties s
  | VDtd => walk_dtd s
  | VIni => walk_ini s
  | VInc => walk_defines s
  | VPo => walk_po s
  end.

Section Views.
(* DTDEntityMixin.val = html_unescape(raw_val): CPython's html.unescape, an oracle *)
Variable html_unescape : str -> str.

Definition opt_text (s : str) (o : option span) : option str :=
  match o with Some sp => Some (span_text s sp) | None => None end.

(* an unmatched group has span (-1,-1): contents[-1:-1] = "" *)
Definition text_or_empty (s : str) (o : option span) : str :=
  match o with Some sp => span_text s sp | None => [] end.

Definition entity_view (f : vfmt) (s : str) (e : entry) : view :=
  let all := all_text s e in
  let pre := match e_pre e with
             | Some sp => Some (comment_val_of f (span_text s sp))
             | None => None
             end in
  let raw := text_or_empty s (e_val e) in
  let key := text_or_empty s (e_key e) in
  match f with
  | VProps =>
      mkview KEntity all (KStr key) (Some raw)
             (match props_val raw with Ok v => Ok (Some v) | Raise t => Raise t end) pre
  | VDtd => mkview KEntity all (KStr key) (Some raw) (Ok (Some (html_unescape raw))) pre
  | VIni | VInc => mkview KEntity all (KStr key) (Some raw) (Ok (Some raw)) pre
  | VPo =>
      match po_value_at s (fst (e_span e)) with
      | Ok pv => mkview KEntity all (KPo (pv_msgid pv) (pv_msgctxt pv)) (Some raw)
                        (Ok (Some (po_val pv))) pre
      | Raise t => mkview KEntity all KNone (Some raw) (Raise t) pre
      end
  end.

Definition entry_view (f : vfmt) (s : str) (e : entry) : view :=
  let all := all_text s e in
  match e_kind e with
  | KEntity => entity_view f s e
  | KComment => mkview KComment all KNone None (Ok (Some (comment_val_of f all))) None
  | KJunk => mkview KJunk all KNone (Some all) (Ok (Some all)) None
  | KWhitespace | KSection | KInstruction =>
      let t := text_or_empty s (e_val e) in
      mkview (e_kind e) all (KStr (text_or_empty s (e_key e))) (Some t) (Ok (Some t)) None
  end.

Definition views (f : vfmt) (s : str) : result (list view) :=
  match walk_of f s with
  | Ok es => Ok (map (entry_view f s) es)
  | Raise t => Raise t
  end.
End Views.

(* ---- Fluent ----------------------------------------------------------------------------
   FluentEntity: key/raw_val are slices, val = raw_val (None without a value);
   FluentComment.val = entry.content of the library's comment node (oracle) *)
Fixpoint fluent_comment_content (body : list fentry) (sp : span) : str :=
  match body with
  | [] => []
  | b :: rest =>
      match f_kind b with
      | FComment =>
          if (Nat.eqb (fst (f_span b)) (fst sp) && Nat.eqb (snd (f_span b)) (snd sp))%bool
          then f_content b else fluent_comment_content rest sp
      | _ => fluent_comment_content rest sp
      end
  end.

Definition fluent_view (s : str) (body : list fentry) (e : entry) : view :=
  let all := all_text s e in
  match e_kind e with
  | KEntity =>
      let raw := opt_text s (e_val e) in
      mkview KEntity all (KStr (text_or_empty s (e_key e))) raw (Ok raw) None
  | KComment =>
      mkview KComment all KNone None (Ok (Some (fluent_comment_content body (e_span e)))) None
  | KJunk => mkview KJunk all KNone (Some all) (Ok (Some all)) None
  | _ =>
      let t := text_or_empty s (e_val e) in
      mkview (e_kind e) all (KStr (text_or_empty s (e_key e))) (Some t) (Ok (Some t)) None
  end.

Definition fluent_views (s : str) (body : list fentry) : list view :=
  map (fluent_view s body) (walk_fluent_gen false s body).

(* ---- Android ---------------------------------------------------------------------------
   AndroidParser.walk over the child list of <resources> as minidom built it (oracle). *)
Inductive ntype := NText | NCdata | NComment | NElement | NOther.

Record anode := mknode {
  n_type : ntype;
  n_xml : str;                         (* node.toxml() *)
  n_value : str;                       (* node.nodeValue (text, CDATA, comment) *)
  n_name : str;                        (* element.nodeName *)
  n_attr : option str;                 (* getAttribute("name") when hasAttribute("name") *)
  n_children : list (ntype * str)      (* element children: type, data *)
}.

(* val.strip(" \t") *)
Definition in_set (c : N) (set : str) : bool := existsb (N.eqb c) set.
Fixpoint lstrip (set : str) (s : str) : str :=
  match s with
  | c :: s' => if in_set c set then lstrip set s' else s
  | [] => []
  end.
Definition strip (set : str) (s : str) : str := rev (lstrip set (rev (lstrip set s))).

(* normalize(val) = NEWLINE.sub("\n", val.strip(" \t")) *)
Definition normalize (v : str) : result str :=
  rsub_with rx_c02_android_newline (fun _ => Ok android_newline_repl) (strip android_strip v).

(* textContent(node) *)
Definition s_string : str := of_ascii [115; 116; 114; 105; 110; 103].
Fixpoint first_cdata (ch : list (ntype * str)) : option str :=
  match ch with
  | [] => None
  | (NCdata, d) :: _ => Some d
  | _ :: rest => first_cdata rest
  end.
Definition text_content (n : anode) : str :=
  match n_children n with
  | [] => []
  | ch =>
      match first_cdata ch with
      | Some d => d
      | None => match ch with
                | [(NText, d)] => d
                | _ => n_xml n
                end
      end
  end.

(* handleComment: joins consecutive comments across single-newline text nodes;
   returns (all, val) and the children not consumed *)
Fixpoint handle_comment (all val : str) (rest : list anode) : result (str * str * list anode) :=
  match rest with
  | [] => Ok (all, val, [])
  | n :: rest' =>
      match n_type n with
      | NText =>
          if 1 <? count_char 10%N (n_value n) then Ok (all, val, rest)
          else
            match rest' with
            | [] => Ok (all, val, [])                 (* the trailing text node is consumed *)
            | n2 :: rest'' =>
                match n_type n2 with
                | NComment =>
                    match normalize (n_value n), normalize (n_value n2) with
                    | Ok w, Ok c =>
                        handle_comment (all ++ n_xml n ++ n_xml n2) (val ++ w ++ c) rest''
                    | Raise t, _ | _, Raise t => Raise t
                    end
                | _ => Ok (all, val, rest)              (* do not consume the text node *)
                end
            end
      | NComment =>
          match normalize (n_value n) with
          | Ok c => handle_comment (all ++ n_xml n) (val ++ c) rest'
          | Raise t => Raise t
          end
      | _ => Ok (all, val, rest)
      end
  end.

(* XMLComment(NodeMixin, Comment): raw_val is NodeMixin's, the normalized value *)
Definition a_comment (all val : str) : view :=
  mkview KComment all KNone (Some val) (Ok (Some val)) None.
Definition a_white (n : anode) : view :=
  mkview KWhitespace (n_xml n) (KStr (n_xml n)) (Some (n_value n)) (Ok (Some (n_value n))) None.

(* handleElement *)
Definition a_element (n : anode) (c : option (str * str)) (w : option anode) : view :=
  match n_attr n with
  | Some name =>
      if str_eqb (n_name n) s_string then
        let all := (match c with Some (a, _) => a | None => [] end) ++
                   (match w with Some x => n_xml x | None => [] end) ++ n_xml n in
        let tc := text_content n in
        mkview KEntity all (KStr name) (Some tc) (Ok (Some tc))
               (match c with Some (_, v) => Some v | None => None end)
      else mkview KJunk (n_xml n) KNone (Some (n_xml n)) (Ok (Some (n_xml n))) None
  | None => mkview KJunk (n_xml n) KNone (Some (n_xml n)) (Ok (Some (n_xml n))) None
  end.

Definition opt_comment (c : option (str * str)) : list view :=
  match c with Some (a, v) => [a_comment a v] | None => [] end.

(* the while loop of walk (only_localizable = False), without the DocumentWrapper entries *)
Fixpoint android_loop (fuel : nat) (ch : list anode) : result (list view) :=
  match fuel with
  | O => Raise OutOfFuel
  | S fu =>
      match ch with
      | [] => Ok []
      | node :: after =>
          (* comment first *)
          let start :=
            match n_type node with
            | NComment =>
                match normalize (n_value node) with
                | Ok v0 =>
                    match handle_comment (n_xml node) v0 after with
                    | Ok (a, v, rest) => Ok (Some (a, v), rest)
                    | Raise t => Raise t
                    end
                | Raise t => Raise t
                end
            | _ => Ok (None, ch)
            end in
          match start with
          | Raise t => Raise t
          | Ok (c, []) => Ok (opt_comment c)
          | Ok (c, node :: after) =>
              let continue (out : list view) (rest : list anode) :=
                match android_loop fu rest with
                | Ok vs => Ok (out ++ vs)
                | Raise t => Raise t
                end in
              let element_or_other (node : anode) (w : option anode) (rest : list anode) :=
                match n_type node with
                | NElement => continue [a_element node c w] rest
                | _ => continue (opt_comment c ++ match w with Some x => [a_white x] | None => [] end)
                                rest
                end in
              match n_type node with
              | NText | NCdata =>
                  match c with
                  | None => continue [a_white node] after
                  | Some _ =>
                      if 1 <? count_char 10%N (n_value node)
                      then continue (opt_comment c ++ [a_white node]) after
                      else match after with
                           | [] => Ok (opt_comment c ++ [a_white node])
                           | node2 :: after2 => element_or_other node2 (Some node) after2
                           end
                  end
              | _ => element_or_other node None after
              end
          end
      end
  end.

Definition android_views (ch : list anode) : result (list view) :=
  android_loop (S (length ch)) ch.

(* ---- wire format ------------------------------------------------------------------------ *)
Definition vkey_sx (k : vkey) : sx :=
  match k with
  | KNone => L []
  | KStr s => L [of_str s]
  | KPo a c => L [of_str a; of_option of_str c]
  end.

Definition view_sx (v : view) : sx :=
  L [A (kind_code (v_kind v)); of_str (v_all v); vkey_sx (v_key v); of_option of_str (v_raw v);
     of_result (of_option of_str) (v_val v); of_option of_str (v_pre v)].
