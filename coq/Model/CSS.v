(* Model of checks/base.py CSSCheckMixin (parse_css_spec, check_style,
   maybe_style) and the issue vocabulary shared with Model/CheckDTD.v.
   Definitions only.

   The two regular expressions (created lazily by parse_css_spec), every
   message template, severity and category come from Generated/RxC07.v and
   Generated/C07Facts.v, which are rewritten from the source on every run.
   A dict is an insertion-ordered association list with distinct keys. *)
From Coq Require Import NArith ZArith List Bool Arith.
From CL Require Import Base.Sx Base.Res Base.Str Regex.Rx Generated.RxC07 Generated.C07Facts.
Import ListNotations.

(* ---- issues ------------------------------------------------------------- *)
Inductive position :=
| PInt (n : Z)                    (* a plain int *)
| PTuple (l c : Z)                (* (line, column) *)
| PEnt (n : nat).                 (* EntityPos(n) *)

Record issue := mkissue {
  i_error : bool;                 (* error / warning *)
  i_pos : position;
  i_msg : str;
  i_cat : str
}.

Definition lit_issue (y : ylit) (p : position) : issue :=
  mkissue (fst (fst y)) p (snd (fst y)) (snd y).

(* %-format / str.format / f-string with positional pieces *)
Definition render (t : tpl) (args : list str) : str :=
  concat (map (fun p => match p with inl s => s | inr i => nth i args [] end) t).

Definition tpl_issue (y : bool * tpl * str) (p : position) (args : list str) : issue :=
  mkissue (fst (fst y)) p (render (snd (fst y)) args) (snd y).

Definition var_issue (y : bool * str) (p : position) (msg : str) : issue :=
  mkissue (fst y) p msg (snd y).

(* sep.join(l) *)
Fixpoint join (sep : str) (l : list str) : str :=
  match l with
  | [] => []
  | [x] => x
  | x :: l' => x ++ sep ++ join sep l'
  end.

(* ---- regex helpers -------------------------------------------------------- *)
Definition finditer (r : rx) (s : str) : result (list mres) :=
  match rfinditer r s with
  | Some l => Ok l
  | None => Raise OutOfFuel        (* excluded by RxLemmas.rfinditer_no_fuel *)
  end.

(* pattern.match(s, pos, endpos): the subject is truncated at endpos *)
Definition omatch_end (r : rx) (s : str) (off e : nat) : option mres :=
  match rmatch r (firstn e s) off with MSome x => Some x | _ => None end.

Definition omatch0 (r : rx) (s : str) : option mres :=
  match rmatch r s 0 with MSome x => Some x | _ => None end.

Definition is_match (r : rx) (s : str) : bool :=
  match omatch0 r s with Some _ => true | None => false end.

Definition group_str (s : str) (x : mres) (n : nat) : option str :=
  match group n x with
  | Some (a, b) => Some (slice s a b)
  | None => None
  end.

(* ---- dicts -------------------------------------------------------------------- *)
Definition cmap := list (str * str).

Fixpoint cget (k : str) (m : cmap) : option str :=
  match m with
  | [] => None
  | (k', v) :: m' => if str_eqb k k' then Some v else cget k m'
  end.

(* d[k] = v : an existing key keeps its place *)
Fixpoint cset (k v : str) (m : cmap) : cmap :=
  match m with
  | [] => [(k, v)]
  | (k', v') :: m' => if str_eqb k k' then (k', v) :: m' else (k', v') :: cset k v m'
  end.

(* d.pop(k) *)
Fixpoint cdel (k : str) (m : cmap) : cmap :=
  match m with
  | [] => []
  | (k', v') :: m' => if str_eqb k k' then m' else (k', v') :: cdel k m'
  end.

(* ---- parse_css_spec ------------------------------------------------------------
   refMap = errors = None
   end = 0
   for m in self._css_spec.finditer(val):
       if end == 0 and m.start() == m.end():
           return None, None
       if m.start() > end:
           split = self._css_sep.match(val, end, m.start())
           if split is None:
               errors = errors or []; errors.append({pos: end, code: css-bad-content})
           elif end > 0 and split.group("semi") is None:
               errors = errors or []; errors.append({pos: end, code: css-missing-semicolon})
       if m.group("prop"):
           refMap = refMap or {}
           refMap[m.group("prop")] = m.group("unit")
       end = m.end()
   return refMap, errors                                                          *)
Inductive css_code := CssBadContent | CssMissingSemicolon.

Definition css_error := (nat * css_code)%type.          (* pos, code *)

Definition css_result := (option cmap * option (list css_error))%type.

Definition add_error (errors : option (list css_error)) (e : css_error) : option (list css_error) :=
  match errors with
  | Some (x :: l) => Some ((x :: l) ++ [e])
  | _ => Some [e]                 (* errors or [] : None and [] are both falsy *)
  end.

Definition is_none {T} (o : option T) : bool := match o with None => true | Some _ => false end.

Fixpoint css_loop (val : str) (ms : list mres) (refMap : option cmap)
         (errors : option (list css_error)) (end_ : nat) : result css_result :=
  match ms with
  | [] => Ok (refMap, errors)
  | m :: ms' =>
      if Nat.eqb end_ 0 && Nat.eqb (m_start m) (m_end m) then Ok (None, None)
      else
        let errors1 :=
          if end_ <? m_start m then
            match omatch_end rx_c07_css_sep val end_ (m_start m) with
            | None => add_error errors (end_, CssBadContent)
            | Some split =>
                if (0 <? end_) && is_none (group g_c07_css_sep_semi split)
                then add_error errors (end_, CssMissingSemicolon)
                else errors
            end
          else errors in
        do refMap1 <-
          match group_str val m g_c07_css_spec_prop with
          | Some (c :: p) =>           (* a non-empty string is truthy *)
              match group_str val m g_c07_css_spec_unit with
              | Some u =>
                  Ok (Some (cset (c :: p) u (match refMap with Some r => r | None => [] end)))
              | None => Raise AssertionError   (* prop and unit are in the same branch of the expression *)
              end
          | _ => Ok refMap
          end;
        css_loop val ms' refMap1 errors1 (m_end m)
  end.

Definition parse_css_spec (val : str) : result css_result :=
  do ms <- finditer rx_c07_css_spec val;
  css_loop val ms None None 0.

(* ---- check_style ------------------------------------------------------------------
   if not l10n_map: yield error; return
   if errors: yield error; return
   msgs = []
   for prop, unit in l10n_map.items():
       if prop not in ref_map: msgs.insert(0, "%s only in l10n" % prop); continue
       else:
           ref_unit = ref_map.pop(prop)
           if unit != ref_unit: msgs.append("units for %s don't match (%s != %s)" % (prop, unit, ref_unit))
   for prop in ref_map.keys(): msgs.insert(0, "%s only in reference" % prop)
   if msgs: yield ("warning", 0, ", ".join(msgs), "css")                             *)
Fixpoint style_loop (items : cmap) (ref_map : cmap) (msgs : list str) : cmap * list str :=
  match items with
  | [] => (ref_map, msgs)
  | (prop, unit) :: rest =>
      match cget prop ref_map with
      | None => style_loop rest ref_map (render t_only_l10n [prop] :: msgs)
      | Some ref_unit =>
          style_loop rest (cdel prop ref_map)
                     (if str_eqb unit ref_unit then msgs
                      else msgs ++ [render t_units [prop; unit; ref_unit]])
      end
  end.

Definition style_msgs (ref_map l10n_map : cmap) : list str :=
  let '(rest, msgs) := style_loop l10n_map ref_map [] in
  fold_left (fun ms prop => render t_only_ref [prop] :: ms) (map fst rest) msgs.

Definition nonempty {T} (o : option (list T)) : bool :=
  match o with Some (_ :: _) => true | _ => false end.

Definition check_style (ref_map : cmap) (l10n_map : option cmap)
           (errors : option (list css_error)) : list issue :=
  match l10n_map with
  | Some (x :: l) =>
      if nonempty errors then [lit_issue y_css_spec (PInt 0)]
      else
        match style_msgs ref_map (x :: l) with
        | [] => []
        | msgs => [var_issue y_css_warn (PInt 0) (join s_join msgs)]
        end
  | _ => [lit_issue y_css_spec (PInt 0)]
  end.

(* ---- maybe_style --------------------------------------------------------------------
   ref_map, _ = self.parse_css_spec(ref_value)
   if not ref_map: return
   l10n_map, errors = self.parse_css_spec(l10n_value)
   yield from self.check_style(ref_map, l10n_map, errors)                              *)
Definition maybe_style (ref_value l10n_value : str) : result (list issue) :=
  do r <- parse_css_spec ref_value;
  match fst r with
  | Some (x :: l) =>
      do r' <- parse_css_spec l10n_value;
      Ok (check_style (x :: l) (fst r') (snd r'))
  | _ => Ok []
  end.

(* ---- wire format ---------------------------------------------------------------------- *)
Definition position_sx (p : position) : sx :=
  match p with
  | PInt n => L [A 0; A n]
  | PEnt n => L [A 1; of_nat n]
  | PTuple l c => L [A 2; A l; A c]
  end.

Definition issue_sx (i : issue) : sx :=
  L [of_bool (i_error i); position_sx (i_pos i); of_str (i_msg i); of_str (i_cat i)].

Definition cmap_sx (m : cmap) : sx := of_list (of_pair of_str of_str) m.
Definition cmap_of_sx (x : sx) : cmap := to_list (to_pair to_str to_str) x.

Definition css_code_sx (c : css_code) : sx :=
  match c with CssBadContent => A 0 | CssMissingSemicolon => A 1 end.

Definition css_result_sx (r : css_result) : sx :=
  L [of_option cmap_sx (fst r);
     of_option (of_list (of_pair of_nat css_code_sx)) (snd r)].
