(* Model of compare_locales/parser/base.py Entry.count_words:

     value = self.re_br.sub("\n", self.val)
     value = self.re_sgml.sub("", value)
     return len(value.split())

   on the regex engine, with re_br / re_sgml regenerated from the source
   (Generated/RxC03.v: rx_count_br, rx_count_sgml) and str.split()'s white space
   = the generated table of the characters \s matches (Py_UNICODE_ISSPACE in
   both cases).  Definitions only. *)
From Coq Require Import NArith List Bool Arith.
From CL Require Import Base.Sx Base.Res Base.Str Regex.Rx Generated.Tables Generated.RxC03.
Import ListNotations.
Local Open Scope nat_scope.

(* pattern.sub(repl, s) for a replacement without escapes and a pattern that
   cannot match the empty string: the spans of finditer are replaced by repl *)
Fixpoint sub_spans (repl s : str) (pos : nat) (ms : list mres) : str :=
  match ms with
  | [] => skipn pos s
  | x :: ms' => slice s pos (m_start x) ++ repl ++ sub_spans repl s (m_end x) ms'
  end.

Definition re_sub (r : rx) (repl s : str) : result str :=
  match rfinditer r s with
  | Some ms => Ok (sub_spans repl s 0 ms)
  | None => Raise OutOfFuel          (* excluded: RxLemmas.rfinditer_no_fuel *)
  end.

Definition py_isspace (c : N) : bool := in_ranges c space_ranges.

(* len(s.split()): the number of maximal runs of non-space characters *)
Fixpoint split_count (s : str) (in_word : bool) : nat :=
  match s with
  | [] => 0
  | c :: s' =>
      if py_isspace c then split_count s' false
      else (if in_word then 0 else 1) + split_count s' true
  end.

Definition count_words (val : str) : result nat :=
  do value <- re_sub rx_count_br [10%N] val;
  do value <- re_sub rx_count_sgml [] value;
  Ok (split_count value false).
