(* Lint of a .properties / .ini / .dtd file from its TEXT: Model/LintText.v instantiated
   with the parser model, the entity class's value_position and .val. *)
From Coq Require Import ZArith NArith List Bool.
From CL Require Import Base.Sx Base.Res Base.Str Model.Entry Model.Parse Model.ParseFormats
                       Model.Unescape Model.Lint.
From CL Require Export Model.LintText.
Import ListNotations.

(* .properties: PropertiesEntity (Entry.value_position; .val unescapes) *)
Definition props_entities := fmt_entities entry_value_position.
Definition props_equals := fmt_equals props_val.
Definition lint_properties {Msg : Type} := @lint_text entry_value_position props_val walk_properties Msg.

(* .ini: plain Entity (.val is raw_val); IniSection entries are no entities *)
Definition ini_equals := fmt_equals (fun raw => Ok raw).
Definition lint_ini {Msg : Type} := @lint_text entry_value_position (fun raw => Ok raw) walk_ini Msg.

(* .dtd: DTDEntity (DTDEntityMixin.value_position; .val is html.unescape(raw_val), a
   library function: parameter) *)
Definition lint_dtd {Msg : Type} (html_unescape : str -> str) :=
  @lint_text dtd_value_position (fun raw => Ok (html_unescape raw)) walk_dtd Msg.
