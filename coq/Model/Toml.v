(* Model of compare_locales/paths/configparser.py TOMLParser.parse over the
   already parsed TOML value.  Oracles (Section variables):
     load path            toml.load of the file, None when it cannot be read or
                          decoded (ConfigNotFound)
     set_root path base   ProjectConfig.set_root:
                          abspath(join(dirname(path), basepath))
     resolve root p env   normpath(expand(root, p, env))  (paths/matcher.py expand)
   Filters ([[filters]]) belong to C14 and are not represented.  The data is
   assumed well shaped (every path rule has `l10n`, every include a `path`).
   An include cycle is Python's RecursionError: here OutOfFuel. *)
From Coq Require Import ZArith NArith List Bool Arith.
From CL Require Import Base.Sx Base.Str.
Import ListNotations.

Definition env_t := list (str * str).

(* a Python dict as association list: assignment to an existing key keeps its
   position *)
Fixpoint dset (k v : str) (d : env_t) : env_t :=
  match d with
  | [] => [(k, v)]
  | (k', v') :: d' => if str_eqb k k' then (k', v) :: d' else (k', v') :: dset k v d'
  end.
Fixpoint dget (k : str) (d : env_t) : option str :=
  match d with
  | [] => None
  | (k', v') :: d' => if str_eqb k k' then Some v' else dget k d'
  end.
(* d.update of the keyword arguments e *)
Definition dupdate (d e : env_t) : env_t := fold_left (fun d kv => dset (fst kv) (snd kv) d) e d.

(* the value the keyword arguments e give to k: the last binding *)
Fixpoint dlast (k : str) (e : env_t) : option str :=
  match e with
  | [] => None
  | (k', v') :: e' =>
      match dlast k e' with
      | Some v => Some v
      | None => if str_eqb k k' then Some v' else None
      end
  end.

Record path_data := mkpath_data {
  pd_l10n : str;
  pd_ref : option str;
  pd_test : option (list str);
  pd_locales : option (list str)
}.

Record toml_data := mktoml_data {
  td_basepath : option str;
  td_env : env_t;
  td_paths : list path_data;
  td_includes : option (list str);      (* child_config["path"] of each [[includes]] *)
  td_excludes : option (list str);
  td_locales : option (list str)
}.

(* ProjectConfig.add_paths: Matcher(d["l10n"], env=self.environ, root=self.root) *)
Record trule := mktrule {
  tr_l10n : str;
  tr_ref : option str;
  tr_env : env_t;
  tr_root : str;
  tr_test : option (list str);
  tr_locales : option (list str)
}.

Inductive tconfig :=
| TConfig (path root : str) (env : env_t) (rules : list trule)
          (locales : option (list str)) (children excludes : list tconfig).

Definition t_path c := match c with TConfig p _ _ _ _ _ _ => p end.
Definition t_env c := match c with TConfig _ _ e _ _ _ _ => e end.
Definition t_rules c := match c with TConfig _ _ _ r _ _ _ => r end.
Definition t_children c := match c with TConfig _ _ _ _ _ ch _ => ch end.
Definition t_excludes c := match c with TConfig _ _ _ _ _ _ ex => ex end.

Inductive terr := TConfigNotFound | TExcludeError | TOutOfFuel.
Inductive tres (T : Type) := TOk (v : T) | TRaise (e : terr).
Arguments TOk {T} v.
Arguments TRaise {T} e.

Definition terr_code (e : terr) : Z :=
  match e with TConfigNotFound => 20 | TExcludeError => 5 | TOutOfFuel => 9 end%Z.

Definition is_nil {T} (l : list T) : bool := match l with [] => true | _ => false end.

(* any(config.excludes for config in child.configs) *)
Fixpoint deep_excludes (c : tconfig) : bool :=
  match c with
  | TConfig _ _ _ _ _ ch ex => negb (is_nil ex) || existsb deep_excludes ch
  end.

Section Toml.
Variable load : str -> option toml_data.
Variable set_root : str -> str -> str.
Variable resolve : str -> str -> env_t -> str.

Definition mk_trule (environ : env_t) (root : str) (d : path_data) : trule :=
  mktrule (pd_l10n d) (pd_ref d) environ root (pd_test d) (pd_locales d).

(* `for child in self._processChild(ctx, field): <accept>(child)`:
   [bad child] is the test that makes add_child / exclude raise ExcludeError *)
Fixpoint process_children (parse_child : str -> tres tconfig) (ignore_missing : bool)
                          (bad : tconfig -> bool) (ps : list str) : tres (list tconfig) :=
  match ps with
  | [] => TOk []
  | p :: ps' =>
      match parse_child p with
      | TRaise TConfigNotFound =>
          if ignore_missing then process_children parse_child ignore_missing bad ps'
          else TRaise TConfigNotFound
      | TRaise e => TRaise e
      | TOk child =>
          if bad child then TRaise TExcludeError
          else match process_children parse_child ignore_missing bad ps' with
               | TOk cs => TOk (child :: cs)
               | TRaise e => TRaise e
               end
      end
  end.

Definition ostrs (o : option (list str)) : list str :=
  match o with Some l => l | None => [] end.

Fixpoint parse (fuel : nat) (path : str) (env : env_t) (ignore_missing : bool)
  : tres tconfig :=
  match fuel with
  | O => TRaise TOutOfFuel
  | S fuel' =>
      match load path with
      | None => TRaise TConfigNotFound
      | Some data =>
          (* processBasePath *)
          let root := set_root path (match td_basepath data with Some b => b | None => [46%N] end) in
          (* processEnv: the file's variables, then the parser's *)
          let environ := dupdate (dupdate [] (td_env data)) env in
          (* processPaths *)
          let rules := map (mk_trule environ root) (td_paths data) in
          let child p := parse fuel' (resolve root p environ) env ignore_missing in
          (* processIncludes: add_child raises if the child has excludes *)
          match process_children child ignore_missing
                                 (fun c => negb (is_nil (t_excludes c)))
                                 (ostrs (td_includes data)) with
          | TRaise e => TRaise e
          | TOk children =>
              (* processExcludes: exclude raises if any config below has excludes *)
              match process_children child ignore_missing deep_excludes
                                     (ostrs (td_excludes data)) with
              | TRaise e => TRaise e
              | TOk excludes =>
                  (* processLocales *)
                  TOk (TConfig path root environ rules (td_locales data) children excludes)
              end
          end
      end
  end.

End Toml.
