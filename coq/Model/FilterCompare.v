(* C14, in-file clause: the "missing entity" branch of
   compare/content.py ContentComparer.compare with the observers of
   compare/observer.py (ObserverList.notify -> Observer.notify, updateStats),
   kept local to C14: only what the filter verdicts flow through.

   for action, entity_id in ar:
       if action == "delete":                  # key in reference, not in l10n, not Junk
           _rv = self.observers.notify("missingEntity", l10n, entity_id)
           if _rv == "ignore": continue
           if _rv == "error": missings.append(entity_id); missing += 1; ...
           else: report += 1
   ... self.merge(..., missings, ...) ... self.observers.updateStats(l10n, stats)

   [shown] stands for `self.quiet < 2` of Observer.notify (the threshold is
   modelled with its number for C10).  Word counts are left out. *)
From Coq Require Import NArith List Bool Arith.
From CL Require Import Base.Str Generated.FilterFacts.
Import ListNotations.

Definition is_ignore (a : action) : bool := action_beq a AIgnore.
Definition is_error (a : action) : bool := action_beq a AError.

(* one Observer: its filter (None = no filter), the keys of the
   {"missingEntity": key} details it recorded, its summary (missing, report) *)
Record observer := mkobs {
  o_filter : option (str -> action);
  o_details : list str;
  o_summary : nat * nat
}.

(* Observer.notify("missingEntity", file, key) *)
Definition observer_notify (shown : bool) (o : observer) (key : str) : action * observer :=
  let rv := match o_filter o with Some g => g key | None => AError end in
  if (match o_filter o with Some _ => true | None => false end) && is_ignore rv
  then (rv, o)
  else (rv, mkobs (o_filter o)
                  (if shown then o_details o ++ [key] else o_details o) (o_summary o)).

(* ObserverList.notify: rvs = {observer.notify(...)}; all ignore -> "ignore";
   otherwise its own Observer.notify (no filter), discard "ignore", "error" if
   present, else the one remaining value.  (With verdicts in {error, warning,
   ignore} the remaining set is {warning}, so `assert len(rvs) == 1` holds.) *)
Definition list_notify (shown : bool) (obs : list observer) (own : observer) (key : str)
  : action * list observer * observer :=
  let results := map (fun o => observer_notify shown o key) obs in
  let rvs := map fst results in
  let obs' := map snd results in
  if forallb is_ignore rvs then (AIgnore, obs', own)
  else
    let own' := snd (observer_notify shown own key) in
    (if existsb is_error rvs then AError else AWarning, obs', own').

Record cmp := mkcmp {
  c_missings : list str;       (* handed to merge: appended to the localized file *)
  c_missing : nat;
  c_report : nat;
  c_obs : list observer;
  c_own : observer
}.

(* the loop over the missing keys *)
Fixpoint compare_loop (shown : bool) (keys : list str) (st : cmp) : cmp :=
  match keys with
  | [] => st
  | k :: keys' =>
      let '(rv, obs', own') := list_notify shown (c_obs st) (c_own st) k in
      if is_ignore rv then
        compare_loop shown keys' (mkcmp (c_missings st) (c_missing st) (c_report st) obs' own')
      else if is_error rv then
        compare_loop shown keys'
                     (mkcmp (c_missings st ++ [k]) (S (c_missing st)) (c_report st) obs' own')
      else
        compare_loop shown keys'
                     (mkcmp (c_missings st) (c_missing st) (S (c_report st)) obs' own')
  end.

(* Observer.updateStats: the dummy entity '' asks whether the file is ours *)
Definition update_stats (o : observer) (missing report : nat) : observer :=
  match o_filter o with
  | Some g =>
      if is_ignore (g []) then o
      else mkobs (o_filter o) (o_details o)
                 (fst (o_summary o) + missing, snd (o_summary o) + report)
  | None => mkobs (o_filter o) (o_details o)
                  (fst (o_summary o) + missing, snd (o_summary o) + report)
  end.

Definition new_observer (g : option (str -> action)) : observer := mkobs g [] (0, 0).

(* compare() restricted to the missing keys, for observers with the given filters *)
Definition compare_missing (shown : bool) (filters : list (option (str -> action)))
           (keys : list str) : cmp :=
  let st := compare_loop shown keys
                         (mkcmp [] 0 0 (map new_observer filters) (new_observer None)) in
  mkcmp (c_missings st) (c_missing st) (c_report st)
        (map (fun o => update_stats o (c_missing st) (c_report st)) (c_obs st))
        (update_stats (c_own st) (c_missing st) (c_report st)).
