(* C14 end to end: the filter with rules that carry PATTERN TEXTS.

   Model/Filter.v takes "which pattern matches which file" as a parameter
   ([matches], in the harness a table computed by the real Matcher).  Here the
   parameter is replaced by the model of the Matcher itself (Model/Pattern.v,
   Model/Matcher.v: PatternParser, with_env, regex_pattern, match on the regex
   engine):

   * [filter_node_res] / [filter_res] : `_filter` / `filter` once more, cache
     free, over matchers whose binding (`with_env({"locale": locale})`, done
     for every path and rule when the FilterCache slot is filled) and matching
     (`match(fullpath)`, evaluated lazily: `any(...)` and the reversed scan
     stop at the first hit) may RAISE; the order of evaluation is the code's.
     Proofs/FilterE2EProofs.v shows that it returns Ok of the table-based
     [filter_pure] whenever the matchers of the project are defined on the
     query, with the table computed by [match_].
   * [tconfig] : a configuration whose l10n paths and rule paths are texts,
     with the environment and root its matchers are created with
     (`Matcher(text, env=self.environ, root=self.root)`).
   Definitions only. *)
From Coq Require Import NArith List Bool Arith.
From CL Require Import Base.Sx Base.Res Base.Str Regex.Rx Generated.FilterFacts
  Model.Pattern Model.Matcher Model.Filter.
Import ListNotations.

(* any(p(x) for x in l) where p may raise *)
Definition any_res {A} (p : A -> result bool) : list A -> result bool :=
  fix go (l : list A) : result bool :=
  match l with
  | [] => Ok false
  | x :: l' => do b <- p x; if b then Ok true else go l'
  end.

Section Res.
Variables (matcher bmatcher locale file : Type).
Variable loc_eqb : locale -> locale -> bool.
Variable rbind : matcher -> locale -> result bmatcher.       (* with_env({"locale": locale}) *)
Variable rmatch_b : bmatcher -> file -> result bool.         (* match(fullpath) is not None *)

Notation config := (config matcher locale).
Notation rule := (rule matcher).
Notation pathd := (pathd matcher locale).

(* cache(): every enabled l10n path, then every rule, is bound *)
Definition bind_paths (loc : locale) (paths : list pathd) : result (list bmatcher) :=
  mapM (fun p => rbind (p_l10n _ _ p) loc)
       (filter (fun p => loc_ok _ _ loc_eqb p loc) paths).

Definition bind_rules (loc : locale) (rules : list rule)
  : result (list (bmatcher * option rx * action)) :=
  mapM (fun r => do b <- rbind (r_path _ r) loc; Ok (b, r_key _ r, r_action _ r)) rules.

(* the reversed scan; the argument is the reversed list of bound rules *)
Fixpoint scan_res (rs : list (bmatcher * option rx * action)) (f : file) (ent : option str)
  : result action :=
  match rs with
  | [] => Ok act_default
  | (b, key, a) :: rs' =>
      do m <- rmatch_b b f;
      if negb m then scan_res rs' f ent
      else if xorb (match key with Some _ => true | None => false end)
                   (match ent with Some _ => true | None => false end)
      then scan_res rs' f ent
      else match key, ent with
           | Some k, Some e => if negb (key_match k e) then scan_res rs' f ent else Ok a
           | _, _ => Ok a
           end
  end.

Definition own_action_res (paths : list pathd) (rules : list rule)
           (loc : locale) (f : file) (ent : option str) : result (option action) :=
  do bps <- bind_paths loc paths;
  do brs <- bind_rules loc rules;
  do covered <- any_res (fun b => rmatch_b b f) bps;
  if covered then do a <- scan_res (rev brs) f ent; Ok (Some a)
  else Ok None.

Definition filter_wrap_res (node : config -> result (option action)) (c : config) (loc : locale)
  : result action :=
  if mem_loc _ loc_eqb loc (all_locales_pure _ _ c) then
    do v <- node c; Ok (match v with Some a => a | None => act_none end)
  else Ok act_uncovered.

Fixpoint filter_node_res (c : config) (loc : locale) (f : file) (ent : option str)
  : result (option action) :=
  match c with
  | mkconfig _ _ locs allc paths rules fc children excludes =>
      do hit <- any_res (fun e =>
                  do v <- filter_wrap_res (fun x => filter_node_res x loc f None) e loc;
                  Ok (action_beq v act_exclude_trigger)) excludes;
      if hit then Ok None
      else
        do actions <- mapM (fun ch => filter_node_res ch loc f ent) children;
        if mem_act (Some act_early) actions then Ok (Some act_early)
        else
          do own <- own_action_res paths rules loc f ent;
          Ok (merge_acts (match own with Some a => Some a :: actions | None => actions end))
  end.

Definition filter_res (c : config) (loc : locale) (f : file) (ent : option str) : result action :=
  filter_wrap_res (fun x => filter_node_res x loc f ent) c loc.

(* every matcher of a configuration and of what it includes and excludes *)
Fixpoint cfg_matchers (c : config) : list matcher :=
  match c with
  | mkconfig _ _ _ _ paths rules _ children excludes =>
      map (p_l10n _ _) paths ++ map (r_path _) rules ++
      flat_map cfg_matchers children ++ flat_map cfg_matchers excludes
  end.

End Res.

(* ---- the instance: matchers of Model/Matcher.v, locales and paths are strings ---- *)
Definition e2e_bind (M : matcher) (loc : str) : result matcher := with_env M [(s_locale, loc)].
Definition e2e_match (B : matcher) (path : str) : result bool :=
  do r <- match_ B path; Ok (match r with Some _ => true | None => false end).

(* the table: `M.with_env({"locale": loc}).match(path) is not None`; only
   meaningful where [e2e_defined] *)
Definition e2e_matches (M : matcher) (loc path : str) : bool :=
  match e2e_bind M loc with
  | Ok B => match match_ B path with Ok (Some _) => true | _ => false end
  | Raise _ => false
  end.

Definition e2e_defined (M : matcher) (loc path : str) : Prop :=
  exists B r, e2e_bind M loc = Ok B /\ match_ B path = Ok r.

Definition e2e_filter_cfg (c : config matcher str) (loc path : str) (ent : option str) : result action :=
  filter_res matcher matcher str str str_eqb e2e_bind e2e_match c loc path ent.

(* ---- configurations with pattern texts --------------------------------------------- *)
(* environ, root, locales, paths (l10n text, optional locales), rules (path texts),
   includes, excludes *)
Inductive tconfig :=
  mktc (kv : list (str * str)) (root : option str) (locs : option (list str))
       (paths : list (str * option (list str))) (rules : list (rawrule str))
       (children excludes : list tconfig).

Definition t_rawpath (kv : list (str * str)) (root : option str) (p : rawpath str)
  : result (rawpath matcher) :=
  match p with
  | RPone _ t => do M <- mk_matcher t kv root; Ok (RPone _ M)
  | RPlist _ ts => do Ms <- mapM (fun t => mk_matcher t kv root) ts; Ok (RPlist _ Ms)
  end.

Definition t_rule (kv : list (str * str)) (root : option str) (r : rawrule str)
  : result (rawrule matcher) :=
  do p <- t_rawpath kv root (rr_path _ r); Ok (mkraw _ p (rr_key _ r) (rr_action _ r)).

Definition t_path (kv : list (str * str)) (root : option str) (p : str * option (list str))
  : result (pathd matcher str) :=
  do M <- mk_matcher (fst p) kv root; Ok (mkpath _ _ M (snd p)).

(* add_paths / add_rules create the Matcher objects *)
Fixpoint t_compile (t : tconfig) : result (rawconfig matcher str) :=
  match t with
  | mktc kv root locs paths rules children excludes =>
      do ps <- mapM (t_path kv root) paths;
      do rs <- mapM (t_rule kv root) rules;
      do cs <- mapM t_compile children;
      do es <- mapM t_compile excludes;
      Ok (mkrawc _ _ locs ps rs cs es)
  end.

(* filter(File(path, locale=loc), entity) on the configuration described by t *)
Definition e2e_filter (compile_re : str -> option rx) (t : tconfig) (loc path : str)
           (ent : option str) : result action :=
  do raw <- t_compile t;
  do cfg <- build matcher str compile_re raw;
  e2e_filter_cfg cfg loc path ent.
