(* Model of compare_locales/compare/content.py ContentComparer.merge and of the
   way ContentComparer.remove / add / compare (no parser) call it.
   Definitions only; proofs are in Proofs/MergeProofs.v.

   The effects of merge are values: what ends up at merge_file is an [action].
   Texts are lists of code points (the decoded contents of the localization,
   the [.all] texts of reference entities); the two input files are never
   read as text by merge itself, only copied (shutil.copyfile), so [CopyL10n]
   and [CopyRef] stand for byte copies. *)
From Coq Require Import ZArith NArith List Bool Arith.
From CL Require Import Base.Sx Base.Res Base.Str Model.AddRemove Generated.C04Facts.
Import ListNotations.
Local Open Scope nat_scope.

(* entity.span : a pair; Android entities carry (None, None) *)
Definition ospan := (option nat * option nat)%type.

Inductive action :=
| NoFile                       (* merge returned before create_merge_dir *)
| DirOnly                      (* the directory was made, nothing staged *)
| CopyL10n                     (* shutil.copyfile(l10n_file, merge_file) *)
| CopyRef                      (* shutil.copyfile(ref_file, merge_file) *)
| Write (text : str)           (* codecs.open(merge_file, "wb"); write text *)
| CopyL10nAppend (text : str). (* copyfile(l10n_file, merge_file); open "ab"; write text *)

(* ---- text helpers ------------------------------------------------------- *)
(* s[a:b] where a and b are None or non-negative integers *)
Definition pyslice (s : str) (a b : option nat) : str :=
  slice s (match a with Some x => x | None => 0 end)
          (match b with Some y => y | None => length s end).

Fixpoint ends_with_nl (s : str) : bool :=
  match s with
  | [] => false
  | [c] => N.eqb c 10
  | _ :: s' => ends_with_nl s'
  end.

(* def ensureNewline(s): if not s.endswith("\n"): return s + "\n"; return s *)
Definition ensure_newline (s : str) : str :=
  if ends_with_nl s then s else s ++ [10%N].

Definition nonempty {T} (l : list T) : bool :=
  match l with [] => false | _ => true end.

Section Merge.
Context {K : Type} (keqb : K -> K -> bool).

(* what merge reads of an element of [skips] *)
Record skip := mkskip {
  sk_span : ospan;     (* skip.span *)
  sk_key : K;          (* skip.key *)
  sk_junk : bool       (* isinstance(skip, parser.Junk) *)
}.

Definition sk_start (s : skip) : option nat := fst (sk_span s).
Definition sk_end (s : skip) : option nat := snd (sk_span s).

(* ---- skips.sort(key=lambda s: s.span[0]) -------------------------------- *)
(* a < b on sort keys: comparing with None is a TypeError *)
Definition key_lt (a b : option nat) : result bool :=
  match a, b with
  | Some x, Some y => Ok (Nat.ltb x y)
  | _, _ => Raise TypeError
  end.

(* stable insertion: x (earlier in the input) goes in front of the first
   element that is not smaller than it *)
Fixpoint insert_skip (x : skip) (l : list skip) : result (list skip) :=
  match l with
  | [] => Ok [x]
  | y :: l' =>
      do lt <- key_lt (sk_start y) (sk_start x);
      if lt then (do r <- insert_skip x l'; Ok (y :: r)) else Ok (x :: y :: l')
  end.

Fixpoint sort_skips (l : list skip) : result (list skip) :=
  match l with
  | [] => Ok []
  | x :: l' => do s <- sort_skips l'; insert_skip x s
  end.

(* ---- the copy loop ------------------------------------------------------
   offset = 0
   for skip in skips:
       chunk = skip.span
       f.write(ctx.contents[offset : chunk[0]])
       offset = chunk[1]
   f.write(ctx.contents[offset:])                                          *)
Fixpoint copy_around (contents : str) (offset : option nat) (spans : list ospan) : str :=
  match spans with
  | [] => pyslice contents offset None
  | chunk :: rest =>
      pyslice contents offset (fst chunk) ++ copy_around contents (snd chunk) rest
  end.

Definition remove_spans (contents : str) (spans : list ospan) : str :=
  copy_around contents (Some 0) spans.

(* ---- the appended text -------------------------------------------------- *)
(* ref_entities[key].all ; ref_entities is a KeyedTuple of (key, all) *)
Definition ref_all (refs : list (K * str)) (k : K) : result str :=
  do e <- kt_getitem keqb fst k refs; Ok (snd e).

Fixpoint map_result {A B} (f : A -> result B) (l : list A) : result (list B) :=
  match l with
  | [] => Ok []
  | x :: l' => do y <- f x; do ys <- map_result f l'; Ok (y :: ys)
  end.

Definition non_junk (skips : list skip) : list skip :=
  filter (fun s => negb (sk_junk s)) skips.

(* trailing = ["\n"] + [ref_entities[key].all for key in missing]
                     + [ref_entities[skip.key].all for skip in skips if not junk] *)
Definition trailing (refs : list (K * str)) (missing : list K) (skips : list skip)
  : result (list str) :=
  do ms <- map_result (ref_all refs) missing;
  do ss <- map_result (fun s => ref_all refs (sk_key s)) (non_junk skips);
  Ok ([10%N] :: ms ++ ss).

(* "".join(map(ensureNewline, trailing)) *)
Definition appended_text (tr : list str) : str := concat (map ensure_newline tr).

(* ---- ContentComparer.merge ---------------------------------------------- *)
Definition has (caps flag : N) : bool := negb (N.eqb (N.land caps flag) 0).

Definition merge (merge_file : bool) (caps : N) (contents : str)
                 (skips : list skip) (missing : list K) (refs : list (K * str))
  : result action :=
  if negb merge_file then Ok NoFile                      (* if not merge_file: return *)
  else if N.eqb caps can_none then Ok NoFile             (* capabilities == CAN_NONE *)
  else (* create_merge_dir *)
  if has caps can_copy then
    Ok (if nonempty skips || nonempty missing then CopyRef else CopyL10n)
  else if negb (has caps can_skip) then Ok DirOnly
  else
    (* if skips: sort, open "wb", copy around the skipped spans *)
    do sorted <- (if nonempty skips then sort_skips skips else Ok skips);
    let body := if nonempty skips
                then Some (remove_spans contents (map sk_span sorted)) else None in
    if negb (has caps can_merge) then
      Ok (match body with Some b => Write b | None => CopyL10n end)
    else if nonempty skips || nonempty missing then
      do tr <- trailing refs missing sorted;
      let t := appended_text tr in
      Ok (match body with Some b => Write (b ++ t) | None => CopyL10nAppend t end)
    else
      Ok (match body with Some b => Write b | None => CopyL10n end).

(* ---- callers that stage whole files -------------------------------------- *)
(* remove(): merge(KeyedTuple([]), ref, l10n, merge_file, [], [], None, CAN_COPY, None) *)
Definition remove_file (merge_file : bool) : result action :=
  merge merge_file caps_file_copy [] [] [] [].

(* compare() when no parser is found: the same call *)
Definition compare_unknown (merge_file : bool) : result action :=
  merge merge_file caps_file_copy [] [] [] [].

(* add(): caps = p.capabilities if p else CAN_COPY;
          if caps & (CAN_COPY | CAN_MERGE): merge(..., ["trigger copy"], [], None, CAN_COPY, None) *)
Definition add_file (merge_file : bool) (parser_caps : option N) (trigger : K) : result action :=
  let caps := match parser_caps with Some c => c | None => can_copy end in
  if has caps add_mask then merge merge_file caps_file_copy [] [] [trigger] []
  else Ok NoFile.

End Merge.

Arguments mkskip {K}.
Arguments sk_span {K}.
Arguments sk_key {K}.
Arguments sk_junk {K}.

(* ---- what the action does to a file system -------------------------------
   Files are byte strings; [enc] is the codec of codecs.open.  Only the path
   merge_file is ever updated. *)
Section Effect.
Context {P B : Type} (peqb : P -> P -> bool) (enc : str -> list B).

Definition fs := P -> option (list B).

Definition staged (l10n_bytes ref_bytes : list B) (a : action) : option (list B) :=
  match a with
  | NoFile | DirOnly => None
  | CopyL10n => Some l10n_bytes
  | CopyRef => Some ref_bytes
  | Write t => Some (enc t)
  | CopyL10nAppend t => Some (l10n_bytes ++ enc t)
  end.

Definition read_or_empty (f : fs) (p : P) : list B :=
  match f p with Some b => b | None => [] end.

Definition apply_action (merge_file l10n_file ref_file : P) (a : action) (f : fs) : fs :=
  match staged (read_or_empty f l10n_file) (read_or_empty f ref_file) a with
  | None => f
  | Some b => fun p => if peqb p merge_file then Some b else f p
  end.

End Effect.


(* ==== independent specification (C04_splice, C04_reparse) =====================
   Nothing below is used by [merge]; these are the notions the theorems of
   Properties/C04.v are stated with. *)
Definition nspan := (nat * nat)%type.
Definition ospan_of (s : nspan) : ospan := (Some (fst s), Some (snd s)).

Definition covers (i : nat) (s : nspan) : bool := (fst s <=? i) && (i <? snd s).
Definition covered (i : nat) (spans : list nspan) : bool := existsb (covers i) spans.

(* the text with index i of its first character: every character whose index
   lies in no span, once, in order *)
Fixpoint keep_from (i : nat) (s : str) (spans : list nspan) : str :=
  match s with
  | [] => []
  | c :: s' => if covered i spans then keep_from (S i) s' spans
               else c :: keep_from (S i) s' spans
  end.

Definition uncovered (s : str) (spans : list nspan) : str := keep_from 0 s spans.


(* a block is a piece of text, flagged when it is to be skipped *)
Fixpoint block_spans (off : nat) (bs : list (bool * str)) : list nspan :=
  match bs with
  | [] => []
  | (skipped, t) :: bs' =>
      (if skipped then [(off, off + length t)] else []) ++ block_spans (off + length t) bs'
  end.

Definition kept_blocks (bs : list (bool * str)) : list str :=
  map snd (filter (fun b => negb (fst b)) bs).


Section Spec.
Context {K : Type}.
Notation skip := (@skip K).

(* the sort key order on skips that have a span start *)
Definition start_le (x y : skip) : Prop :=
  match sk_start x, sk_start y with
  | Some a, Some b => a <= b
  | _, _ => False
  end.

Definition has_start (x : skip) : Prop := exists a, sk_start x = Some a.


(* the span of a skip as a pair of numbers (junk and text entities) *)
Definition nsp (s : skip) : nspan :=
  match sk_span s with
  | (Some a, Some b) => (a, b)
  | _ => (0, 0)
  end.

(* inside the text and not empty *)
Definition placed (n : nat) (s : skip) : Prop :=
  exists a b, sk_span s = (Some a, Some b) /\ a < b /\ b <= n.

(* two skips are the same region of the text or do not overlap *)
Definition apart (s t : skip) : Prop :=
  nsp s = nsp t \/ snd (nsp s) <= fst (nsp t) \/ snd (nsp t) <= fst (nsp s).


(* a block: its text, and (key, is junk) when compare() put it into skips *)
Definition blk := (option (K * bool) * str)%type.

Definition flagged (b : blk) : bool := match fst b with Some _ => true | None => false end.
Definition flags (bs : list blk) : list (bool * str) := map (fun b => (flagged b, snd b)) bs.
Definition l10n_text (bs : list blk) : str := concat (map snd bs).
Definition kept_texts (bs : list blk) : list str := kept_blocks (flags bs).

Fixpoint block_skips (off : nat) (bs : list blk) : list skip :=
  match bs with
  | [] => []
  | (Some (k, j), t) :: bs' =>
      mkskip (Some off, Some (off + length t)) k j :: block_skips (off + length t) bs'
  | (None, t) :: bs' => block_skips (off + length t) bs'
  end.


End Spec.

(* the text at merge_file after the action, when the localization file decodes
   to [contents] (what the comparison parsed) and the codec encodes what it
   decoded; None: nothing staged or the reference copied *)
Definition staged_text (contents : str) (a : action) : option str :=
  match a with
  | CopyL10n => Some contents
  | Write t => Some t
  | CopyL10nAppend t => Some (contents ++ t)
  | NoFile | DirOnly | CopyRef => None
  end.

(* capabilities of a registered parser class, from the generated dispatch table *)
Fixpoint caps_of_class (name : str) (tbl : list (str * str * N)) : option N :=
  match tbl with
  | [] => None
  | (_, n, c) :: tbl' => if str_eqb name n then Some c else caps_of_class name tbl'
  end.

Definition action_sx (a : action) : sx :=
  match a with
  | NoFile => L [A 0%Z]
  | DirOnly => L [A 1%Z]
  | CopyL10n => L [A 2%Z]
  | CopyRef => L [A 3%Z]
  | Write t => L [A 4%Z; of_str t]
  | CopyL10nAppend t => L [A 5%Z; of_str t]
  end.
