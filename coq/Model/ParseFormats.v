(* The five text parsers instantiated with the regular expressions generated
   from the source (Generated/Regexes.v). *)
From Coq Require Import NArith List Bool Arith.
From CL Require Import Base.Sx Base.Res Base.Str Regex.Rx Model.Entry Model.Parse Model.ParseFluent
  Generated.RxParser.
Import ListNotations.

Definition gn_properties : str -> nat -> entry :=
  get_next_properties rx_props_comment rx_props_ws rx_props_key rx_props_escaped_end
                      rx_props_trailing_ws g_props_key_key.

Definition gn_dtd : str -> nat -> entry :=
  get_next_dtd rx_dtd_comment rx_dtd_ws rx_dtd_key rx_dtd_header rx_dtd_pe
               g_dtd_key_key g_dtd_key_val g_dtd_pe_key g_dtd_pe_val.

Definition gn_ini : str -> nat -> entry :=
  get_next_ini rx_ini_comment rx_ini_ws rx_ini_key rx_ini_section
               g_ini_key_key g_ini_key_val g_ini_section_val.

Definition gn_defines : bool -> str -> nat -> entry * bool :=
  get_next_defines rx_inc_comment rx_inc_ws rx_inc_key rx_inc_pi
                   g_inc_key_key g_inc_key_val g_inc_pi_val.

Definition the_fmt_po : fmt := fmt_po rx_po_comment rx_po_ws rx_po_key rx_po_listitem.
Definition gn_po : str -> nat -> entry := get_next_base the_fmt_po.

Definition walk_properties (s : str) := walk (stateless gn_properties) tt s.
Definition walk_dtd (s : str) := walk (stateless gn_dtd) tt s.
Definition walk_ini (s : str) := walk (stateless gn_ini) tt s.
Definition walk_defines (s : str) := walk gn_defines false s.
Definition walk_po (s : str) := walk (stateless gn_po) tt s.

Definition walk_fluent_gen (only_loc : bool) (s : str) (body : list fentry) : list entry :=
  walk_fluent rx_ftl_lead rx_ftl_trail only_loc s body.
