(* Model of ObserverList.serializeSummaries (compare/observer.py): the text
   block `compare-locales` prints under the details.  Definitions only; proofs
   are in Proofs/SummariesProofs.v.

   The display keys, the two widths, the keys of the total and the key of the
   percentage come from Generated/ObserverFacts.v; tr/facts_c10.py requires the
   rest of the function to have exactly the shape mirrored here.

   Locales are the ids of Model/Observer.v; the header line of a locale is the
   structured line [SLocale loc] (the harness maps the printed name back to the
   id; ids are assigned in the order of the names, so `sorted` on names is
   insertion sort on ids).  Id 0 is the locale None (a file without locale):
   it gets no header line (`if locale:`), and `sorted` raises TypeError as soon
   as it has to compare None with a name.  An empty locale NAME is outside the
   model. *)
From Coq Require Import ZArith NArith List Bool Arith.
From CL Require Import Base.Sx Base.Res Base.Str Model.Tree Model.Observer
  Generated.ObserverFacts.
Import ListNotations.

Definition sp : N := 32%N.

(* str(int) for a natural number *)
Fixpoint uint_str (u : Decimal.uint) : str :=
  match u with
  | Decimal.Nil => []
  | Decimal.D0 u => 48%N :: uint_str u
  | Decimal.D1 u => 49%N :: uint_str u
  | Decimal.D2 u => 50%N :: uint_str u
  | Decimal.D3 u => 51%N :: uint_str u
  | Decimal.D4 u => 52%N :: uint_str u
  | Decimal.D5 u => 53%N :: uint_str u
  | Decimal.D6 u => 54%N :: uint_str u
  | Decimal.D7 u => 55%N :: uint_str u
  | Decimal.D8 u => 56%N :: uint_str u
  | Decimal.D9 u => 57%N :: uint_str u
  end.
Definition dec (n : nat) : str := uint_str (Nat.to_uint n).

(* '{:w}'.format(x): an int is right-aligned, '' gives w blanks; f'{k:w}'
   left-aligns a str.  Longer texts are not cut. *)
Definition lpad (w : nat) (s : str) : str := repeat sp (w - length s) ++ s.
Definition rpad (w : nat) (s : str) : str := s ++ repeat sp (w - length s).

(* d.get(k, 0) and `d.get(k) or ''` read the same number: a missing key and a
   stored 0 both display as blanks and both add 0 *)
Definition cget (k : str) (c : counters) : nat :=
  match find (fun kv => str_eqb k (fst kv)) c with
  | Some kv => snd kv
  | None => 0
  end.

(* observer.summary.get(loc, {}) *)
Definition loc_counters (loc : N) (s : summary_t) : counters :=
  match find (fun lc => N.eqb loc (fst lc)) s with
  | Some lc => snd lc
  | None => []
  end.

(* ' {:6}'.format(summary.get(key) or '') *)
Definition cell_text (n : nat) : str := if Nat.eqb n 0 then [] else dec n.
Definition cell (n : nat) : str := sp :: lpad cell_width (cell_text n).

(* the columns of a locale: every project observer in order, then the list's
   own summary when there is more than one project *)
Definition columns (st : lstate) (loc : N) : list counters :=
  map (fun cs => loc_counters loc (o_summary (snd cs))) (l_obs st)
  ++ (if Nat.ltb 1 (length (l_obs st)) then [loc_counters loc (o_summary (l_own st))] else []).

Definition row_cells (k : str) (cols : list counters) : str :=
  flat_map (fun c => cell (cget k c)) cols.

(* row.strip() is non-empty: the row holds blanks and digits only *)
Definition has_ink (s : str) : bool := existsb (fun c => negb (N.eqb c sp)) s.

Definition rows (cols : list counters) : list str :=
  flat_map (fun k => let r := row_cells k cols in
                     if has_ink r then [rpad lead_width k ++ r] else [])
           display_keys.

(* '%d%% of entries changed' % rate, on the LAST column; the true division
   followed by %d truncates, i.e. floor for these non-negative numbers (exact
   below 2^53 / 100) *)
Definition total_of (c : counters) : nat := fold_right (fun k a => cget k c + a) 0 rate_keys.
Definition rate_of (c : counters) : nat :=
  if Nat.eqb (total_of c) 0 then 0 else (cget rate_key c * 100) / total_of c.

Inductive sumline :=
| SLocale (loc : N)     (* locale + ':' *)
| SText (s : str).

(* summaries[-1] on an empty list (no project observer): IndexError *)
Definition locale_block (st : lstate) (loc : N) : result (list sumline) :=
  let cols := columns st loc in
  match rev cols with
  | [] => Raise IndexError
  | lastc :: _ =>
      Ok ((if N.eqb loc 0 then [] else [SLocale loc])
          ++ map SText (rows cols) ++ [SText (dec (rate_of lastc) ++ rate_suffix)])
  end.

(* sorted(...) on the locale keys of the list's own summary *)
Fixpoint insert_loc (l : N) (ls : list N) : list N :=
  match ls with
  | [] => [l]
  | x :: r => if N.leb l x then l :: ls else x :: insert_loc l r
  end.
Definition sort_locs (ls : list N) : list N := fold_right insert_loc [] ls.

Fixpoint blocks (st : lstate) (locs : list N) : result (list sumline) :=
  match locs with
  | [] => Ok []
  | l :: r => do b <- locale_block st l; do bs <- blocks st r; Ok (b ++ bs)
  end.

(* sorted() compares (locale, list) tuples: None against a str is a TypeError,
   and with two or more keys every key takes part in a comparison *)
Definition unsortable (locs : list N) : bool :=
  existsb (N.eqb 0) locs && Nat.ltb 1 (length locs).

Definition serialize_summaries (st : lstate) : result (list sumline) :=
  let locs := map fst (o_summary (l_own st)) in
  if unsortable locs then Raise TypeError else blocks st (sort_locs locs).

(* ---- reading the text back (the statement side of the theorems) ---------- *)
Fixpoint str_uint (s : str) : option Decimal.uint :=
  match s with
  | [] => Some Decimal.Nil
  | c :: r =>
      match str_uint r with
      | None => None
      | Some u =>
          if N.eqb c 48 then Some (Decimal.D0 u) else if N.eqb c 49 then Some (Decimal.D1 u)
          else if N.eqb c 50 then Some (Decimal.D2 u) else if N.eqb c 51 then Some (Decimal.D3 u)
          else if N.eqb c 52 then Some (Decimal.D4 u) else if N.eqb c 53 then Some (Decimal.D5 u)
          else if N.eqb c 54 then Some (Decimal.D6 u) else if N.eqb c 55 then Some (Decimal.D7 u)
          else if N.eqb c 56 then Some (Decimal.D8 u) else if N.eqb c 57 then Some (Decimal.D9 u)
          else None
      end
  end.

Fixpoint drop_sp (s : str) : str :=
  match s with
  | c :: r => if N.eqb c sp then drop_sp r else s
  | [] => []
  end.

(* what a reader sees in a cell: blanks are 0, otherwise the decimal number *)
Definition read_cell (s : str) : option nat :=
  match drop_sp s with
  | [] => Some 0
  | t => option_map Nat.of_uint (str_uint t)
  end.

(* cell i of a row whose numbers all fit their cells *)
Definition nth_cell (row : str) (i : nat) : str :=
  firstn (S cell_width) (skipn (lead_width + i * S cell_width) row).
