(* Model of compare_locales/lint/linter.py (L10nLinter.lint, lint_file,
   EntityLinter) with the position methods of the entity classes it calls
   (parser/base.py Entry.position / value_position, Junk.position,
   parser/dtd.py DTDEntityMixin.value_position, parser/fluent.py
   FluentEntity.value_position, parser/android.py AndroidEntity / XMLJunk) and
   parser.hasParser on the generated dispatch table.
   Definitions only; proofs are in Proofs/LintProofs.v.

   What is data here (supplied by the caller / the harness):
   - the parse of a file (a list of entities: key, junk flag, spans, class),
   - Entity.equals between a file entity and a reference entity,
   - the format checker (a parameter: for all checkers),
   - os.path.isfile, the entry-point plugins of getParser. *)
From Coq Require Import ZArith NArith List Bool.
From CL Require Import Base.Sx Base.Res Regex.Rx Model.AddRemove Model.LineCol.
Import ListNotations.
Open Scope Z_scope.

Definition pos := (Z * Z)%type.           (* (lineno, column) *)

(* ---- Parser.Context.linecol for a Python int position ------------------
   bisect.bisect of a negative position in the (positive) line ends is 0, so
   the line start is 0: (1, position + 1). *)
Definition ctx_linecol (contents : list N) (p : Z) : result pos :=
  if p <? 0 then Ok (1, p + 1)
  else match linecol contents (Z.to_nat p) with
       | Some (l, c) => Ok (Z.of_nat l, Z.of_nat c)
       | None => Raise OutOfFuel
       end.

(* what a checker puts in the position slot of a result: checks.EntityPos(n),
   a plain int, or (DTDChecker) a (line, column) tuple *)
Inductive vpos := VOff (z : Z) | VTuple (l c : Z).
Inductive cpos := EntityPos (z : Z) | ValuePos (v : vpos).

Definition span := (Z * Z)%type.

(* Entry.position / Junk.position *)
Definition entry_position (contents : list N) (sp : span) (offset : Z) : result pos :=
  if offset <? 0 then ctx_linecol contents (snd sp)
  else ctx_linecol contents (fst sp + offset).

(* Entry.value_position; a tuple reaches `offset < 0`: TypeError *)
Definition entry_value_position (contents : list N) (val_span : option span) (v : vpos)
  : result pos :=
  match val_span with
  | None => Raise AssertionError
  | Some vs =>
      match v with
      | VTuple _ _ => Raise TypeError
      | VOff offset =>
          if offset <? 0 then ctx_linecol contents (snd vs)
          else ctx_linecol contents (fst vs + offset)
      end
  end.

(* DTDEntityMixin.value_position *)
Definition dtd_value_position (contents : list N) (val_span : option span) (v : vpos)
  : result pos :=
  match v with
  | VTuple line_pos col_pos =>
      do lc <- entry_value_position contents val_span (VOff 0);
      let (line, col) := (lc : pos) in
      if line_pos =? 1 then Ok (line, col + col_pos)
      else Ok (line + (line_pos - 1), col_pos)
  | VOff _ => entry_value_position contents val_span v
  end.

(* FluentEntity.value_position(offset) for a given offset (lint always passes
   one): self.position(offset); a tuple reaches `offset < 0`: TypeError *)
Definition fluent_value_position (contents : list N) (sp : span) (v : vpos) : result pos :=
  match v with
  | VOff offset => entry_position contents sp offset
  | VTuple _ _ => Raise TypeError
  end.

(* AndroidEntity / XMLJunk: position(offset) = value_position(offset) = (0, offset).
   With a tuple Python returns (0, <tuple>), which is no (int, int) position;
   no checker used for strings.xml yields tuples.  Explicit TypeError here. *)
Definition android_position (offset : Z) : result pos := Ok (0, offset).
Definition android_value_position (v : vpos) : result pos :=
  match v with VOff offset => Ok (0, offset) | VTuple _ _ => Raise TypeError end.

(* ---- hasParser ---------------------------------------------------------- *)
Definition searches (r : rx) (path : list N) : bool :=
  match rsearch r path 0 with MSome _ => true | _ => false end.

(* getParser: the first table entry whose regex is found in the path, else the
   entry-point plugins (environment), else UserWarning *)
Fixpoint table_index (table : list rx) (path : list N) (i : nat) : option nat :=
  match table with
  | [] => None
  | r :: table' => if searches r path then Some i else table_index table' path (S i)
  end.

Section Lint.
Context {K : Type} (keqb : K -> K -> bool).
Context {Msg : Type}.                     (* text of a checker message *)

(* an entity as the linter sees it: an object with a key, a class test and
   two position methods (dynamic dispatch = record fields) *)
Record entity := mkEntity {
  e_id : nat;                              (* identity, for data-backed parameters *)
  e_key : K;
  e_junk : bool;                           (* isinstance(e, parser.Junk) *)
  e_raw : list N;                          (* raw_val text: data for an equals that reads it *)
  e_position : Z -> result pos;            (* e.position(offset) *)
  e_value_position : vpos -> result pos    (* e.value_position(pos) *)
}.

Inductive level := LError | LWarning.

(* one tuple yielded by checker.check: (tp, pos, msg, cat) *)
Record cres := mkCres { c_level : level; c_pos : cpos; c_msg : Msg; c_cat : Z }.

Inductive message :=
| MDuplicate (k : K)                       (* "Duplicate string with ID: {key}" *)
| MChanged (k : K)                         (* "Changes to string require a new ID: {key}" *)
| MJunk (id : nat) (from to : pos)         (* Junk.error_message() of entity id *)
| MCheck (m : Msg).

Record finding := mkFinding {
  f_lineno : Z; f_column : Z; f_level : level; f_message : message }.

Definition mkf (p : pos) (l : level) (m : message) : finding :=
  mkFinding (fst p) (snd p) l m.

(* ---- EntityLinter ------------------------------------------------------ *)
(* Counter(entity.key for entity in current): a dict of counts in insertion order *)
Fixpoint cinc (k : K) (m : list (K * nat)) : list (K * nat) :=
  match m with
  | [] => [(k, 1%nat)]
  | (k', n) :: m' => if keqb k k' then (k', S n) :: m' else (k', n) :: cinc k m'
  end.

Fixpoint counter_from (m : list (K * nat)) (l : list entity) : list (K * nat) :=
  match l with
  | [] => m
  | e :: l' => counter_from (cinc (e_key e) m) l'
  end.

Definition counter (current : list entity) : list (K * nat) := counter_from [] current.

(* Counter.__getitem__: 0 for a missing key *)
Fixpoint cget (k : K) (m : list (K * nat)) : nat :=
  match m with
  | [] => O
  | (k', n) :: m' => if keqb k k' then n else cget k m'
  end.

(* a checker after getChecker / set_reference: check(refEnt, l10nEnt) *)
Definition checker := entity -> entity -> list cres.

Record linter := mkLinter {
  key_count : list (K * nat);
  the_checker : option checker;
  reference : option (list entity)         (* None: the dict {} *)
}.

Definition new_linter (current : list entity) (chk : option checker)
           (ref : option (list entity)) : linter :=
  mkLinter (counter current) chk ref.

(* current_entity.equals(reference_entity); may raise (e.g. a value that cannot be
   unescaped, FluentEntity.equals against Junk) *)
Variable equals : entity -> entity -> result bool.

Definition handle_junk (e : entity) : result (option finding) :=
  if e_junk e then
    do p <- e_position e 0;
    (* error_message(): (self.val,) + self.position() + self.position(-1) *)
    do p0 <- e_position e 0;
    do p1 <- e_position e (-1);
    Ok (Some (mkf p LError (MJunk (e_id e) p0 p1)))
  else Ok None.

Definition lint_full_entity (li : linter) (e : entity) : result (list finding) :=
  do d <- (if (1 <? cget (e_key e) (key_count li))%nat
           then do p <- e_position e 0; Ok (Some p)
           else Ok None);
  let dup := match d with
             | Some p => [mkf p LError (MDuplicate (e_key e))]
             | None => []
             end in
  match reference li with
  | None => Ok dup
  | Some ref =>
      if kt_contains keqb e_key (e_key e) ref then
        do r <- kt_getitem keqb e_key (e_key e) ref;
        do same <- equals e r;
        if (same : bool) then Ok dup
        else
          do p <- match d with Some p => Ok p | None => e_position e 0 end;
          Ok (dup ++ [mkf p LWarning (MChanged (e_key e))])
      else Ok dup
  end.

Definition resolve (e : entity) (r : cres) : result finding :=
  do p <- match c_pos r with
          | EntityPos off => e_position e off
          | ValuePos v => e_value_position e v
          end;
  Ok (mkf p (c_level r) (MCheck (c_msg r))).

Fixpoint mapM {A B} (f : A -> result B) (l : list A) : result (list B) :=
  match l with
  | [] => Ok []
  | x :: l' => do y <- f x; do ys <- mapM f l'; Ok (y :: ys)
  end.

Definition lint_value (li : linter) (e : entity) : result (list finding) :=
  match the_checker li with
  | None => Ok []
  | Some chk => mapM (resolve e) (chk e e)
  end.

Definition lint_entity (li : linter) (e : entity) : result (list finding) :=
  do j <- handle_junk e;
  match j with
  | Some f => Ok [f]
  | None =>
      do a <- lint_full_entity li e;
      do b <- lint_value li e;
      Ok (a ++ b)
  end.

Definition lint_entities (li : linter) (l : list entity) : result (list finding) :=
  do fss <- mapM (lint_entity li) l; Ok (concat fss).

(* ---- L10nLinter --------------------------------------------------------- *)
Definition path := list N.

Variable table : list rx.                  (* parser.__constructors regexes *)
Variable plugins : path -> bool.           (* an entry-point parser claims the path *)

Definition has_parser (p : path) : bool :=
  match table_index table p 0 with Some _ => true | None => plugins p end.

(* what checks.getChecker returns: a checker object that may want the whole
   file as its reference (needs_reference / set_reference) *)
Record checker_obj := mkChecker {
  needs_reference : bool;
  check : option (list entity) -> checker   (* after set_reference(x) / without *)
}.

Variable parse : path -> path -> list entity.  (* getParser(p).readFile(f); .parse() *)
Variable isfile : path -> bool.
Variable Tests : Type.
Variable get_checker : path -> option Tests -> option checker_obj.

Definition lint_file (p : path) (ref : option path) (extra_tests : option Tests)
  : result (list (path * finding)) :=
  if has_parser p then
    let reference :=
      match ref with
      | Some r => if isfile r then Some (parse p r) else None
      | None => None
      end in
    let current := parse p p in
    let chk := match get_checker p extra_tests with
               | Some c => Some (check c (if needs_reference c then Some current else None))
               | None => None
               end in
    do fs <- lint_entities (new_linter current chk reference) current;
    Ok (map (fun f => (p, f)) fs)
  else Raise NotSupported.                 (* UserWarning("Cannot find Parser") *)

Fixpoint lint (files : list path)
         (get_reference_and_tests : path -> option path * option Tests)
  : result (list (path * finding)) :=
  match files with
  | [] => Ok []
  | p :: files' =>
      if has_parser p then
        let (ref, extra_tests) := get_reference_and_tests p in
        do a <- lint_file p ref extra_tests;
        do b <- lint files' get_reference_and_tests;
        Ok (a ++ b)
      else lint files' get_reference_and_tests
  end.

End Lint.

Arguments mkEntity {K}.
Arguments MCheck {K Msg}.
