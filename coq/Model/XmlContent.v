(* A well-formedness checker for the ELEMENT-CONTENT fragment of XML 1.0 — the
   stand-in for expat (xml.sax) in property C07.  Definitions only.

   What checks/dtd.py asks of expat: the localized value is put between
   <elem> and </elem> behind a DOCTYPE whose internal subset declares a set of
   general entities, and — in a second document — the entity's own declaration
   is put into the internal subset and referenced once, which makes expat read
   the declaration's literal (character references are expanded there, a '%'
   is a parameter-entity reference and illegal in the internal subset) and
   then parse the REPLACEMENT TEXT as element content.

     fragment_ok refok s     element content: text, &name; (accepted iff refok name),
                             &#n; / &#xh; to a legal Char, start / end / empty
                             tags with attributes (quoted values, no '<', no
                             duplicate names, blank before each attribute),
                             comments, CDATA sections, processing instructions;
                             tags balanced and properly nested inside s
     ent_repl s              the replacement text of the entity literal s
                             (None = the declaration itself is malformed)
     content_ok declared s   fragment_ok against a set of declared names and
                             the five predefined entities
     value_ok declared s     what the two documents of DTDChecker.check demand
                             of a localized value
     xml_doc s               a whole document of the shape the checker builds
                             (XUnsupported outside that shape)

   The checker is a deterministic pushdown machine that consumes one character
   per step ([step]), so it is total by structural recursion on the string and
   the theorems about it are inductions over strings.

   Name characters are the NameStartChar / NameChar classes of parser/dtd.py
   (generated: the same classes the `eref` expression is built from).  expat's
   own tables differ from them for some non-ASCII code points; that, and every
   other behaviour of expat, is compared by execution only (suite XML). *)
From Coq Require Import NArith List Bool Arith.
From CL Require Import Base.Str Regex.Rx Generated.C07Facts.
Import ListNotations.

Definition is_name_start (c : N) : bool := in_ranges c name_start_ranges.
Definition is_name_char (c : N) : bool := in_ranges c name_char_ranges.

Definition is_ws (c : N) : bool :=
  N.eqb c 32 || N.eqb c 9 || N.eqb c 10 || N.eqb c 13.

(* Char ::= #x9 | #xA | #xD | [#x20-#xD7FF] | [#xE000-#xFFFD] | [#x10000-#x10FFFF] *)
Definition is_xml_char (c : N) : bool :=
  N.eqb c 9 || N.eqb c 10 || N.eqb c 13 ||
  (N.leb 32 c && N.leb c 55295) || (N.leb 57344 c && N.leb c 65533) ||
  (N.leb 65536 c && N.leb c 1114111).

Definition is_digit (c : N) : bool := N.leb 48 c && N.leb c 57.
Definition digit_val (c : N) : N := c - 48.
Definition is_hex (c : N) : bool :=
  is_digit c || (N.leb 97 c && N.leb c 102) || (N.leb 65 c && N.leb c 70).
Definition hex_val (c : N) : N :=
  if is_digit c then c - 48 else if N.leb 97 c then c - 87 else c - 55.

Definition c_amp : N := 38.   Definition c_lt : N := 60.    Definition c_gt : N := 62.
Definition c_semi : N := 59.  Definition c_hash : N := 35.  Definition c_x : N := 120.
Definition c_slash : N := 47. Definition c_bang : N := 33.  Definition c_qm : N := 63.
Definition c_eq : N := 61.    Definition c_dq : N := 34.    Definition c_sq : N := 39.
Definition c_dash : N := 45.  Definition c_lbr : N := 91.   Definition c_rbr : N := 93.
Definition c_pct : N := 37.

Definition mem_str (x : str) (l : list str) : bool := existsb (str_eqb x) l.

(* ---- the machine ---------------------------------------------------------- *)
(* where a reference occurs: element content, or an attribute value with its quote *)
Inductive rctx := RContent | RAttr (q : N).

Inductive mode :=
| MText (rb : nat)               (* content; rb = number of ']' just read, saturating at 2 *)
| MAmp (x : rctx)                (* after & *)
| MEnt (x : rctx) (acc : str)    (* in &name ; acc is the name so far, reversed *)
| MHash (x : rctx)               (* after &# *)
| MDec (x : rctx) (v : N)        (* after &# and at least one digit *)
| MHexS (x : rctx)               (* after &#x *)
| MHex (x : rctx) (v : N)
| MLt                            (* after < *)
| MSName (acc : str)             (* in the name of a start tag *)
| MSTag (sp : bool)              (* in a start tag, after the name or an attribute; sp = blank seen *)
| MAName (acc : str)             (* in an attribute name *)
| MAEq0                          (* after an attribute name and a blank: = expected *)
| MAEq                           (* after = : the opening quote expected *)
| MAVal (q : N)                  (* in an attribute value *)
| MSlash                         (* after / in a start tag: > expected *)
| MEt0                           (* after </ *)
| MEName (acc : str)             (* in the name of an end tag *)
| MEWs                           (* after the name of an end tag and a blank *)
| MBang                          (* after <! *)
| MBangDash                      (* after <!- *)
| MCom (d : nat)                 (* in a comment; d = number of '-' just read *)
| MCdO (k : nat)                 (* after <![ and k characters of CDATA[ *)
| MCd (rb : nat)                 (* in a CDATA section *)
| MPi0                           (* after <? *)
| MPiT (acc : str)               (* in the target of a processing instruction *)
| MPiTQ                          (* after the target and ? : > expected *)
| MPi (q : bool).                (* in the data of a processing instruction; q = '?' just read *)

Record xst := mkx {
  x_mode : mode;
  x_stack : list str;            (* names of the open elements, innermost first *)
  x_tag : str;                   (* name of the tag being read *)
  x_attrs : list str             (* attribute names of the start tag being read *)
}.

Definition with_mode (st : xst) (m : mode) : xst :=
  mkx m (x_stack st) (x_tag st) (x_attrs st).

Definition back (x : rctx) : mode :=
  match x with RContent => MText 0 | RAttr q => MAVal q end.

Definition sat2 (n : nat) : nat := match n with 0 => 1 | _ => 2 end.

Definition s_cdata : str := [67; 68; 65; 84; 65; 91]%N.      (* CDATA[ *)

Definition lower (c : N) : N := if N.leb 65 c && N.leb c 90 then c + 32 else c.
Definition is_xml_target (n : str) : bool := str_eqb (map lower n) [120; 109; 108]%N.

Definition push_tag (st : xst) (name : str) : xst :=
  mkx (MText 0) (name :: x_stack st) [] [].

Definition pop_tag (st : xst) (name : str) : option xst :=
  match x_stack st with
  | top :: rest => if str_eqb top name then Some (mkx (MText 0) rest [] []) else None
  | [] => None
  end.

Definition step (refok : str -> bool) (st : xst) (c : N) : option xst :=
  match x_mode st with
  | MText rb =>
      if N.eqb c c_lt then Some (with_mode st MLt)
      else if N.eqb c c_amp then Some (with_mode st (MAmp RContent))
      else if N.eqb c c_rbr then Some (with_mode st (MText (sat2 rb)))
      else if N.eqb c c_gt then
        (if Nat.eqb rb 2 then None else Some (with_mode st (MText 0)))
      else if is_xml_char c then Some (with_mode st (MText 0))
      else None
  | MAmp x =>
      if N.eqb c c_hash then Some (with_mode st (MHash x))
      else if is_name_start c then Some (with_mode st (MEnt x [c]))
      else None
  | MEnt x acc =>
      if N.eqb c c_semi then
        (if refok (rev acc) then Some (with_mode st (back x)) else None)
      else if is_name_char c then Some (with_mode st (MEnt x (c :: acc)))
      else None
  | MHash x =>
      if N.eqb c c_x then Some (with_mode st (MHexS x))
      else if is_digit c then Some (with_mode st (MDec x (digit_val c)))
      else None
  | MDec x v =>
      if N.eqb c c_semi then
        (if is_xml_char v then Some (with_mode st (back x)) else None)
      else if is_digit c then Some (with_mode st (MDec x (10 * v + digit_val c)))
      else None
  | MHexS x =>
      if is_hex c then Some (with_mode st (MHex x (hex_val c))) else None
  | MHex x v =>
      if N.eqb c c_semi then
        (if is_xml_char v then Some (with_mode st (back x)) else None)
      else if is_hex c then Some (with_mode st (MHex x (16 * v + hex_val c)))
      else None
  | MLt =>
      if N.eqb c c_slash then Some (with_mode st MEt0)
      else if N.eqb c c_bang then Some (with_mode st MBang)
      else if N.eqb c c_qm then Some (with_mode st MPi0)
      else if is_name_start c then Some (with_mode st (MSName [c]))
      else None
  | MSName acc =>
      if is_name_char c then Some (with_mode st (MSName (c :: acc)))
      else if is_ws c then Some (mkx (MSTag true) (x_stack st) (rev acc) [])
      else if N.eqb c c_gt then Some (push_tag st (rev acc))
      else if N.eqb c c_slash then Some (mkx MSlash (x_stack st) (rev acc) [])
      else None
  | MSTag sp =>
      if is_ws c then Some (with_mode st (MSTag true))
      else if N.eqb c c_gt then Some (push_tag st (x_tag st))
      else if N.eqb c c_slash then Some (with_mode st MSlash)
      else if is_name_start c then
        (if sp then Some (with_mode st (MAName [c])) else None)
      else None
  | MAName acc =>
      if is_name_char c then Some (with_mode st (MAName (c :: acc)))
      else if N.eqb c c_eq || is_ws c then
        (if mem_str (rev acc) (x_attrs st) then None
         else Some (mkx (if N.eqb c c_eq then MAEq else MAEq0) (x_stack st) (x_tag st)
                        (rev acc :: x_attrs st)))
      else None
  | MAEq0 =>
      if is_ws c then Some st
      else if N.eqb c c_eq then Some (with_mode st MAEq)
      else None
  | MAEq =>
      if is_ws c then Some st
      else if N.eqb c c_dq || N.eqb c c_sq then Some (with_mode st (MAVal c))
      else None
  | MAVal q =>
      if N.eqb c q then Some (with_mode st (MSTag false))
      else if N.eqb c c_lt then None
      else if N.eqb c c_amp then Some (with_mode st (MAmp (RAttr q)))
      else if is_xml_char c then Some st
      else None
  | MSlash =>
      if N.eqb c c_gt then Some (mkx (MText 0) (x_stack st) [] []) else None
  | MEt0 =>
      if is_name_start c then Some (with_mode st (MEName [c])) else None
  | MEName acc =>
      if is_name_char c then Some (with_mode st (MEName (c :: acc)))
      else if is_ws c then Some (mkx MEWs (x_stack st) (rev acc) [])
      else if N.eqb c c_gt then pop_tag st (rev acc)
      else None
  | MEWs =>
      if is_ws c then Some st
      else if N.eqb c c_gt then pop_tag st (x_tag st)
      else None
  | MBang =>
      if N.eqb c c_dash then Some (with_mode st MBangDash)
      else if N.eqb c c_lbr then Some (with_mode st (MCdO 0))
      else None
  | MBangDash =>
      if N.eqb c c_dash then Some (with_mode st (MCom 0)) else None
  | MCom d =>
      match d with
      | 0 => if N.eqb c c_dash then Some (with_mode st (MCom 1))
             else if is_xml_char c then Some st else None
      | 1 => if N.eqb c c_dash then Some (with_mode st (MCom 2))
             else if is_xml_char c then Some (with_mode st (MCom 0)) else None
      | _ => if N.eqb c c_gt then Some (with_mode st (MText 0)) else None
      end
  | MCdO k =>
      match nth_error s_cdata k with
      | Some d =>
          if N.eqb c d then
            Some (with_mode st (if Nat.eqb (S k) (length s_cdata) then MCd 0 else MCdO (S k)))
          else None
      | None => None
      end
  | MCd rb =>
      if N.eqb c c_rbr then Some (with_mode st (MCd (sat2 rb)))
      else if N.eqb c c_gt then
        Some (with_mode st (if Nat.eqb rb 2 then MText 0 else MCd 0))
      else if is_xml_char c then Some (with_mode st (MCd 0))
      else None
  | MPi0 =>
      if is_name_start c then Some (with_mode st (MPiT [c])) else None
  | MPiT acc =>
      if is_name_char c then Some (with_mode st (MPiT (c :: acc)))
      else if is_xml_target (rev acc) then None
      else if is_ws c then Some (with_mode st (MPi false))
      else if N.eqb c c_qm then Some (with_mode st MPiTQ)
      else None
  | MPiTQ =>
      if N.eqb c c_gt then Some (with_mode st (MText 0)) else None
  | MPi q =>
      if N.eqb c c_qm then Some (with_mode st (MPi true))
      else if N.eqb c c_gt then Some (with_mode st (if q then MText 0 else MPi false))
      else if is_xml_char c then Some (with_mode st (MPi false))
      else None
  end.

Definition final (st : xst) : bool :=
  match x_mode st, x_stack st with
  | MText _, [] => true
  | _, _ => false
  end.

Fixpoint run (refok : str -> bool) (st : xst) (s : str) : bool :=
  match s with
  | [] => final st
  | c :: s' =>
      match step refok st c with
      | Some st' => run refok st' s'
      | None => false
      end
  end.

Definition x_init : xst := mkx (MText 0) [] [] [].

(* element content, balanced inside s *)
Definition fragment_ok (refok : str -> bool) (s : str) : bool := run refok x_init s.

Definition declared_ok (declared : list str) (name : str) : bool :=
  mem_str name declared || mem_str name xmllist.

Definition content_ok (declared : list str) (s : str) : bool :=
  fragment_ok (declared_ok declared) s.

(* ---- entity literals --------------------------------------------------------
   EntityValue ::= quote ([^%&quote] | PEReference | Reference)* quote
   In the internal subset a parameter-entity reference inside a declaration is
   an error, so any '%' is; character references are replaced, general entity
   references are kept. *)
Inductive emode :=
| EText | EAmp | EEnt | EHash | EDec (v : N) | EHexS | EHex (v : N).

Fixpoint ent_repl_from (m : emode) (out : list N) (s : str) : option str :=
  match s with
  | [] => match m with EText => Some (rev out) | _ => None end
  | c :: s' =>
      match m with
      | EText =>
          if N.eqb c c_pct then None
          else if N.eqb c c_amp then ent_repl_from EAmp out s'
          else if is_xml_char c then ent_repl_from EText (c :: out) s'
          else None
      | EAmp =>
          if N.eqb c c_hash then ent_repl_from EHash out s'
          else if is_name_start c then ent_repl_from EEnt (c :: c_amp :: out) s'
          else None
      | EEnt =>
          if N.eqb c c_semi then ent_repl_from EText (c :: out) s'
          else if is_name_char c then ent_repl_from EEnt (c :: out) s'
          else None
      | EHash =>
          if N.eqb c c_x then ent_repl_from EHexS out s'
          else if is_digit c then ent_repl_from (EDec (digit_val c)) out s'
          else None
      | EDec v =>
          if N.eqb c c_semi then
            (if is_xml_char v then ent_repl_from EText (v :: out) s' else None)
          else if is_digit c then ent_repl_from (EDec (10 * v + digit_val c)) out s'
          else None
      | EHexS =>
          if is_hex c then ent_repl_from (EHex (hex_val c)) out s' else None
      | EHex v =>
          if N.eqb c c_semi then
            (if is_xml_char v then ent_repl_from EText (v :: out) s' else None)
          else if is_hex c then ent_repl_from (EHex (16 * v + hex_val c)) out s'
          else None
      end
  end.

Definition ent_repl (s : str) : option str := ent_repl_from EText [] s.

(* what DTDChecker.check's two documents demand of the localized value v of the
   entity [key], given the names declared for it: v is element content (first
   document); its declaration is a legal literal and its replacement text is
   element content in which the entity itself is not referenced again (second
   document: <elem>&key;</elem> with the entity's own declaration in front) *)
Definition value_ok (declared : list str) (key v : str) : bool :=
  content_ok declared v &&
  match ent_repl v with
  | Some r => fragment_ok (fun n => negb (str_eqb n key) && declared_ok declared n) r
  | None => false
  end.

(* ---- whole documents of the checker's shape ------------------------------------
   <!DOCTYPE elem [ (<!ENTITY name QUOTED-LITERAL> | <!-- comment --> | blank)* ]>\n<elem> content </elem>\n
   Anything else in the internal subset is outside the fragment: XUnsupported. *)
Inductive xverdict := XOk | XBad | XUnsupported.

Inductive dmode :=
| DS                               (* between declarations *)
| DLt                              (* after < *)
| DBang                            (* after <! *)
| DKw (k : nat)                    (* after <! and k characters of ENTITY *)
| DWs1 (seen : bool)               (* blanks after ENTITY *)
| DName (acc : str)
| DWs2 (name : str) (seen : bool)  (* blanks after the name *)
| DLit (name : str) (q : N) (acc : str)
| DEnd                             (* after the literal: blanks, then > *)
| DDash                            (* after <!- *)
| DCom (d : nat).

Definition s_entity : str := [69; 78; 84; 73; 84; 89]%N.    (* ENTITY *)

(* the internal subset up to its closing ']' : the declared (name, literal)
   pairs in order and the rest of the document *)
Fixpoint subset_scan (m : dmode) (tbl : list (str * str)) (s : str)
  : option (option (list (str * str) * str)) :=     (* None = unsupported, Some None = malformed *)
  match s with
  | [] => Some None
  | c :: s' =>
      match m with
      | DS =>
          if N.eqb c c_rbr then Some (Some (rev tbl, s'))
          else if is_ws c then subset_scan DS tbl s'
          else if N.eqb c c_lt then subset_scan DLt tbl s'
          else if N.eqb c c_pct then None
          else Some None
      | DLt => if N.eqb c c_bang then subset_scan DBang tbl s'
               else if N.eqb c c_qm then None else Some None
      | DBang =>
          if N.eqb c c_dash then subset_scan DDash tbl s'
          else if N.eqb c 69 then subset_scan (DKw 1) tbl s'
          else None
      | DKw k =>
          match nth_error s_entity k with
          | Some d => if N.eqb c d then
                        subset_scan (if Nat.eqb (S k) (length s_entity) then DWs1 false else DKw (S k)) tbl s'
                      else None
          | None => None
          end
      | DWs1 seen =>
          if is_ws c then subset_scan (DWs1 true) tbl s'
          else if N.eqb c c_pct then None
          else if is_name_start c then (if seen then subset_scan (DName [c]) tbl s' else Some None)
          else Some None
      | DName acc =>
          if is_name_char c then subset_scan (DName (c :: acc)) tbl s'
          else if is_ws c then subset_scan (DWs2 (rev acc) true) tbl s'
          else Some None
      | DWs2 name seen =>
          if is_ws c then subset_scan (DWs2 name true) tbl s'
          else if N.eqb c c_dq || N.eqb c c_sq then subset_scan (DLit name c []) tbl s'
          else None                (* SYSTEM / PUBLIC / anything else *)
      | DLit name q acc =>
          if N.eqb c q then subset_scan DEnd ((name, rev acc) :: tbl) s'
          else subset_scan (DLit name q (c :: acc)) tbl s'
      | DEnd =>
          if is_ws c then subset_scan DEnd tbl s'
          else if N.eqb c c_gt then subset_scan DS tbl s'
          else None                (* NDATA ... *)
      | DDash => if N.eqb c c_dash then subset_scan (DCom 0) tbl s' else Some None
      | DCom d =>
          match d with
          | 0 => if N.eqb c c_dash then subset_scan (DCom 1) tbl s'
                 else if is_xml_char c then subset_scan (DCom 0) tbl s' else Some None
          | 1 => if N.eqb c c_dash then subset_scan (DCom 2) tbl s'
                 else if is_xml_char c then subset_scan (DCom 0) tbl s' else Some None
          | _ => if N.eqb c c_gt then subset_scan DS tbl s' else Some None
          end
      end
  end.

(* the first declaration of a name binds *)
Fixpoint lookup_ent (name : str) (tbl : list (str * str)) : option str :=
  match tbl with
  | [] => None
  | (n, v) :: tbl' => if str_eqb n name then Some v else lookup_ent name tbl'
  end.

(* every literal of the subset is a legal EntityValue *)
Fixpoint repl_table (tbl : list (str * str)) : option (list (str * str)) :=
  match tbl with
  | [] => Some []
  | (n, v) :: tbl' =>
      match ent_repl v, repl_table tbl' with
      | Some r, Some t => Some ((n, r) :: t)
      | _, _ => None
      end
  end.

(* a reference to [name] while the entities [open] are being expanded *)
Fixpoint ref_ok (fuel : nat) (tbl : list (str * str)) (open : list str) (name : str) : bool :=
  match fuel with
  | O => false
  | S f =>
      match lookup_ent name tbl with
      | Some r => negb (mem_str name open) && fragment_ok (ref_ok f tbl (name :: open)) r
      | None => mem_str name xmllist
      end
  end.

Definition strip_suffix (suffix s : str) : option str :=
  let n := length s - length suffix in
  if (length suffix <=? length s) && str_eqb (skipn n s) suffix then Some (firstn n s) else None.

Definition xml_doc (doc : str) : xverdict :=
  if negb (starts_with tmpl_a doc) then XUnsupported
  else
    match subset_scan DS [] (skipn (length tmpl_a) doc) with
    | None => XUnsupported
    | Some None => XBad
    | Some (Some (tbl, rest)) =>
        (* rest = the template after its ']' *)
        let b := skipn 1 tmpl_b in
        if negb (starts_with b rest) then XUnsupported
        else
          match strip_suffix tmpl_c (skipn (length b) rest) with
          | None => XUnsupported
          | Some content =>
              match repl_table tbl with
              | None => XBad
              | Some t =>
                  if fragment_ok (ref_ok (S (length t)) t []) content then XOk else XBad
              end
          end
    end.
