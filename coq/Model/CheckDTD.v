(* Model of compare_locales/checks/dtd.py (DTDChecker.known_entities,
   entities_for_value, check, processAndroidContent), of checks/base.py
   Checker.check (the encoding warning) and of the tuple arm of
   parser/dtd.py DTDEntityMixin.value_position.  Definitions only.

   expat (xml.sax) is an ORACLE: [sax doc] is what one parser.parse(doc) call
   does — None or the SAXParseException's (line, column, message), and the
   character data delivered to the content handler up to there.  The codec
   behind DTDChecker.unicode_escape is an oracle too: [uesc s] is None or the
   (position, reason) of the UnicodeDecodeError it re-raises.

   A Python set of names is a strictly increasing list of strings (code point
   order, which is str's order): every place where the code depends on the
   order of a set goes through sorted().

   Regular expressions, the tmpl / xmllist literals, the declaration and
   self-reference templates, column corrections, messages, severities and
   categories come from Generated/RxC07.v and Generated/C07Facts.v. *)
From Coq Require Import NArith ZArith List Bool Arith.
From CL Require Import Base.Sx Base.Res Base.Str Regex.Rx Generated.RxC07 Generated.C07Facts
  Model.CSS Model.XmlContent.
Import ListNotations.

Record entity := mkent {
  e_key : str;
  e_val : str;                    (* raw_val *)
  e_all : str                     (* all: pre-comment and declaration *)
}.

(* ---- sets of names --------------------------------------------------------- *)
Fixpoint str_ltb (a b : str) : bool :=
  match a, b with
  | _, [] => false
  | [], _ :: _ => true
  | x :: a', y :: b' =>
      if N.ltb x y then true else if N.ltb y x then false else str_ltb a' b'
  end.

Fixpoint set_add (x : str) (l : list str) : list str :=
  match l with
  | [] => [x]
  | y :: l' =>
      if str_eqb x y then l
      else if str_ltb x y then x :: l
      else y :: set_add x l'
  end.

Definition set_of (l : list str) : list str := fold_right set_add [] l.
Definition set_union (a b : list str) : list str := fold_right set_add b a.
Definition set_diff (a b : list str) : list str := filter (fun x => negb (mem_str x b)) a.

Fixpoint mapM {T U} (f : T -> result U) (l : list T) : result (list U) :=
  match l with
  | [] => Ok []
  | x :: l' => do y <- f x; do ys <- mapM f l'; Ok (y :: ys)
  end.

(* ---- entities_for_value ----------------------------------------------------------
   reflist = {m.group(1) for m in self.eref.finditer(value)}
   reflist -= self.xmllist                                                           *)
Definition eref_names (value : str) : result (list str) :=
  do ms <- finditer rx_c07_eref value;
  mapM (fun m => match group_str value m 1 with
                 | Some n => Ok n
                 | None => Raise AssertionError   (* group 1 is not optional in the expression *)
                 end) ms.

Definition entities_for_value (value : str) : result (list str) :=
  do ns <- eref_names value;
  Ok (set_diff (set_of ns) xmllist).

(* ---- known_entities ------------------------------------------------------------------
   if self.__known_entities is None and self.reference is not None:
       self.__known_entities = set()
       for ent in self.reference.values():
           self.__known_entities.update(self.entities_for_value(ent.raw_val))
   return self.__known_entities if self.__known_entities is not None
          else self.entities_for_value(refValue)
   [cache] is self.__known_entities, [reference] the raw values of self.reference.   *)
Definition known_entities (cache : option (list str)) (reference : option (list str))
           (refValue : str) : result (list str * option (list str)) :=
  match cache, reference with
  | None, Some refs =>
      do sets <- mapM entities_for_value refs;
      let k := fold_left (fun acc s => set_union s acc) sets [] in
      Ok (k, Some k)
  | Some k, _ => Ok (k, cache)
  | None, None =>
      do e <- entities_for_value refValue;
      Ok (e, None)
  end.

(* ---- the synthetic documents ------------------------------------------------------------ *)
(* "".join('<!ENTITY %s "">' % s for s in names) *)
Definition decls (names : list str) : str :=
  concat (map (fun n => render t_decl [n]) names).

(* self.tmpl % (subset, content) *)
Definition doc (subset content : str) : str :=
  tmpl_a ++ subset ++ tmpl_b ++ content ++ tmpl_c.

Definition doc_value (names : list str) (value : str) : str := doc (decls names) value.

(* also catch stray %: the entity's own declaration in front, referenced once *)
Definition doc_decl (names : list str) (e : entity) : str :=
  doc (e_all e ++ decls names) (render t_selfref [e_key e]).

(* ---- str.splitlines() ----------------------------------------------------------------------- *)
Fixpoint splitlines_aux (s : str) (cur : str) : list str :=
  match s with
  | [] => match cur with [] => [] | _ => [rev cur] end
  | c :: s' =>
      if is_linebreak c then
        match c, s' with
        | 13%N, 10%N :: s'' => rev cur :: splitlines_aux s'' []
        | _, _ => rev cur :: splitlines_aux s' []
        end
      else splitlines_aux s' (c :: cur)
  end.
Definition splitlines (s : str) : list str := splitlines_aux s [].

(* ---- the position of a parse error ---------------------------------------------------------------
   lnr = e.getLineNumber() - 1
   lines = l10nValue.splitlines()
   if lnr > len(lines):
       lnr = len(lines)
       # an empty value has no lines
       col = len(lines[lnr - 1]) if lines else 0
   else:
       col = e.getColumnNumber()
       if lnr == 1: col -= len("<elem>")
       elif lnr == 0: col -= len("<!DOCTYPE elem [")
   (total since the repair: before it, lines[-1] of an empty list raised IndexError)      *)
Definition error_position (l10nValue : str) (line col : Z) : position :=
  let lnr := (line - 1)%Z in
  let lines := splitlines l10nValue in
  if (Z.of_nat (length lines) <? lnr)%Z then
    match lines with
    | [] => PTuple 0 0
    | x :: l => PTuple (Z.of_nat (length lines)) (Z.of_nat (length (last lines x)))
    end
  else
    PTuple lnr
           (if (lnr =? 1)%Z then (col - Z.of_nat col_line1)%Z
            else if (lnr =? 0)%Z then (col - Z.of_nat col_line0)%Z
            else col).

(* ---- Checker.check (checks/base.py) --------------------------------------------------------------- *)
Definition check_base (l10n : entity) : result (list issue) :=
  do ms <- finditer rx_c07_mochibake (e_all l10n);
  Ok (map (fun x => tpl_issue y_encoding (PEnt (m_start x)) [e_key l10n]) ms).

(* ---- processAndroidContent ------------------------------------------------------------------------------
   try: self.unicode_escape(val)
   except UnicodeDecodeError as e: yield ("error", e.args[2], e.args[4], "android")
   m = self.quoted.match(val)
   if m: q = m.group("q"); offset = 0; val = val[1:-1]
   else: q = (the class of both quote characters); offset = -1
   stray_quot = re.compile((backslashes)*(%s) % q)
   for m in stray_quot.finditer(val):
       if len(m.group(0)) % 2:
           msg = (quotes message) if m.group(1) is the double quote else (apostrophes message)
           yield ("error", m.end(0) + offset, msg, "android")                                              *)
Section Android.
Variable uesc : str -> option (nat * str).

Definition quote_issue (val : str) (offset : Z) (m : mres) : list issue :=
  if Nat.odd (m_end m - m_start m) then
    let msg := match group_str val m 1 with
               | Some [34%N] => s_msg_quote
               | _ => s_msg_apos
               end in
    [var_issue y_android_quote (PInt (Z.of_nat (m_end m) + offset)) msg]
  else [].

Definition process_android (val : str) : result (list issue) :=
  let esc := match uesc val with
             | Some (p, reason) => [var_issue y_android_escape (PInt (Z.of_nat p)) reason]
             | None => []
             end in
  do cfg <-
    match omatch0 rx_c07_quoted val with
    | Some m =>
        match group_str val m g_c07_quoted_q with
        | Some [34%N] => Ok (rx_c07_stray_dq, 0%Z, slice val 1 (length val - 1))
        | Some [39%N] => Ok (rx_c07_stray_sq, 0%Z, slice val 1 (length val - 1))
        | _ => Raise AssertionError     (* group q is the class of the two quote characters *)
        end
    | None => Ok (rx_c07_stray_any, (-1)%Z, val)
    end;
  let '(r, offset, val') := cfg in
  do ms <- finditer r val';
  Ok (esc ++ flat_map (quote_issue val' offset) ms).
End Android.

(* ---- DTDChecker.check ------------------------------------------------------------------------------------ *)
Record sax_out := mksax {
  sax_err : option (Z * Z * str);       (* line, column, message of the SAXParseException *)
  sax_text : str                        (* characters() data delivered *)
}.

Definition notnil {T} (l : list T) : bool := match l with [] => false | _ => true end.

(* the part of warntmpl after the name:
   if reflist:
       if inContext:
           elsewhere = reflist - inContext
           warntmpl += " (%s used in context" % ", ".join(sorted(inContext))
           if elsewhere: warntmpl += ", %s known)" % ", ".join(sorted(elsewhere))
           else: warntmpl += ")"
       else: warntmpl += " (%s known)" % ", ".join(sorted(reflist))
   (names contain no '%': it is not a NameChar, so warntmpl % key has one directive) *)
Definition warn_suffix (reflist inContext : list str) : str :=
  if notnil reflist then
    if notnil inContext then
      let elsewhere := set_diff reflist inContext in
      render t_ctx_used [join s_join inContext] ++
      (if notnil elsewhere then render t_ctx_elsewhere [join s_join elsewhere] else s_ctx_close)
    else render t_ctx_known [join s_join reflist]
  else [].

Definition unknown_issue (suffix key : str) : issue :=
  var_issue y_unknown (PTuple 0 0) (render t_unknown [key] ++ suffix).

Definition mismatch_issue (inContext : list str) (key : str) : issue :=
  tpl_issue y_mismatch (PTuple 0 0) [key; join s_join inContext].

Section Check.
Variable sax : str -> sax_out.
Variable uesc : str -> option (nat * str).

(* the names declared in the two documents of the reference value / of the localized value *)
Definition missing_names (reflist l10nlist : list str) : list str := set_diff l10nlist reflist.

Definition is_some {T} (o : option T) : bool := match o with Some _ => true | None => false end.

Definition check (cache : option (list str)) (reference : option (list str)) (android : bool)
           (ref l10n : entity) : result (list issue * option (list str)) :=
  do enc <- check_base l10n;
  let refValue := e_val ref in
  let l10nValue := e_val l10n in
  do kc <- known_entities cache reference refValue;
  let '(reflist, cache') := kc in
  do inContext <- entities_for_value refValue;
  (* reference: two parses in one try block *)
  let ref_bad :=
    match sax_err (sax (doc_value reflist refValue)) with
    | Some _ => true
    | None => is_some (sax_err (sax (doc_decl reflist ref)))
    end in
  let w_ref := if ref_bad then [lit_issue y_cant_parse (PTuple 0 0)] else [] in
  (* localization *)
  do l10nlist <- entities_for_value l10nValue;
  let missing := missing_names reflist l10nlist in
  let names := reflist ++ missing in
  let o3 := sax (doc_value names l10nValue) in
  let err := match sax_err o3 with
             | Some e => Some e
             | None => sax_err (sax (doc_decl names l10n))
             end in
  let e_l10n :=
    match err with
    | Some (line, col, msg) => [var_issue y_xmlparse (error_position l10nValue line col) msg]
    | None => []
    end in
  let suffix := warn_suffix reflist inContext in
  let w_missing := map (unknown_issue suffix) missing in
  let w_mismatch :=
    if notnil inContext && notnil l10nlist then
      map (mismatch_issue inContext) (set_diff (set_diff l10nlist inContext) missing)
    else [] in
  let w_num :=
    if is_match rx_c07_num refValue && negb (is_match rx_c07_num l10nValue)
    then [lit_issue y_number (PInt 0)] else [] in
  let e_len :=
    if is_match rx_c07_length refValue && negb (is_match rx_c07_length l10nValue)
    then [lit_issue y_css_length (PInt 0)] else [] in
  do style <- maybe_style refValue l10nValue;
  do andr <- (if android then process_android uesc (sax_text o3) else Ok []);
  Ok (enc ++ w_ref ++ e_l10n ++ w_missing ++ w_mismatch ++ w_num ++ e_len ++ style ++ andr, cache').

(* the four documents, whether or not the code gets to parse them *)
Definition documents (cache : option (list str)) (reference : option (list str))
           (ref l10n : entity) : result (list str) :=
  do kc <- known_entities cache reference (e_val ref);
  let reflist := fst kc in
  do l10nlist <- entities_for_value (e_val l10n);
  let names := reflist ++ missing_names reflist l10nlist in
  Ok [doc_value reflist (e_val ref); doc_decl reflist ref;
      doc_value names (e_val l10n); doc_decl names l10n].
End Check.

(* ---- DTDEntityMixin.value_position, tuple arm ------------------------------------------------------
   line_pos, col_pos = offset
   line, col = super().value_position()
   if line_pos == 1: col = col + col_pos
   else: col = col_pos; line += line_pos - 1                                                        *)
Definition value_position_tuple (base : Z * Z) (line_pos col_pos : Z) : Z * Z :=
  if (line_pos =? 1)%Z then (fst base, (snd base + col_pos)%Z)
  else ((fst base + (line_pos - 1))%Z, col_pos).

(* ---- wire format ------------------------------------------------------------------------------------ *)
Definition entity_of_sx (x : sx) : entity :=
  mkent (to_str (nth_sx 0 x)) (to_str (nth_sx 1 x)) (to_str (nth_sx 2 x)).

Definition names_sx (l : list str) : sx := of_list of_str l.
Definition names_of_sx (x : sx) : list str := to_list to_str x.

(* a table of recorded oracle answers: [doc; [line; col; msg] or []; text] *)
Definition sax_entry_of_sx (x : sx) : str * sax_out :=
  (to_str (nth_sx 0 x),
   mksax (to_option (fun e => (to_Z (nth_sx 0 e), to_Z (nth_sx 1 e), to_str (nth_sx 2 e))) (nth_sx 1 x))
         (to_str (nth_sx 2 x))).

Definition s_oracle_miss : str := of_ascii [111; 114; 97; 99; 108; 101; 45; 109; 105; 115; 115].

Fixpoint table_sax (tbl : list (str * sax_out)) (d : str) : sax_out :=
  match tbl with
  | [] => mksax (Some ((-1)%Z, (-1)%Z, s_oracle_miss)) []
  | (k, v) :: tbl' => if str_eqb k d then v else table_sax tbl' d
  end.

Definition uesc_entry_of_sx (x : sx) : str * option (nat * str) :=
  (to_str (nth_sx 0 x),
   to_option (fun e => (to_nat (nth_sx 0 e), to_str (nth_sx 1 e))) (nth_sx 1 x)).

Fixpoint table_uesc (tbl : list (str * option (nat * str))) (s : str) : option (nat * str) :=
  match tbl with
  | [] => Some (0, s_oracle_miss)
  | (k, v) :: tbl' => if str_eqb k s then v else table_uesc tbl' s
  end.

(* ---- the default oracle: Model/XmlContent.v standing in for expat ------------------------------------
   no position arithmetic is modelled for it: every error is reported at line 1, column 0 *)
Definition s_not_wf : str :=
  of_ascii [110; 111; 116; 32; 119; 101; 108; 108; 45; 102; 111; 114; 109; 101; 100].
Definition xml_sax (d : str) : sax_out :=
  match xml_doc d with
  | XOk => mksax None []
  | _ => mksax (Some (1%Z, 0%Z, s_not_wf)) []
  end.
